"""C02 -- dispatch picks route, then sink/static by recency; 404 / 405 / OPTIONS are exact.

Chain and where each link is proved (targets are the real functions, re-read from source):

  App.__init__ (both flavours)            new app: empty tables, configured order remembered           app_init
  App.add_sink / asgi.App.add_sink        [e] ++ sinks, statics unchanged, combined table rebuilt      add_sink
  App.add_static_route                    sinks unchanged, [e] ++ statics, combined table rebuilt      add_static_route
  App._update_sink_and_static_routes      combined == sinks ++ statics | statics ++ sinks              update_tables
      -> tables are python lists of ARBITRARY length and content (z3 Seq); by induction over the
         registration history each table is newest-first and the combined table is in configured order
  App._get_responder                      route (masks everything) | least matching index | 404
      get_responder[n=0..3]   concrete tables, every combination of sink/static and match/no match,
                              replayable counter-models
      get_responder_any_length  table of arbitrary length n, loop invariant "no earlier entry matched"
  App.add_route / asgi.App.add_route / CompiledRouter.add_route       route_wiring
      the node's method map is map_http_methods(resource, suffix) completed by
      set_default_responders(map, asgi=<flavour>)
  routing.util.map_http_methods           exactly the callable on_<method>[_<suffix>] attributes
  routing.util.set_default_responders     domain, user's responders kept, default OPTIONS, shared 405
  responders.create_method_not_allowed / create_default_options / path_not_found* / bad_request*
  errors.HTTPMethodNotAllowed.__init__    Allow == ', '.join(allowed)
  App.__call__ / asgi.App.__call__        prefix only: meta methods (WEBSOCKET) are answered 400 before routing
  StaticRoute.match                       the matcher of a static entry

Frames (what each step must leave alone; every one has a mutation in KILLS that only this clause refutes):
  _get_responder          writes nothing: app fields (tables, router hook, no new field), request, the route's method map,
                          the router's params dict; the empty params of a 404 / static hit are a new dict per lookup
  add_sink / add_static_route / _update_...   write the three tables only; the configured order stays
  App.__init__            two apps never share a table object
  create_method_not_allowed / create_default_options / HTTPMethodNotAllowed.__init__
                          the caller's method list is only read; every 405 has its own headers dict
  map_http_methods        the resource is not modified; each call returns a new dict
  set_default_responders  two maps never share a default responder; completing one leaves the other alone
  add_route               between map_http_methods and the routing tree nothing else edits the map
  StaticRoute.match       writes no attribute
Every harness declares its covers with v.expect_covers(...) first, so that an outcome whose v.cover is never executed is reported.
"""
from __future__ import annotations

from pyvc.core import And, Iff, Implies, Len, Not, Or
from pyvc.harness import harness, stubclass

PROP = 'C02'
APP = 'falcon.app:App'
AAPP = 'falcon.asgi.app:App'


# ---------------------------------------------------------------------------
# opaque participants


class Tok:
    """An opaque object (a resource, a responder, a sink, a params dict ...) known only by identity."""

    __pyvc_symbolic__ = True

    def __init__(self, name):
        self.name = name

    def __repr__(self):
        return '<%s>' % self.name


@stubclass
class Req:
    """falcon.Request as far as _get_responder reads it."""

    def __init__(self, v):
        self.path = v.str('path')
        self.method = v.str('method')
        self.is_websocket = v.bool('is_websocket')


@stubclass
class RouterSearch:
    """The router's find(): opaque, returns what the harness decided."""

    def __init__(self, result):
        self.result = result
        self.calls = []

    def __call__(self, path, req=None):
        self.calls.append((path, req))
        return self.result


@stubclass
class MethodMap:
    """An arbitrary mapping: the looked-up key is either bound to `responder` or absent."""

    def __init__(self, v, has, responder):
        self.v = v
        self.has = has
        self.responder = responder
        self.asked = []
        self.writes = []  # any attempt to modify the mapping (it is the route's own table: a lookup only reads it)

    def __pyvc_setitem__(self, k, x):
        self.writes.append(('set', k))

    __setitem__ = __pyvc_setitem__

    def __pyvc_delitem__(self, k):
        self.writes.append(('del', k))

    __delitem__ = __pyvc_delitem__

    def setdefault(self, k, x=None):
        self.writes.append(('setdefault', k))
        return self.responder if self.has else x

    def pop(self, k, *d):
        self.writes.append(('pop', k))
        return self.responder if self.has else (d[0] if d else None)

    def update(self, *a, **k):
        self.writes.append(('update',))

    def clear(self):
        self.writes.append(('clear',))

    def __pyvc_getitem__(self, k):
        self.asked.append(k)
        if self.has:
            return self.responder
        self.v.ctx.raise_py(KeyError, k)

    def __getitem__(self, k):
        self.asked.append(k)
        if self.has:
            return self.responder
        raise KeyError(k)


@stubclass
class MatchObj:
    """What a sink pattern's match() returns on success (re.Match): truthy, has groupdict()."""

    def __init__(self, owner):
        self.owner = owner

    def __bool__(self):  # a re.Match is always true
        return True

    def groupdict(self):
        o = self.owner
        o.v.check('groupdict-only-asked-of-a-sink-match', o.is_sink)
        return o.groups


@stubclass
class Matcher:
    """A sink prefix pattern or a static route, observed through match(path) only (a pure predicate of the path)."""

    def __init__(self, v, idx, is_sink, matches, log):
        self.v = v
        self.idx = idx
        self.is_sink = is_sink
        self.matches = matches  # symbolic bool: does this entry match the request path
        self.groups = Tok('groupdict%d' % idx)
        self.log = log

    def match(self, path):
        self.log.append((self.idx, path))
        if self.matches:  # forks
            return MatchObj(self) if self.is_sink else True
        return None if self.is_sink else False


def app_obj(v, asgi, **fields):
    return v.obj(AAPP if asgi else APP, **fields)


# --- frames: "what the function does not say it changes, it leaves alone" ------------------------


def snapshot(o):
    """All fields of an object as {name: value}: the field record of an interpreted object, the slots and __dict__ of a real one."""
    from pyvc.core import Obj

    if isinstance(o, Obj):
        return dict(o._fields)
    out = {}
    for c in type(o).__mro__:
        sl = c.__dict__.get('__slots__', ())
        for n in ((sl,) if isinstance(sl, str) else sl):
            try:
                out[n] = object.__getattribute__(o, n)
            except AttributeError:
                pass
    out.update(getattr(o, '__dict__', {}))
    return out


def same_fields(now, before):
    """No field added, none removed, every field still bound to the very same object."""
    return set(now) == set(before) and all(now[k] is before[k] for k in before)


def same_items(now, before):
    """A list / tuple still holds the very same objects in the same order."""
    return len(now) == len(before) and all(a is b for a, b in zip(now, before))


def same_strings(now, before):
    """A list of (possibly symbolic) strings still reads the same, element by element."""
    return len(now) == len(before) and And(True, *[a == b for a, b in zip(now, before)])


# ---------------------------------------------------------------------------
# _get_responder


def get_responder(v):
    asgi = v.choose(2, 'asgi-app?')
    cls = v.real(AAPP if asgi else APP)
    req = Req(v)
    RES, RESP = Tok('resource'), Tok('responder')
    FIELD = Tok('field-value')
    PARAMS = {'id': FIELD}  # the dict of route fields the router hands over (a real dict: it must come back as it is)
    tmpl = v.str('uri_template')
    kind = v.choose(5, 'route-result')
    has = None
    mm = None
    if kind == 0:
        route = None
    elif kind in (1, 2):
        has = v.choose(2, 'method-in-map?')
        mm = MethodMap(v, has, RESP)
        route = (RES, mm, PARAMS, tmpl) if kind == 1 else (RES, mm, PARAMS)
    elif kind == 3:
        route = (None, None, None)  # legacy routers: "not found"
    else:
        route = (None, None, None, None)
    search = RouterSearch(route)

    n = v.choose(4, 'table-length')
    log = []
    entries = []
    ms = []
    for i in range(n):
        is_sink = bool(v.choose(2, 'entry%d-is-sink?' % i))
        m = v.bool('match%d' % i)
        ms.append(m)
        mt = Matcher(v, i, is_sink, m, log)
        entries.append((mt, Tok('sink%d' % i) if is_sink else mt, is_sink))
    app = app_obj(v, asgi, _router_search=search, _sink_and_static_routes=tuple(entries))
    v.expect_covers('route-with-method', 'route-without-method', '404', 'legacy-not-found-tuple', *(['fallback-hit', 'sink-hit', 'static-hit'] if n else []))
    app0, req0 = snapshot(app), snapshot(req)

    out = v.call(app, req)
    v.check('no-exception', out.exc is None)
    if out.exc is not None:
        return
    responder, params, resource, uri_template = out.value
    expected_key = 'WEBSOCKET' if req0['is_websocket'] else req0['method']  # forks in symbolic mode
    v.check('router-searched-once-with-request-path',
            len(search.calls) == 1 and search.calls[0][0] is req0['path'] and search.calls[0][1] is req)
    # frame: routing a request is a pure lookup -- it decides, it does not record.  Nothing reachable from the app
    # (router hook, combined table, any other field such as a cache) or from the request is written.
    v.check('lookup-leaves-the-app-unchanged', same_fields(snapshot(app), app0))
    v.check('lookup-leaves-the-request-unchanged', same_fields(snapshot(req), req0))

    if kind in (1, 2):
        # a route matched
        v.check('route-masks-sinks-and-static-routes', len(log) == 0)
        v.check('route-lookup-is-by-request-method-or-WEBSOCKET', len(mm.asked) == 1 and (mm.asked[0] == expected_key))
        # frame: the route's method map is the router's own table, shared by every request to that route
        v.check('lookup-leaves-the-route-method-map-unchanged', mm.writes == [])
        # frame: the route fields reach the responder exactly as the router produced them
        v.check('route-params-are-handed-over-unmodified', params is PARAMS and list(PARAMS.items()) == [('id', FIELD)])
        if has:
            v.check('route-responder-is-method-map-entry', responder is RESP)
            v.cover('route-with-method')
        else:
            v.check('route-without-method-gets-bad-request-default', responder is cls._default_responder_bad_request)
            v.cover('route-without-method')
        v.check('route-fields-are-the-params', params is PARAMS)
        v.check('route-resource-returned', resource is RES)
        v.check('route-template-returned', (uri_template is tmpl) if kind == 1 else (uri_template is None))
        return

    # no route: ordered scan of the combined table
    v.check('no-route-resource-is-none', resource is None)
    v.check('no-route-template-is-none', uri_template is None)
    v.check('matchers-see-the-request-path', all(p is req.path for _, p in log))
    consulted = [i for i, _ in log]
    none_matches = And(*[Not(m) for m in ms])
    for i in range(n):
        first = And(ms[i], *[Not(m) for m in ms[:i]])
        mt, obj, is_sink = entries[i]
        v.check('fallback-is-first-matching-entry', Implies(first, responder is obj))
        v.check('fallback-params-groupdict-for-sink-empty-for-static',
                Implies(first, (params is mt.groups) if is_sink else (isinstance(params, dict) and params == {})))
        v.check('scan-stops-at-first-match', Implies(first, consulted == list(range(i + 1))))
    v.check('no-match-yields-404-default', Implies(none_matches, responder is cls._default_responder_path_not_found))
    v.check('no-match-params-empty', Implies(none_matches, isinstance(params, dict) and params == {}))
    v.check('no-match-scanned-everything', Implies(none_matches, consulted == list(range(n))))
    if kind >= 3:
        v.cover('legacy-not-found-tuple')
    if responder is cls._default_responder_path_not_found:
        v.cover('404')
    elif n:
        v.cover('fallback-hit')
        for i in range(n):
            if responder is entries[i][1]:
                v.cover('sink-hit' if entries[i][2] else 'static-hit')


for _n in range(4):
    harness(PROP, APP + '._get_responder', name='get_responder[n=%d]' % _n, fix={'table-length': _n})(get_responder)


# --- two requests through one app: what the first lookup returned is not what the second one returns ----------


@harness(PROP, APP + '._get_responder')
def get_responder_twice(v):
    """The params of a request that matched no route (404, static route) are the responder's **kwargs and may be edited by
    process_resource middleware: each lookup must hand out its own empty dict, never one shared with other requests."""
    v.expect_covers('two-404s', 'two-static-hits')
    asgi = v.choose(2, 'asgi-app?')
    cls = v.real(AAPP if asgi else APP)
    hit = bool(v.choose(2, 'a-static-route-matches?'))
    log = []
    mt = Matcher(v, 0, False, hit, log)
    search = RouterSearch(None)
    app = app_obj(v, asgi, _router_search=search, _sink_and_static_routes=((mt, mt, False),))
    app0 = snapshot(app)
    o1 = v.call(app, Req(v))
    v.check('no-exception', o1.exc is None)
    if o1.exc is not None:
        return
    p1 = o1.value[1]
    if isinstance(p1, dict):
        p1['injected-by-middleware-of-request-1'] = Tok('value')
    o2 = v.call(app, Req(v))
    v.check('no-exception', o2.exc is None)
    if o2.exc is not None:
        return
    p2 = o2.value[1]
    v.check('no-route-params-are-a-fresh-dict-per-lookup', isinstance(p1, dict) and isinstance(p2, dict) and p2 is not p1)
    v.check('no-route-params-of-the-next-request-are-empty', isinstance(p2, dict) and p2 == {})
    want = mt if hit else cls._default_responder_path_not_found
    v.check('same-app-same-answer', o1.value[0] is want and o2.value[0] is want)
    v.check('lookup-leaves-the-app-unchanged', same_fields(snapshot(app), app0))
    v.cover('two-static-hits' if hit else 'two-404s')


# --- the scan for a table of arbitrary length n (loop invariant) --------------------------------


@stubclass
class Table:
    """The combined table as a function index -> entry; `hit(i)`: entry i matches the request path,
    `sink(i)`: entry i is a sink.  `j` is an arbitrary index (universally quantified by being a free input)."""

    def __init__(self, v, path):
        import z3
        from pyvc.core import mk_bool

        self.v = v
        self.path = path
        self.n = v.int('n', 0)
        self.j = v.int('j', 0)
        hit = z3.Function('entry_matches_path', z3.IntSort(), z3.BoolSort())
        sink = z3.Function('entry_is_sink', z3.IntSort(), z3.BoolSort())
        self.hit = lambda i: mk_bool(hit(i.t if hasattr(i, 't') else i))
        self.sink = lambda i: mk_bool(sink(i.t if hasattr(i, 't') else i))
        self.path_ok = True
        self.touched = False

    def __pyvc_seq__(self):
        self.touched = True
        return self

    def length(self):
        self.touched = True
        return self.n

    def __getitem__(self, i):
        self.touched = True
        return (IMatcher(self, i), ITarget(self, i), self.sink(i))

    def none_before(self, i):
        """the arbitrary entry j, if before i, does not match"""
        return Implies(self.j < i, Not(self.hit(self.j)))


@stubclass
class ITarget:
    def __init__(self, table, i):
        self.table = table
        self.i = i


@stubclass
class IGroups:
    def __init__(self, i):
        self.i = i


@stubclass
class IMatch:
    def __init__(self, table, i):
        self.table = table
        self.i = i

    def __pyvc_truth__(self):
        return self.table.hit(self.i)

    def groupdict(self):
        self.table.v.check('groupdict-only-asked-of-a-sink-match', self.table.sink(self.i))
        return IGroups(self.i)


@stubclass
class IMatcher:
    def __init__(self, table, i):
        self.table = table
        self.i = i

    def match(self, path):
        if path is not self.table.path:
            self.table.path_ok = False
        return IMatch(self.table, self.i)


def _scan_invariant(reg, ex):
    from pyvc.interp import LoopSpec

    def inv(L):
        t = L['self']._fields['_sink_and_static_routes']
        p = L['params']
        return And(t.none_before(L['_i_for0']), isinstance(p, dict) and len(p) == 0)

    reg.loops[(APP + '._get_responder', 'for#0')] = LoopSpec(inv=inv)


@harness(PROP, APP + '._get_responder', setup=_scan_invariant)
def get_responder_any_length(v):
    """A table of arbitrary length: a route never looks at it; without a route the least matching index wins, else 404."""
    if v.concrete:
        return  # the table is a function symbol: counter-models are replayed by the n=0..3 harnesses
    asgi = v.choose(2, 'asgi-app?')
    cls = v.real(AAPP if asgi else APP)
    req = Req(v)
    rk = v.choose(3, 'route-result')
    RES, RESP, PARAMS = Tok('resource'), Tok('responder'), Tok('route-params')
    mm = MethodMap(v, v.choose(2, 'method-in-map?'), RESP) if rk == 2 else None
    search = RouterSearch([None, (None, None, None), (RES, mm, PARAMS, 'tmpl')][rk])
    t = Table(v, req.path)
    app = app_obj(v, asgi, _router_search=search, _sink_and_static_routes=t)
    v.expect_covers('route', 'sink-hit', 'static-hit', '404')
    app0, req0 = snapshot(app), snapshot(req)
    out = v.call(app, req)
    v.check('no-exception', out.exc is None)
    if out.exc is not None:
        return
    responder, params, resource, uri_template = out.value
    v.check('lookup-leaves-the-app-unchanged', same_fields(snapshot(app), app0))
    v.check('lookup-leaves-the-request-unchanged', same_fields(snapshot(req), req0))
    if rk == 2:
        v.check('lookup-leaves-the-route-method-map-unchanged', mm.writes == [])
        v.check('route-masks-sinks-and-static-routes', not t.touched)
        v.check('route-responder-is-method-map-entry' if mm.has else 'route-without-method-gets-bad-request-default',
                responder is (RESP if mm.has else cls._default_responder_bad_request))
        v.check('route-fields-are-the-params', params is PARAMS)
        v.check('route-resource-returned', resource is RES)
        v.cover('route')
        return
    v.check('no-route-resource-is-none', resource is None)
    v.check('no-route-template-is-none', uri_template is None)
    v.check('matchers-see-the-request-path', t.path_ok)
    if isinstance(responder, ITarget):
        k = responder.i
        v.check('fallback-is-first-matching-entry', And(0 <= k, k < t.n, t.hit(k), t.none_before(k)))
        if t.sink(k):
            v.check('fallback-params-groupdict-for-sink-empty-for-static', isinstance(params, IGroups) and params.i is k)
            v.cover('sink-hit')
        else:
            v.check('fallback-params-groupdict-for-sink-empty-for-static', isinstance(params, dict) and params == {})
            v.cover('static-hit')
    else:
        v.check('no-match-yields-404-default', responder is cls._default_responder_path_not_found)
        v.check('no-match-params-empty', isinstance(params, dict) and params == {})
        v.check('no-match-scanned-everything', Implies(t.j < t.n, Not(t.hit(t.j))))
        v.cover('404')


# ---------------------------------------------------------------------------
# LIFO tables: add_sink / add_static_route / _update_sink_and_static_routes
#
# Ghost view: `_sinks` and `_static_routes` are python lists of ARBITRARY length (z3 Seq of entry
# identities).  One registration step maps (S, T) to ([e] ++ S, T) resp. (S, [e] ++ T) and rebuilds
# the combined table as S' ++ T' (sink_before_static_route) or T' ++ S'.  By induction over the
# registration history, from the empty tables of __init__: each table is newest-first.


def _same_value(a, b):
    import re

    if a is b:
        return True
    if type(a) is type(b) and isinstance(a, (bool, int, str, re.Pattern)):
        return a == b
    if isinstance(a, tuple) and isinstance(b, tuple) and len(a) == len(b):
        return all(_same_value(x, y) for x, y in zip(a, b))
    return False


class World:
    """Identities of the entries created while the subject runs (python value <-> z3 Int)."""

    def __init__(self):
        self.vals = []

    def ident(self, x):
        import z3

        for k, y in enumerate(self.vals):
            if _same_value(x, y):
                return z3.IntVal(-(k + 1))
        self.vals.append(x)
        return z3.IntVal(-len(self.vals))


@stubclass
class GList:
    """A python list (or, frozen, a tuple) of opaque entries: arbitrary length, arbitrary content."""

    def __init__(self, world, seq, frozen=False):
        self.w = world
        self.seq = seq
        self.frozen = frozen

    @staticmethod
    def fresh(v, world, name):
        import z3

        n = v.int('len_' + name, 0)
        s = v.ctx.fresh_const(name, z3.SeqSort(z3.IntSort()))
        v.assume(_zb(z3.Length(s) == n.t))
        return GList(world, s)

    def insert(self, i, x):
        import z3

        assert not self.frozen
        n = z3.Length(self.seq)
        i = i.t if hasattr(i, 't') else z3.IntVal(i)
        pos = z3.If(i < 0, z3.If(n + i < 0, 0, n + i), z3.If(i > n, n, i))
        self.seq = z3.simplify(z3.Concat(z3.SubSeq(self.seq, 0, pos), z3.Unit(self.w.ident(x)), z3.SubSeq(self.seq, pos, n - pos)))

    def append(self, x):
        import z3

        assert not self.frozen
        self.seq = z3.simplify(z3.Concat(self.seq, z3.Unit(self.w.ident(x))))

    def __pyvc_add__(self, o):
        import z3

        if not isinstance(o, GList) or o.frozen != self.frozen:
            from pyvc.core import Unreached

            raise Unreached('list + non-list')
        return GList(self.w, z3.simplify(z3.Concat(self.seq, o.seq)), self.frozen)

    def __pyvc_len__(self):
        import z3
        from pyvc.core import mk_int

        return mk_int(z3.Length(self.seq))


def _zb(t):
    from pyvc.core import mk_bool

    return mk_bool(t)


def _tables_setup(reg, ex):
    import builtins
    import inspect

    from pyvc import models

    base_tuple = models.MODELS[id(builtins.tuple)]

    def m_tuple(I, x=()):
        if isinstance(x, GList):
            return GList(x.w, x.seq, frozen=True)
        return base_tuple(I, x)

    reg.add_model(builtins.tuple, m_tuple)
    reg.add_model(inspect.iscoroutinefunction, lambda I, f: f.is_coro if isinstance(f, Sink) else inspect.iscoroutinefunction(f))
    # callee contracts (falcon.util): opaque predicates / wrappers over the opaque sink
    reg.stubs['falcon.util.misc:is_python_func'] = lambda I, f: f.is_py
    reg.stubs['falcon.util.sync:_should_wrap_non_coroutines'] = lambda I: I.ctx.ghost['wrap_env']
    reg.stubs['falcon.util.sync:wrap_sync_to_async'] = lambda I, f, threadsafe=None: Wrapped(f)

    def static_init(I, self, prefix, directory, downloadable=False, fallback_filename=None):
        self._fields['init_args'] = (prefix, directory, downloadable, fallback_filename)

    reg.stubs['falcon.routing.static:StaticRoute.__init__'] = static_init


@stubclass
class Sink:
    def __init__(self, is_coro, is_py):
        self.is_coro = is_coro
        self.is_py = is_py


@stubclass
class Wrapped:
    def __init__(self, inner):
        self.inner = inner


def mk_sink(v):
    """An arbitrary sink callable: coroutine function or not; python function or native callable."""
    is_coro = bool(v.choose(2, 'sink-is-coroutine-function?'))
    is_py = bool(v.choose(2, 'sink-is-python-function?'))
    if not v.concrete:
        return Sink(is_coro, is_py), is_coro, is_py
    if is_coro:
        async def sink(req, resp, **kw):
            pass
    elif is_py:
        def sink(req, resp, **kw):
            pass
    else:
        sink = print  # a callable that is not a python function
        is_py = False
    return sink, is_coro, is_py


class Tables:
    """Builds an app with arbitrary tables and states the post-condition of one registration step."""

    def __init__(self, v, asgi):
        self.v = v
        self.asgi = asgi
        self.sbs = v.bool('sink_before_static_route')
        if v.concrete:
            nS, nT = v.int('len_S', 0), v.int('len_T', 0)
            self.S0 = [Tok('old-sink-entry%d' % i) for i in range(nS)]
            self.T0 = [Tok('old-static-entry%d' % i) for i in range(nT)]
            S, T = list(self.S0), list(self.T0)
            self.world = None
        else:
            self.world = World()
            S = GList.fresh(v, self.world, 'S')
            T = GList.fresh(v, self.world, 'T')
            self.S0, self.T0 = S.seq, T.seq
        self.stale = Tok('stale-combined-table')
        self.app = app_obj(v, asgi, _sinks=S, _static_routes=T, _sink_before_static_route=self.sbs, _sink_and_static_routes=self.stale)
        self.fields0 = snapshot(self.app)

    def check_frame(self):
        """What a registration step may write is the three tables; the configured order and everything else stays."""
        v = self.v
        now = snapshot(self.app)
        v.check('configured-order-is-not-changed-by-a-registration', '_sink_before_static_route' in now and now['_sink_before_static_route'] is self.sbs)
        v.check('registration-writes-nothing-but-the-three-tables', set(now) == set(self.fields0))

    # sequences as the specification sees them (z3 Seq term | python list)
    def now(self, field):
        x = self.v.get(self.app, field)
        if self.v.concrete:
            return list(x) if isinstance(x, (list, tuple)) else x
        return x.seq if isinstance(x, GList) else x

    def is_kind(self, field, frozen):
        x = self.v.get(self.app, field)
        if self.v.concrete:
            return isinstance(x, tuple if frozen else list)
        return isinstance(x, GList) and x.frozen == frozen

    def unit(self, e):
        import z3

        return [e] if self.v.concrete else z3.Unit(self.world.ident(e))

    def cat(self, a, b):
        import z3

        return a + b if self.v.concrete else z3.Concat(a, b)

    def eq(self, a, b):
        if self.v.concrete:
            return isinstance(a, list) and len(a) == len(b) and all(_same_value(x, y) for x, y in zip(a, b))
        import z3

        if not z3.is_expr(a):
            return False
        return _zb(a == b)

    def check_step(self, S1, T1, changed=None):
        """S1/T1: the expected tables after the step (spec side); `changed`: which table got the new head."""
        v = self.v
        self.check_frame()
        v.check('sinks-table-newest-first' if changed == 'sinks' else 'sinks-table-untouched', self.is_kind('_sinks', False) and self.eq(self.now('_sinks'), S1))
        v.check('static-table-newest-first' if changed == 'statics' else 'static-table-untouched',
                self.is_kind('_static_routes', False) and self.eq(self.now('_static_routes'), T1))
        if not self.is_kind('_sink_and_static_routes', True):
            v.check('combined-table-is-sinks-and-statics-in-configured-order', False)
            return
        C = self.now('_sink_and_static_routes')
        if self.sbs:  # forks
            v.check('combined-table-is-sinks-and-statics-in-configured-order', self.eq(C, self.cat(S1, T1)))
            v.cover('sinks-first')
        else:
            v.check('combined-table-is-sinks-and-statics-in-configured-order', self.eq(C, self.cat(T1, S1)))
            v.cover('statics-first')

    def check_untouched(self):
        v = self.v
        self.check_frame()
        v.check('rejected-registration-leaves-tables-untouched',
                And(self.eq(self.now('_sinks'), self.S0), self.eq(self.now('_static_routes'), self.T0),
                    v.get(self.app, '_sink_and_static_routes') is self.stale))


SINK_PREFIXES = [None, r'/api/(?P<version>v\d+)/', 'compiled']


def add_sink(v):
    import os
    import re

    v.expect_covers('rejected', 'registered', 'sinks-first', 'statics-first')
    asgi = v.choose(2, 'asgi-app?')
    if asgi:
        v.expect_covers('registered-wrapped-sync-sink')
    t = Tables(v, asgi)
    sink, is_coro, is_py = mk_sink(v)
    wrap_env = bool(v.choose(2, 'FALCON_ASGI_WRAP_NON_COROUTINES?')) if asgi else False
    pk = v.choose(3, 'prefix-kind')
    prefix = re.compile(r'/files/(?P<name>.+)') if pk == 2 else SINK_PREFIXES[pk]
    args = (sink,) if prefix is None else (sink, prefix)
    if v.concrete:
        saved = os.environ.pop('FALCON_ASGI_WRAP_NON_COROUTINES', None)
        if wrap_env:
            os.environ['FALCON_ASGI_WRAP_NON_COROUTINES'] = 'Y'
        try:
            out = v.call(t.app, *args, target=(AAPP if asgi else APP) + '.add_sink')
        finally:
            os.environ.pop('FALCON_ASGI_WRAP_NON_COROUTINES', None)
            if saved is not None:
                os.environ['FALCON_ASGI_WRAP_NON_COROUTINES'] = saved
    else:
        v.ctx.ghost['wrap_env'] = wrap_env
        out = v.call(t.app, *args, target=(AAPP if asgi else APP) + '.add_sink')

    CompatibilityError = v.real('falcon.errors:CompatibilityError')
    if asgi:
        rejected = (not is_coro) and is_py and not wrap_env
        wrapped = (not is_coro) and is_py and wrap_env
    else:
        rejected = is_coro
        wrapped = False
    v.check('sink-of-the-wrong-flavour-rejected', (out.exc is not None and out.exc.isa(CompatibilityError)) if rejected else out.exc is None)
    if out.exc is not None:
        t.check_untouched()
        v.cover('rejected')
        return
    # the entry that must now head the sinks table
    pattern = re.compile('/' if prefix is None else prefix) if pk != 2 else prefix
    entry = _head(v, t, '_sinks')
    v.check('new-sink-entry-is-pattern-sink-true',
            isinstance(entry, tuple) and len(entry) == 3 and _same_value(entry[0], pattern) and entry[2] is True
            and (_is_wrapped(v, entry[1], sink) if wrapped else entry[1] is sink))
    if not isinstance(entry, tuple):
        return
    t.check_step(t.cat(t.unit(entry), t.S0), t.T0, changed='sinks')
    v.cover('registered')
    if wrapped:
        v.cover('registered-wrapped-sync-sink')


def _head(v, t, field):
    """The entry at index 0 of a table after the step (None when that is not a freshly created entry)."""
    x = v.get(t.app, field)
    if v.concrete:
        old = t.S0 + t.T0
        created = [e for e in x if not any(e is o for o in old)] if isinstance(x, (list, tuple)) else []
        if x and any(x[0] is e for e in created):
            return x[0]
        return created[0] if len(created) == 1 else None
    import z3

    if not isinstance(x, GList):
        return None
    h = z3.simplify(x.seq[0])
    if z3.is_int_value(h) and h.as_long() < 0 and -h.as_long() <= len(t.world.vals):
        return t.world.vals[-h.as_long() - 1]
    # not syntactically at the head: the only created entry (the ordering clause then fails)
    return t.world.vals[0] if len(t.world.vals) == 1 else None


def _is_wrapped(v, got, sink):
    if v.concrete:
        import inspect

        return inspect.iscoroutinefunction(got) and getattr(got, '__wrapped__', None) is sink
    return isinstance(got, Wrapped) and got.inner is sink


for _a in (0, 1):
    harness(PROP, (AAPP if _a else APP) + '.add_sink', name='add_sink[asgi=%d]' % _a, setup=_tables_setup, fix={'asgi-app?': _a},
            inline=[APP + '.add_sink', APP + '._update_sink_and_static_routes'])(add_sink)


def add_static_route(v):
    v.expect_covers('registered', 'sinks-first', 'statics-first')
    asgi = v.choose(2, 'asgi-app?')
    t = Tables(v, asgi)
    import os

    # the optional arguments are handed on to the route object: each omitted or given (the fallback file must exist for the replay on the real class)
    dk = v.choose(3, 'downloadable?')  # omitted / False / True
    downloadable = dk == 2
    fk = v.choose(3, 'fallback_filename?')  # omitted / None / a file in the directory
    prefix, directory, some_file = '/static/', os.path.dirname(os.path.abspath(__file__)), os.path.basename(__file__)
    fallback = some_file if fk == 2 else None
    kw = {}
    if dk:
        kw['downloadable'] = downloadable
    if fk:
        kw['fallback_filename'] = fallback
    out = v.call(t.app, prefix, directory, **kw)
    v.check('no-exception', out.exc is None)
    if out.exc is not None:
        return
    entry = _head(v, t, '_static_routes')
    SR = v.real('falcon.routing.static:StaticRouteAsync' if asgi else 'falcon.routing.static:StaticRoute')
    ok = isinstance(entry, tuple) and len(entry) == 3 and entry[0] is entry[1] and entry[2] is False
    if ok:
        sr = entry[0]
        if v.concrete:
            ok = (type(sr) is SR and sr._prefix == prefix and sr._directory == directory and sr._downloadable == downloadable
                  and sr._fallback_filename == (None if fallback is None else os.path.join(directory, fallback)))
        else:
            ok = getattr(sr, '_cls', None) is SR and sr._fields.get('init_args') == (prefix, directory, downloadable, fallback)
    v.check('new-static-entry-is-route-route-false', ok)
    if not isinstance(entry, tuple):
        return
    t.check_step(t.S0, t.cat(t.unit(entry), t.T0), changed='statics')
    v.cover('registered')


harness(PROP, APP + '.add_static_route', setup=_tables_setup, inline=[APP + '._update_sink_and_static_routes'])(add_static_route)


@harness(PROP, APP + '._update_sink_and_static_routes', setup=_tables_setup)
def update_tables(v):
    v.expect_covers('sinks-first', 'statics-first')
    t = Tables(v, v.choose(2, 'asgi-app?'))
    out = v.call(t.app)
    v.check('no-exception', out.exc is None)
    if out.exc is None:
        t.check_step(t.S0, t.T0)


def _init_setup(reg, ex):
    def noop(name):
        def stub(I, self, *a, **k):
            I.ctx.ghost.setdefault('init_calls', []).append(name)

        return stub

    for key in (APP + '.add_middleware', APP + '.add_error_handler', AAPP + '.add_error_handler', 'falcon.routing.compiled:CompiledRouter.__init__',
                'falcon.request:RequestOptions.__init__', 'falcon.response:ResponseOptions.__init__', 'falcon.asgi.ws:WebSocketOptions.__init__',
                'falcon.middleware:CORSMiddleware.__init__'):
        reg.stubs[key] = noop(key)


def app_init(v):
    """Base case: a new app has empty sink / static / combined tables and remembers the configured order."""
    v.expect_covers('constructed', 'second-app-constructed')
    asgi = v.choose(2, 'asgi-app?')
    how = v.choose(3, 'sink_before_static_route-argument')  # omitted / True / False
    kw = {} if how == 0 else {'sink_before_static_route': how == 1}
    if v.choose(2, 'cors_enable?'):
        kw['cors_enable'] = True
    app = v.obj(AAPP if asgi else APP)
    out = v.call(app, target=(AAPP if asgi else APP) + '.__init__', **kw)
    v.check('no-exception', out.exc is None)
    if out.exc is not None:
        return
    S, T, C = v.get(app, '_sinks'), v.get(app, '_static_routes'), v.get(app, '_sink_and_static_routes')
    v.check('new-app-has-no-sinks', isinstance(S, list) and S == [])
    v.check('new-app-has-no-static-routes', isinstance(T, list) and T == [] and T is not S)
    v.check('new-app-has-empty-combined-table', isinstance(C, tuple) and C == ())
    v.check('sinks-come-first-unless-configured-otherwise', v.get(app, '_sink_before_static_route') is (how != 2))
    v.cover('constructed')
    # frame across constructions: the tables are the app's own (registrations insert into them in place) -- a second app,
    # built in the same process, must not get the same list objects, or its sinks would serve the first app's requests
    app2 = v.obj(AAPP if asgi else APP)
    out2 = v.call(app2, target=(AAPP if asgi else APP) + '.__init__', **kw)
    v.check('no-exception', out2.exc is None)
    if out2.exc is not None:
        return
    S2, T2 = v.get(app2, '_sinks'), v.get(app2, '_static_routes')
    v.check('tables-are-not-shared-between-apps', all(a is not b for a in (S, T) for b in (S2, T2)))
    v.check('constructing-another-app-leaves-this-one-alone',
            v.get(app, '_sinks') is S and S == [] and v.get(app, '_static_routes') is T and T == [] and v.get(app, '_sink_and_static_routes') is C)
    v.cover('second-app-constructed')


for _a in (0, 1):
    harness(PROP, (AAPP if _a else APP) + '.__init__', name='app_init[asgi=%d]' % _a, setup=_init_setup, fix={'asgi-app?': _a},
            inline=[APP + '.__init__'])(app_init)


# ---------------------------------------------------------------------------
# default responders (falcon/responders.py) and the 405 exception's Allow header


def invoke(v, fn, *args, **kw):
    """Call a responder produced by the subject (an interpreted closure / a real function)."""
    from pyvc.core import ExcVal, Outcome

    if not v.concrete:
        return v.interp.run(fn, args, kw)
    try:
        r = fn(*args, **kw)
        if hasattr(r, '__await__'):
            import asyncio

            r = asyncio.new_event_loop().run_until_complete(r)
        return Outcome(value=r)
    except Exception as e:  # noqa: BLE001 - the responder's own exception is the observation
        return Outcome(exc=ExcVal(type(e), e.args, real=e))


def is_coroutine_function(v, fn):
    if v.concrete:
        import inspect

        return inspect.iscoroutinefunction(fn)
    return bool(getattr(fn, 'is_async', False))


@stubclass
class Resp:
    """falcon.Response as far as a default responder touches it: status attribute + set_header (C15)."""

    def __init__(self):
        object.__setattr__(self, 'writes', [])

    def __setattr__(self, name, val):
        self.writes.append(('attr', name, val))

    def set_header(self, name, value):
        self.writes.append(('header', name, value))


def sym_strings(v, label, base):
    n = v.choose(4, label)
    return [v.str('%s%d' % (base, i)) for i in range(n)]


def joined(xs, sep=', '):
    out = ''
    for i, x in enumerate(xs):
        out = (out + sep + x) if i else x
    return out


def RESPONDERS(name):
    return 'falcon.responders:' + name


@harness(PROP, RESPONDERS('create_method_not_allowed'))
def method_not_allowed_responder(v):
    v.expect_covers('raised')
    asgi = bool(v.choose(2, 'asgi?'))
    allowed = sym_strings(v, 'allowed-count', 'allowed')
    allowed0 = list(allowed)  # the caller's list as it was handed in (the clauses below compare against this copy)
    out = v.call(allowed, asgi=asgi) if v.choose(2, 'asgi-by-keyword?') else v.call(allowed, asgi)
    v.check('no-exception', out.exc is None)
    if out.exc is not None:
        return
    r = out.value
    v.check('responder-flavour-follows-asgi-flag', is_coroutine_function(v, r) == asgi)
    resp = Resp()
    o2 = invoke(v, r, Tok('req'), resp, **({'id': Tok('field')} if v.choose(2, 'with-route-fields?') else {}))
    HTTPMethodNotAllowed = v.real('falcon.errors:HTTPMethodNotAllowed')
    v.check('responder-raises-405', o2.exc is not None and o2.exc.isa(HTTPMethodNotAllowed))
    if o2.exc is None:
        return
    if o2.exc.real is not None:
        got = o2.exc.real.headers.get('Allow')
        v.check('405-carries-exactly-the-given-methods', got == joined(allowed))
    else:
        v.check('405-carries-exactly-the-given-methods', len(o2.exc.args) == 1 and not o2.exc.kwargs and o2.exc.args[0] is allowed)
    v.check('405-responder-leaves-response-alone', resp.writes == [])
    # frame: the list belongs to the caller (set_default_responders goes on using it); neither creating nor running the
    # responder may edit it -- the two clauses above compare with the list object itself and would not notice
    v.check('given-method-list-is-not-modified', same_strings(allowed, allowed0))
    v.cover('raised')


def _http_error_init(reg, ex):
    def stub(I, self, status, **kw):
        self._fields['super_init'] = (status, kw)

    reg.stubs['falcon.http_error:HTTPError.__init__'] = stub


@harness(PROP, 'falcon.errors:HTTPMethodNotAllowed.__init__', setup=_http_error_init, inline=['falcon.errors:_load_headers'])
def method_not_allowed_exception(v):
    """The Allow header of the 405 is the comma-separated list of exactly the given methods."""
    v.expect_covers('constructed', 'second-405-constructed')
    allowed = sym_strings(v, 'allowed-count', 'allowed')
    allowed0 = list(allowed)
    e = v.obj('falcon.errors:HTTPMethodNotAllowed')
    out = v.call(e, allowed)
    v.check('no-exception', out.exc is None)
    if out.exc is not None:
        return
    HTTP_405 = v.real('falcon.status_codes:HTTP_405')

    def observed(exc):
        if v.concrete:
            return exc.status, exc.headers
        st, kw = exc._fields.get('super_init', (None, {}))
        return st, kw.get('headers')

    st, headers = observed(e)
    v.check('status-is-405', st == HTTP_405 and HTTP_405.startswith('405 '))
    v.check('allow-header-is-the-joined-list', isinstance(headers, dict) and list(headers) == ['Allow'] and And(True, headers['Allow'] == joined(allowed)))
    v.check('given-method-list-is-not-modified', same_strings(allowed, allowed0))
    v.cover('constructed')
    if not isinstance(headers, dict):
        return
    # frame across constructions: every 405 has its own headers dict; raising another one (for another resource, with other
    # methods) must not rewrite the Allow header of this one
    other = ['LOCK', 'UNLOCK']
    e2 = v.obj('falcon.errors:HTTPMethodNotAllowed')
    out2 = v.call(e2, other)
    v.check('no-exception', out2.exc is None)
    if out2.exc is not None:
        return
    st2, headers2 = observed(e2)
    v.check('each-405-has-its-own-headers', isinstance(headers2, dict) and headers2 is not headers)
    v.check('a-later-405-does-not-rewrite-this-allow-header', list(headers) == ['Allow'] and And(True, headers['Allow'] == joined(allowed0)))
    v.check('allow-header-is-the-joined-list', isinstance(headers2, dict) and list(headers2) == ['Allow'] and headers2['Allow'] == 'LOCK, UNLOCK')
    v.cover('second-405-constructed')


@harness(PROP, RESPONDERS('create_default_options'))
def default_options_responder(v):
    v.expect_covers('answered')
    asgi = bool(v.choose(2, 'asgi?'))
    allowed = sym_strings(v, 'allowed-count', 'allowed')
    allowed0 = list(allowed)
    out = v.call(allowed, asgi=asgi) if v.choose(2, 'asgi-by-keyword?') else v.call(allowed, asgi)
    v.check('no-exception', out.exc is None)
    if out.exc is not None:
        return
    r = out.value
    v.check('responder-flavour-follows-asgi-flag', is_coroutine_function(v, r) == asgi)
    resp = Resp()
    o2 = invoke(v, r, Tok('req'), resp, **({'id': Tok('field')} if v.choose(2, 'with-route-fields?') else {}))
    v.check('options-responder-returns-normally', o2.exc is None)
    if o2.exc is not None:
        return
    attrs = [(n, x) for k, n, x in resp.writes if k == 'attr']
    hdrs = [(n, x) for k, n, x in resp.writes if k == 'header']
    v.check('options-status-200', len(attrs) == 1 and attrs[0][0] == 'status' and attrs[0][1] == '200 OK')
    names = [n.lower() for n, _ in hdrs]
    v.check('options-sets-allow-and-content-length-only', sorted(names) == ['allow', 'content-length'])
    if sorted(names) != ['allow', 'content-length']:
        return
    h = {n.lower(): x for n, x in hdrs}
    v.check('options-allow-lists-exactly-the-given-methods', h['allow'] == joined(allowed))
    v.check('options-content-length-zero', h['content-length'] == '0')
    # frame: the caller's list is only read (set_default_responders appends OPTIONS to it afterwards, for the 405)
    v.check('given-method-list-is-not-modified', same_strings(allowed, allowed0))
    v.check('options-allow-lists-exactly-the-given-methods', h['allow'] == joined(allowed0))
    v.cover('answered')


def fixed_raiser(v):
    v.expect_covers('raised')
    which = v.choose(4, 'responder')
    name = ['path_not_found', 'path_not_found_async', 'bad_request', 'bad_request_async'][which]
    resp = Resp()
    out = v.call(Tok('req'), resp, target=RESPONDERS(name), **({'id': Tok('field')} if v.choose(2, 'with-route-fields?') else {}))
    want = v.real('falcon.errors:HTTPRouteNotFound' if which < 2 else 'falcon.errors:HTTPBadRequest')
    code = '404' if which < 2 else '400'
    v.check('default-responder-raises-its-error', out.exc is not None and out.exc.isa(want))
    if out.exc is None:
        return
    real = out.exc.real
    v.check('default-responder-status', real is not None and str(real.status).startswith(code + ' '))
    v.check('default-responder-leaves-response-alone', resp.writes == [])
    # wiring: the app classes use the flavour-appropriate pair
    wsgi, asgi = v.real(APP), v.real(AAPP)
    R = v.real('falcon.responders')
    v.check('apps-are-wired-to-these-defaults',
            wsgi._default_responder_path_not_found is R.path_not_found and wsgi._default_responder_bad_request is R.bad_request
            and asgi._default_responder_path_not_found is R.path_not_found_async and asgi._default_responder_bad_request is R.bad_request_async)
    v.cover('raised')


for _i, _n in enumerate(['path_not_found', 'path_not_found_async', 'bad_request', 'bad_request_async']):
    harness(PROP, RESPONDERS(_n), name=_n, fix={'responder': _i})(fixed_raiser)


# ---------------------------------------------------------------------------
# routing.util: map_http_methods / set_default_responders
#
# Both loop over the concrete tuple COMBINED_METHODS and touch each method independently of the
# others; the configuration space (3^23 attribute states, 2^23 key sets) is explored by case
# enumeration on concrete inputs (see NOT_DECIDED): one arbitrary method under every state, crossed
# with representative backgrounds.

UTIL = 'falcon.routing.util'


class Responder:
    def __init__(self, name):
        self.name = name

    def __call__(self, req, resp, **kw):
        pass

    def __repr__(self):
        return '<responder %s>' % self.name


class Resource:
    pass


class NotCallable:
    """An attribute value that is not callable (each instance distinct)."""


def attr_name(method, suffix):
    # the documented naming convention: on_<method>[_<suffix>]
    return 'on_' + method.lower() + ('_' + suffix if suffix else '')


def map_methods(v):
    constants = v.real('falcon.constants')
    ALL = list(constants.COMBINED_METHODS)
    sk = v.choose(3, 'suffix-kind')
    suffix = [None, '', 'items'][sk]
    m0 = ALL[v.choose(len(ALL), 'method-under-test')]
    plain_state = v.choose(3, 'plain-attribute')      # absent / callable / not callable
    suffixed_state = v.choose(3, 'suffixed-attribute')
    background = v.choose(4, 'other-methods')          # none / plain only / suffixed only / both
    res = Resource()
    plain, suffixed = {}, {}

    def put(m, kind, state):
        if state == 0:
            return
        val = Responder(kind + ':' + m) if state == 1 else NotCallable()
        setattr(res, attr_name(m, 'items' if kind == 'suffixed' else None), val)
        (suffixed if kind == 'suffixed' else plain)[m] = val

    for m in ALL:
        if m == m0:
            put(m, 'plain', plain_state)
            put(m, 'suffixed', suffixed_state)
        else:
            put(m, 'plain', 1 if background in (1, 3) else 0)
            put(m, 'suffixed', 1 if background in (2, 3) else 0)

    v.expect_covers('mapped', *(['raised'] if suffix else []))
    res0 = dict(vars(res))
    out = v.call(res) if sk == 0 and v.choose(2, 'suffix-omitted?') else v.call(res, suffix)
    # frame: mapping a resource reads its attributes; it neither adds bookkeeping to the resource nor rebinds a responder
    v.check('resource-is-not-modified', same_fields(vars(res), res0))
    # specification: exactly the existing callable attributes named on_<method>[_<suffix>]
    source = suffixed if suffix else plain
    expected = {m: source[m] for m in ALL if m in source and callable(source[m])}
    NotFound = v.real(UTIL + ':SuffixedMethodNotFoundError')
    must_raise = bool(suffix) and not expected
    v.check('suffix-without-responders-is-an-error', (out.exc is not None and out.exc.isa(NotFound)) if must_raise else out.exc is None)
    if out.exc is not None:
        v.cover('raised')
        return
    mm = out.value
    if not isinstance(mm, dict):
        v.check('maps-exactly-the-existing-callable-responders', False)
        return
    if suffix:
        v.check('suffixed-route-reaches-only-suffixed-responders', all(not any(r is p for p in plain.values()) for r in mm.values()))
    else:
        v.check('unsuffixed-route-reaches-only-unsuffixed-responders', all(not any(r is s for s in suffixed.values()) for r in mm.values()))
    v.check('maps-exactly-the-existing-callable-responders', set(mm) == set(expected))
    v.check('each-method-maps-to-its-own-responder', all(m in expected and mm[m] is expected[m] for m in mm))
    v.cover('mapped')
    # frame across calls: the map is completed IN PLACE by set_default_responders (405s with this route's Allow list) and
    # becomes the route node's table -- a second route on the same resource must get a map of its own
    out2 = v.call(res, suffix)
    mm2 = out2.value if out2.exc is None else None
    v.check('each-call-returns-a-new-map', isinstance(mm2, dict) and mm2 is not mm)
    v.check('a-later-call-leaves-the-earlier-map-alone', set(mm) == set(expected) and all(mm[m] is expected[m] for m in expected))


for _s in range(3):
    harness(PROP, UTIL + ':map_http_methods', name='map_http_methods[suffix=%s]' % ['None', 'empty', 'items'][_s], fix={'suffix-kind': _s})(map_methods)


# --- wiring: add_route builds the route's method map with exactly these two functions ------------

CR = 'falcon.routing.compiled:CompiledRouter'


def _wiring_setup(reg, ex):
    def mhm(I, resource, suffix=None):
        g = I.ctx.ghost
        g.setdefault('log', []).append(('map_http_methods', resource, suffix))
        return g['method_map']

    def sdr(I, method_map, asgi=False):
        I.ctx.ghost.setdefault('log', []).append(('set_default_responders', method_map, asgi))

    def req(kind):
        return lambda I, self, mm: I.ctx.ghost.setdefault('log', []).append((kind, mm))

    reg.stubs[UTIL + ':map_http_methods'] = mhm
    reg.stubs[UTIL + ':set_default_responders'] = sdr
    reg.stubs[CR + '._require_coroutine_responders'] = req('require-coroutines')
    reg.stubs[CR + '._require_non_coroutine_responders'] = req('require-non-coroutines')


def route_wiring(v):
    """App.add_route -> router.add_route: the node's method map is map_http_methods(resource, suffix) completed by
    set_default_responders(..., asgi=<flavour of the app>)."""
    asgi = bool(v.choose(2, 'asgi-app?'))
    suffix = [None, 'items'][v.choose(2, 'suffix?')]
    kw = {} if suffix is None else {'suffix': suffix}
    if v.concrete:
        return _route_wiring_replay(v, asgi, suffix, kw)
    v.expect_covers('wired')
    RES = Tok('resource')
    ON_GET = Tok('on_get')
    MM = {'GET': ON_GET}
    v.ctx.ghost['method_map'] = MM
    router = v.obj(CR, _roots=[], _find=None, _converter_map={})
    app = app_obj(v, asgi, _router=router)
    out = v.call(app, '/things', RES, target=(AAPP if asgi else APP) + '.add_route', **kw)
    v.check('no-exception', out.exc is None)
    if out.exc is not None:
        return
    log = v.ctx.ghost.get('log', [])
    v.check('method-map-is-built-from-the-resource-and-the-route-suffix',
            len(log) >= 1 and log[0][0] == 'map_http_methods' and log[0][1] is RES and log[0][2] == suffix
            and sum(1 for e in log if e[0] == 'map_http_methods') == 1)
    v.check('defaults-are-filled-in-the-flavour-of-the-app',
            len(log) >= 2 and log[1][0] == 'set_default_responders' and log[1][1] is MM and log[1][2] is asgi
            and sum(1 for e in log if e[0] == 'set_default_responders') == 1)
    v.check('responder-flavour-is-validated', len(log) == 3 and log[2][0] == ('require-coroutines' if asgi else 'require-non-coroutines') and log[2][1] is MM)
    roots = v.get(router, '_roots')
    node = roots[0] if len(roots) == 1 else None
    v.check('route-node-carries-that-method-map-and-resource',
            node is not None and v.get(node, 'method_map') is MM and v.get(node, 'resource') is RES and v.get(node, 'uri_template') == '/things')
    # frame: the map is filled by those two functions and by nothing else on the way into the routing tree
    # (both are stubbed here as not touching it, so it must arrive exactly as map_http_methods returned it)
    v.check('wiring-itself-adds-and-removes-no-responder', list(MM.items()) == [('GET', ON_GET)])
    v.cover('wired')


def _route_wiring_replay(v, asgi, suffix, kw):
    """Replay on the real classes: the same clauses, observed through the router's find()."""
    import inspect

    class SyncThing:
        def on_get(self, req, resp):
            pass

        def on_get_items(self, req, resp):
            pass

    class AsyncThing:
        async def on_get(self, req, resp):
            pass

        async def on_get_items(self, req, resp):
            pass

    clauses = ['no-exception', 'method-map-is-built-from-the-resource-and-the-route-suffix', 'defaults-are-filled-in-the-flavour-of-the-app',
               'responder-flavour-is-validated', 'route-node-carries-that-method-map-and-resource', 'wiring-itself-adds-and-removes-no-responder']
    res = AsyncThing() if asgi else SyncThing()
    app = v.real(AAPP if asgi else APP)()
    out = v.call(app, '/things', res, target=(AAPP if asgi else APP) + '.add_route', **kw)
    found = app._router.find('/things') if out.exc is None else None
    if found is None:
        for c in clauses:
            v.check(c, False)
        return
    resource, mm, params, tmpl = found
    v.check('no-exception', True)
    v.check('method-map-is-built-from-the-resource-and-the-route-suffix', mm.get('GET') == (res.on_get_items if suffix else res.on_get))
    v.check('defaults-are-filled-in-the-flavour-of-the-app', 'POST' in mm and inspect.iscoroutinefunction(mm['POST']) == asgi)
    v.check('route-node-carries-that-method-map-and-resource', resource is res and tmpl == '/things')
    mine = (res.on_get, res.on_get_items)
    v.check('wiring-itself-adds-and-removes-no-responder', all((r in mine) == (m == 'GET') for m, r in mm.items()))


for _a in (0, 1):
    harness(PROP, (AAPP if _a else APP) + '.add_route', name='route_wiring[asgi=%d]' % _a, setup=_wiring_setup, fix={'asgi-app?': _a},
            inline=[APP + '.add_route', 'falcon.routing.compiled:*'])(route_wiring)


REPRESENTATIVES = ['GET', 'HEAD', 'POST', 'PUT', 'DELETE', 'PATCH', 'OPTIONS', 'WEBSOCKET', 'VERSION-CONTROL', 'CHECKIN']


def parse_allow(h):
    return [] if h == '' else h.split(', ')


def default_responders(v):
    v.expect_covers('default-options', '405', 'user-options-kept')
    constants = v.real('falcon.constants')
    ALL = list(constants.COMBINED_METHODS)
    META = set(constants._META_METHODS)
    asgi = bool(v.choose(2, 'asgi?'))
    rest = v.choose(2, 'all-other-methods-implemented?')
    if rest:
        v.expect_covers('nothing-missing')  # every method implemented: no 405 responder is needed at all
    K = []
    for m in reversed(ALL):  # insertion order deliberately not sorted
        if m in REPRESENTATIVES:
            if v.choose(2, 'implements-%s?' % m):
                K.append(m)
        elif rest:
            K.append(m)
    user = {m: Responder('user:' + m) for m in K}
    mm = dict(user)
    out = v.call(mm, asgi=asgi) if asgi else (v.call(mm) if v.choose(2, 'asgi-omitted?') else v.call(mm, False))
    v.check('no-exception', out.exc is None and out.value is None)
    if out.exc is not None:
        return
    implemented = sorted(set(K) - META)
    v.check('domain-is-all-methods-plus-given-keys', set(mm) == set(ALL) | set(K))
    v.check('implemented-responders-untouched', all(mm.get(m) is user[m] for m in K))
    # --- OPTIONS
    opt = mm.get('OPTIONS')
    if 'OPTIONS' in K:
        v.check('user-options-responder-kept', opt is user['OPTIONS'])
        v.cover('user-options-kept')
    else:
        v.check('default-options-flavour-follows-asgi-flag', opt is not None and is_coroutine_function(v, opt) == asgi)
        resp = Resp()
        o = invoke(v, opt, Tok('req'), resp) if opt is not None else None
        ok = o is not None and o.exc is None
        hdrs = {n.lower(): x for k, n, x in resp.writes if k == 'header'}
        attrs = [(n, x) for k, n, x in resp.writes if k == 'attr']
        v.check('default-options-answers-200', ok and attrs == [('status', '200 OK')])
        got = parse_allow(hdrs.get('allow', '?'))
        v.check('default-options-allow-lists-exactly-the-implemented-methods', ok and set(got) == set(implemented) and len(got) == len(set(got)))
        v.check('default-options-allow-excludes-meta-methods', not (set(got) & META))
        v.cover('default-options')
    # --- 405 for everything not implemented
    missing = [m for m in ALL if m not in K and m != 'OPTIONS']
    nas = [mm.get(m) for m in missing]
    v.check('unimplemented-methods-share-one-405-responder', all(r is not None and r is nas[0] for r in nas))
    if not missing:
        v.cover('nothing-missing')
    if missing and nas[0] is not None:
        na = nas[0]
        v.check('405-responder-flavour-follows-asgi-flag', is_coroutine_function(v, na) == asgi)
        v.check('405-responder-is-none-of-the-implemented-ones', all(na is not r for r in user.values()) and na is not opt)
        o = invoke(v, na, Tok('req'), Resp())
        HTTPMethodNotAllowed = v.real('falcon.errors:HTTPMethodNotAllowed')
        raised = o.exc is not None and o.exc.isa(HTTPMethodNotAllowed) and o.exc.real is not None
        v.check('unimplemented-method-raises-405', raised)
        if raised:
            got = parse_allow(o.exc.real.headers.get('Allow', '?'))
            v.check('405-allow-lists-exactly-implemented-plus-options', set(got) == set(implemented) | {'OPTIONS'} and len(got) == len(set(got)))
            v.check('405-allow-excludes-meta-methods', not (set(got) & META))
            v.cover('405')


def _allow_of(v, responder):
    """What a default responder says about Allow when it is run now: ('405', sorted methods) / ('200', sorted methods) / None."""
    resp = Resp()
    o = invoke(v, responder, Tok('req'), resp)
    if o.exc is not None:
        if o.exc.isa(v.real('falcon.errors:HTTPMethodNotAllowed')) and o.exc.real is not None:
            return ('405', sorted(parse_allow(o.exc.real.headers.get('Allow', '?'))))
        return None
    hdrs = {n.lower(): x for k, n, x in resp.writes if k == 'header'}
    return ('200', sorted(parse_allow(hdrs.get('allow', '?'))))


def default_responders_two_routes(v):
    """Two routes, two method maps: the defaults filled into one map speak of that map's methods only -- completing a second
    map (another resource) neither reuses nor disturbs the 405 / OPTIONS responders of the first."""
    v.expect_covers('two-maps-completed')
    asgi = bool(v.choose(2, 'asgi?'))
    A = [['GET'], ['GET', 'POST'], []][v.choose(3, 'first-resource')]
    B = [['DELETE', 'PUT'], ['GET'], ['PATCH', 'OPTIONS']][v.choose(3, 'second-resource')]
    ua = {m: Responder('a:' + m) for m in A}
    ub = {m: Responder('b:' + m) for m in B}
    ma, mb = dict(ua), dict(ub)
    o1 = v.call(ma, asgi=asgi)
    v.check('no-exception', o1.exc is None)
    if o1.exc is not None:
        return
    first = dict(ma)  # the first route's table as completed
    o2 = v.call(mb, asgi=asgi)
    v.check('no-exception', o2.exc is None)
    if o2.exc is not None:
        return
    v.check('completing-another-map-leaves-this-one-alone', set(ma) == set(first) and all(ma[m] is first[m] for m in first))
    defaults_a = [r for m, r in ma.items() if m not in ua]
    defaults_b = [r for m, r in mb.items() if m not in ub]
    v.check('maps-do-not-share-default-responders', all(x is not y for x in defaults_a for y in defaults_b))
    v.check('user-responders-stay-in-their-own-map', all(ma[m] is ua[m] for m in A) and all(mb[m] is ub[m] for m in B)
            and all(r is not u for r in defaults_a for u in ub.values()))
    na_a, na_b = ma['TRACE'], mb['TRACE']
    v.check('405-of-each-route-lists-its-own-methods', _allow_of(v, na_a) == ('405', sorted(set(A) | {'OPTIONS'}))
            and _allow_of(v, na_b) == ('405', sorted(set(B) | {'OPTIONS'})))
    v.check('options-of-each-route-lists-its-own-methods', _allow_of(v, ma['OPTIONS']) == ('200', sorted(A))
            and ('OPTIONS' in B or _allow_of(v, mb['OPTIONS']) == ('200', sorted(B))))
    v.cover('two-maps-completed')


harness(PROP, UTIL + ':set_default_responders', name='set_default_responders[two routes]',
        inline=[RESPONDERS('create_default_options'), RESPONDERS('create_method_not_allowed')])(default_responders_two_routes)


for _a in (0, 1):
    for _r in (0, 1):
        harness(PROP, UTIL + ':set_default_responders', name='set_default_responders[asgi=%d,rest=%d]' % (_a, _r),
                inline=[RESPONDERS('create_default_options'), RESPONDERS('create_method_not_allowed')],
                fix={'asgi?': _a, 'all-other-methods-implemented?': _r})(default_responders)


# ---------------------------------------------------------------------------
# the meta-method guard at the top of both __call__: an HTTP request whose method is a meta method
# (WEBSOCKET) is answered 400 before routing, so HTTP traffic can never reach an on_websocket responder.
# The run is stopped (by an exception that is no Exception) at the first of: routing / error handling.


class StopHere(BaseException):
    pass


@stubclass
class Factory:
    def __init__(self, product):
        self.product = product
        self.calls = 0

    def __call__(self, *a, **k):
        self.calls += 1
        return self.product


@stubclass
class GuardReq:
    def __init__(self, v):
        self.method = v.str('method')
        self.is_websocket = False
        self.path = v.str('path')


@stubclass
class GuardResp:
    complete = False


def _guard_setup(reg, ex):
    from pyvc.core import ExcVal, PyRaise
    from pyvc.harness import Ready

    def stop(I, where, **info):
        I.ctx.ghost['stopped'] = dict(info, where=where)
        raise PyRaise(ExcVal(StopHere, (where,)))

    reg.stubs[APP + '._get_responder'] = lambda I, self, req: stop(I, 'routing')
    for a in (APP, AAPP):
        reg.stubs[a + '._handle_exception'] = lambda I, self, req, resp, ex, params: stop(I, 'error-handling', ex=ex)
    reg.stubs['falcon.asgi._asgi_helpers:_validate_asgi_scope'] = lambda I, scope_type, spec_version, http_version: '2.1'


def meta_guard(v):
    from pyvc.harness import Ready

    v.expect_covers('routed', 'rejected')
    asgi = v.choose(2, 'asgi-app?')
    if v.concrete:
        return _meta_guard_replay(v, asgi)
    req = GuardReq(v)
    # both middleware modes (the guard precedes the mode switch; the stacks are empty: what middleware does is C03)
    app = app_obj(v, asgi, _request_type=Factory(req), _response_type=Factory(GuardResp()), req_options=Tok('req_options'), resp_options=Tok('resp_options'),
                  _middleware=((), (), ()), _independent_middleware=bool(v.choose(2, 'independent_middleware')))
    if asgi:
        scope = {'type': 'http', 'asgi': {'version': '3.0', 'spec_version': '2.1'}, 'http_version': '1.1'}
        receive = Factory(Ready({'type': 'http.request'}))
        out = v.call(app, scope, receive, Tok('send'), target=AAPP + '.__call__')
    else:
        out = v.call(app, {'REQUEST_METHOD': 'x'}, Tok('start_response'), target=APP + '.__call__')
    st = v.ctx.ghost.get('stopped')
    v.check('stops-at-routing-or-error-handling', out.exc is not None and out.exc.isa(StopHere) and st is not None)
    if st is None:
        return
    META = v.real('falcon.constants')._META_METHODS
    is_meta = Or(*[req.method == m for m in META])
    HTTPBadRequest = v.real('falcon.errors:HTTPBadRequest')
    if st['where'] == 'routing':
        v.check('meta-method-requests-never-reach-routing', Not(is_meta))
        v.cover('routed')
    else:
        v.check('only-meta-methods-are-rejected-before-routing', is_meta)
        v.check('meta-method-request-is-a-400', st['ex'].isa(HTTPBadRequest))
        v.cover('rejected')


def _meta_guard_replay(v, asgi):
    """Replay through the test client: a meta-method HTTP request to a resource that has on_websocket."""
    method = v.str('method')
    META = v.real('falcon.constants')._META_METHODS
    if method not in META:
        return
    testing = v.real('falcon.testing')
    hits = []
    if asgi:
        class Thing:
            async def on_websocket(self, req, ws):
                hits.append(req.method)
    else:
        class Thing:
            def on_websocket(self, req, ws):
                hits.append(req.method)
    app = v.real(AAPP if asgi else APP)()
    app.add_route('/thing', Thing())
    if asgi:
        status = testing.TestClient(app).simulate_request(method, '/thing').status_code
    else:
        srmock = testing.StartResponseMock()  # (the WSGI test client's validator refuses unknown methods)
        list(app(testing.create_environ(method=method, path='/thing'), srmock))
        status = int(srmock.status.split(' ')[0])
    v.check('meta-method-requests-never-reach-routing', not hits)
    v.check('meta-method-request-is-a-400', status == 400)


for _a in (0, 1):
    harness(PROP, (AAPP if _a else APP) + '.__call__', name='meta_guard[asgi=%d]' % _a, setup=_guard_setup, fix={'asgi-app?': _a})(meta_guard)


# ---------------------------------------------------------------------------
# StaticRoute.match: the matcher of a static entry


@harness(PROP, 'falcon.routing.static:StaticRoute.match')
def static_match(v):
    prefix = v.str('prefix')
    # normal form established by StaticRoute.__init__: starts and ends with '/'
    v.assume(And(prefix.startswith('/'), prefix.endswith('/')))
    fb = v.str('fallback') if v.choose(2, 'fallback?') else None
    path = v.str('path')
    sr = v.obj('falcon.routing.static:StaticRoute', _prefix=prefix, _fallback_filename=fb)
    v.expect_covers('decided', 'decided-with-fallback-file', 'decided-without-fallback-file')
    sr0 = snapshot(sr)
    out = v.call(sr, path)
    v.check('no-exception', out.exc is None)
    if out.exc is not None:
        return
    bare = prefix[: Len(prefix) - 1]  # the prefix without its trailing slash
    want = path.startswith(prefix) if fb is None else Or(path.startswith(prefix), path == bare)
    v.check('matches-iff-path-under-prefix', Iff(out.value, want))
    v.check('pure-predicate', And(v.get(sr, '_prefix') is prefix, v.get(sr, '_fallback_filename') is fb))
    # (the scan of _get_responder asks the same matcher for every request: no memo of the last path / answer either)
    v.check('match-writes-no-state-at-all', same_fields(snapshot(sr), sr0))
    v.cover('decided')
    v.cover('decided-with-fallback-file' if fb is not None else 'decided-without-fallback-file')


KILLS = [
    # the scan no longer stops at the first (most recent) match
    ('falcon/app.py', '                    responder = obj\n\n                    break\n', '                    responder = obj\n', '_get_responder#fallback-is-first-matching-entry'),
    # sinks / static routes consulted although a route matched
    ('falcon/app.py', "        if resource is not None:\n            try:\n                responder = method_map[method]",
     "        if resource is not None and not self._sink_and_static_routes:\n            try:\n                responder = method_map[method]",
     '_get_responder#route-masks-sinks-and-static-routes'),
    # a static route gets the sink treatment
    ('falcon/app.py', '                    if is_sink:\n                        params = m.groupdict()', '                    if True:\n                        params = m.groupdict()',
     '_get_responder#no-exception'),  # and #groupdict-only-asked-of-a-sink-match in the arbitrary-length harness
    # WEBSOCKET handshakes dispatched by the HTTP method
    ('falcon/app.py', "        method = 'WEBSOCKET' if req.is_websocket else req.method\n", '        method = req.method\n', '_get_responder#route-lookup-is-by-request-method-or-WEBSOCKET'),
    # 404 and 400 defaults swapped
    ('falcon/app.py', '                responder = self.__class__._default_responder_path_not_found\n', '                responder = self.__class__._default_responder_bad_request\n',
     '_get_responder#no-match-yields-404-default'),
    # LIFO broken: a new sink goes to the end of the table
    ('falcon/app.py', '        self._sinks.insert(0, (prefix, sink, True))\n', '        self._sinks.append((prefix, sink, True))\n', 'add_sink#sinks-table-newest-first'),
    ('falcon/app.py', '        self._static_routes.insert(0, (sr, sr, False))\n', '        self._static_routes.append((sr, sr, False))\n',
     'add_static_route#static-table-newest-first'),
    # configured order ignored: statics before sinks although sink_before_static_route
    ('falcon/app.py', '        if self._sink_before_static_route:\n            self._sink_and_static_routes = tuple(self._sinks + self._static_routes)',
     '        if self._sink_before_static_route:\n            self._sink_and_static_routes = tuple(self._static_routes + self._sinks)',
     '#combined-table-is-sinks-and-statics-in-configured-order'),
    # the combined table is not rebuilt after a sink was added
    ('falcon/app.py', '        self._sinks.insert(0, (prefix, sink, True))\n        self._update_sink_and_static_routes()\n', '        self._sinks.insert(0, (prefix, sink, True))\n',
     'add_sink#combined-table-is-sinks-and-statics-in-configured-order'),
    # the ASGI override forgets the prefix
    ('falcon/asgi/app.py', '        super().add_sink(sink, prefix=prefix)', '        super().add_sink(sink)', 'add_sink#new-sink-entry-is-pattern-sink-true'),
    # OPTIONS omitted from the Allow header of the 405
    ('falcon/routing/util.py', "        allowed_methods.append('OPTIONS')\n", '        pass\n', 'set_default_responders#405-allow-lists-exactly-implemented-plus-options'),
    # meta methods (WEBSOCKET) leak into Allow
    ('falcon/routing/util.py', 'm for m in sorted(list(method_map.keys())) if m not in constants._META_METHODS', 'm for m in sorted(list(method_map.keys()))',
     'set_default_responders#default-options-allow-lists-exactly-the-implemented-methods'),
    # the user's OPTIONS responder is replaced by the default one
    ('falcon/routing/util.py', "    if 'OPTIONS' not in method_map:\n", '    if True:\n', 'set_default_responders#implemented-responders-untouched'),
    # the responder suffix is dropped from the attribute name
    ('falcon/routing/util.py', "                responder_name += '_' + suffix\n", '                pass\n', 'map_http_methods#suffixed-route-reaches-only-suffixed-responders'),
    # the router ignores the route's suffix / the ASGI app asks for WSGI-flavoured defaults
    ('falcon/routing/compiled.py', "        return map_http_methods(resource, suffix=kwargs.get('suffix', None))", '        return map_http_methods(resource)',
     'add_route#method-map-is-built-from-the-resource-and-the-route-suffix'),
    ('falcon/asgi/app.py', "        kwargs['_asgi'] = True\n", "        kwargs['_asgi'] = False\n", 'add_route#defaults-are-filled-in-the-flavour-of-the-app'),
    # HTTP requests with the meta method WEBSOCKET are routed (would reach on_websocket responders)
    ('falcon/asgi/app.py', '            if req.method in self._META_METHODS:\n', '            if False:\n', '__call__#meta-method-requests-never-reach-routing'),
    ('falcon/app.py', '            if req.method in self._META_METHODS:\n                raise HTTPBadRequest()\n',
     '            if req.method in self._META_METHODS:\n                raise HTTPRouteNotFound()\n', '__call__#meta-method-request-is-a-400'),
    # the guard is applied in the default (independent) middleware mode only -- needs independent_middleware=False, which used to be fixed
    ('falcon/app.py', '            if req.method in self._META_METHODS:\n                raise HTTPBadRequest()\n',
     '            if self._independent_middleware and req.method in self._META_METHODS:\n                raise HTTPBadRequest()\n', '__call__#meta-method-requests-never-reach-routing'),
    # add_static_route drops the fallback file name on the way to the route object -- needs fallback_filename given, which used to be omitted always
    ('falcon/app.py', '            downloadable=downloadable,\n            fallback_filename=fallback_filename,\n', '            downloadable=downloadable,\n',
     'add_static_route#new-static-entry-is-route-route-false'),
    # non-callable attributes are mapped
    ('falcon/routing/util.py', '            if callable(responder):\n', '            if True:\n', 'map_http_methods#maps-exactly-the-existing-callable-responders'),
    # default OPTIONS responder writes the wrong header / a different separator
    ('falcon/responders.py', "    def options_responder(req: Request, resp: Response, **kwargs: Any) -> None:\n        resp.status = HTTP_200\n        resp.set_header('Allow', allowed)",
     "    def options_responder(req: Request, resp: Response, **kwargs: Any) -> None:\n        resp.status = HTTP_200\n        resp.set_header('Accept', allowed)",
     'create_default_options#options-sets-allow-and-content-length-only'),
    ('falcon/errors.py', "        headers['Allow'] = ', '.join(allowed_methods)\n", "        headers['Allow'] = ','.join(allowed_methods)\n",
     'HTTPMethodNotAllowed.__init__#allow-header-is-the-joined-list'),
    # a static route with a fallback file no longer answers for its bare prefix
    ('falcon/routing/static.py', "        return path.startswith(self._prefix) or path == self._prefix[:-1]\n", "        return path.startswith(self._prefix) or path == self._prefix\n",
     'StaticRoute.match#matches-iff-path-under-prefix'),
    # --- frames of the lookup (audit: a post-condition silent about state lets a change that corrupts it verify)
    # the 400 default is memoised into the route's own method map (later OPTIONS/405 bookkeeping sees a phantom method)
    ('falcon/app.py', '                responder = self.__class__._default_responder_bad_request\n',
     '                responder = self.__class__._default_responder_bad_request\n                method_map[method] = responder\n',
     '_get_responder#lookup-leaves-the-route-method-map-unchanged'),
    # "adaptive" scan: the entry that matched is promoted to the front of the combined table (the table is rewritten by a lookup)
    ('falcon/app.py', '                    responder = obj\n\n                    break\n',
     '                    responder = obj\n                    self._sink_and_static_routes = ((matcher, obj, is_sink),) + self._sink_and_static_routes\n\n                    break\n',
     '_get_responder#lookup-leaves-the-app-unchanged'),
    # the dispatch key is written back into the request (middleware and responders then see method WEBSOCKET)
    ('falcon/app.py', "        method = 'WEBSOCKET' if req.is_websocket else req.method\n", "        method = req.method = 'WEBSOCKET' if req.is_websocket else req.method\n",
     '_get_responder#lookup-leaves-the-request-unchanged'),
    # the router's field dict is edited on the way to the responder
    ('falcon/app.py', '                resource, method_map, params, uri_template = route\n',
     "                resource, method_map, params, uri_template = route\n                if params is not None:\n                    params['uri_template'] = uri_template\n",
     '_get_responder#route-params-are-handed-over-unmodified'),
    # one empty params dict shared by all requests that matched no route ("avoid an allocation per request")
    ('falcon/app.py', '            params = {}\n\n            for matcher, obj, is_sink in self._sink_and_static_routes:',
     "            params = responders.__dict__.setdefault('_NO_PARAMS', {})\n\n            for matcher, obj, is_sink in self._sink_and_static_routes:",
     '_get_responder#no-route-params-are-a-fresh-dict-per-lookup'),
    # --- frames of a registration step
    # registering a static route flips the configured order for everything registered afterwards
    ('falcon/app.py', '        self._static_routes.insert(0, (sr, sr, False))\n        self._update_sink_and_static_routes()\n',
     '        self._static_routes.insert(0, (sr, sr, False))\n        self._update_sink_and_static_routes()\n        self._sink_before_static_route = False\n',
     'add_static_route#configured-order-is-not-changed-by-a-registration'),
    # registering a sink writes app state that is none of the three tables (here: drops the error handler registry)
    ('falcon/app.py', '        self._sinks.insert(0, (prefix, sink, True))\n        self._update_sink_and_static_routes()\n',
     '        self._sinks.insert(0, (prefix, sink, True))\n        self._update_sink_and_static_routes()\n        self._error_handlers = {}\n',
     'add_sink#registration-writes-nothing-but-the-three-tables'),
    # one sink table for every app of the process (a shared "empty" default)
    ('falcon/app.py', '        self._sinks = []\n', "        self._sinks = constants.__dict__.setdefault('_NO_SINKS', [])\n", '__init__#tables-are-not-shared-between-apps'),
    # --- frames of the default responders
    # "a 405 should always mention OPTIONS": the factory appends to the caller's list
    ('falcon/responders.py', '    if asgi:\n\n        async def method_not_allowed_responder_async(',
     "    if 'OPTIONS' not in allowed_methods:\n        allowed_methods.append('OPTIONS')\n\n    if asgi:\n\n        async def method_not_allowed_responder_async(",
     'create_method_not_allowed#given-method-list-is-not-modified'),
    # the OPTIONS factory puts the caller's list "most recently implemented first" in place before joining it
    ('falcon/responders.py', "    allowed = ', '.join(allowed_methods)\n", "    allowed_methods.reverse()\n    allowed = ', '.join(allowed_methods)\n",
     'create_default_options#given-method-list-is-not-modified'),
    # one headers dict for every error raised without explicit headers (mutable default argument)
    ('falcon/errors.py', 'def _load_headers(headers: Optional[HeaderArg]) -> Headers:\n    """Transform the headers to dict."""\n    if headers is None:\n        return {}\n',
     'def _load_headers(headers: Optional[HeaderArg], _none: Headers = {}) -> Headers:\n    """Transform the headers to dict."""\n    if headers is None:\n        return _none\n',
     'HTTPMethodNotAllowed.__init__#each-405-has-its-own-headers'),
    # --- frames of the method-map construction
    # one method map per process ("reuse the dict"): every route completes and keeps the same table
    ('falcon/routing/util.py', '    method_map = {}\n', "    method_map = constants.__dict__.setdefault('_METHOD_MAP', {})\n", 'map_http_methods#each-call-returns-a-new-map'),
    # the map is memoised on the resource ("for introspection")
    ('falcon/routing/util.py', '    return method_map\n\n\ndef set_default_responders', "    resource.__dict__['_falcon_methods_' + (suffix or '')] = method_map\n    return method_map\n\n\ndef set_default_responders",
     'map_http_methods#resource-is-not-modified'),
    # the router lets HEAD fall back to the GET responder before the defaults are filled in (405/Allow no longer exact)
    ('falcon/routing/compiled.py', '        set_default_responders(method_map, asgi=asgi)\n',
     "        if 'GET' in method_map:\n            method_map.setdefault('HEAD', method_map['GET'])\n        set_default_responders(method_map, asgi=asgi)\n",
     'add_route#wiring-itself-adds-and-removes-no-responder'),
    # the 405 responder is created once per flavour and reused for every route (every route answers with the first route's Allow)
    ('falcon/responders.py', '        raise HTTPMethodNotAllowed(allowed_methods)\n\n    return method_not_allowed\n',
     "        raise HTTPMethodNotAllowed(allowed_methods)\n\n    return create_method_not_allowed.__dict__.setdefault('wsgi', method_not_allowed)\n",
     'set_default_responders#maps-do-not-share-default-responders'),
    # the static matcher remembers the last path it was asked about
    ('falcon/routing/static.py', '        """Check whether the given path matches this route."""\n', '        """Check whether the given path matches this route."""\n        self._last_path = path\n',
     'StaticRoute.match#match-writes-no-state-at-all'),
]
HARMLESS = [
    # rename a local of the scan
    ('falcon/app.py', '                m = matcher.match(path)\n                if m:\n                    if is_sink:\n                        params = m.groupdict()',
     '                found = matcher.match(path)\n                if found:\n                    if is_sink:\n                        params = found.groupdict()'),
    # the two branches of the rebuild written the other way round
    ('falcon/app.py', '        if self._sink_before_static_route:\n            self._sink_and_static_routes = tuple(self._sinks + self._static_routes)  # type: ignore[operator]\n        else:\n            self._sink_and_static_routes = tuple(self._static_routes + self._sinks)  # type: ignore[operator]\n',
     '        if not self._sink_before_static_route:\n            self._sink_and_static_routes = tuple(self._static_routes + self._sinks)\n        else:\n            self._sink_and_static_routes = tuple(self._sinks + self._static_routes)\n'),
    # rename locals of the fill loop
    ('falcon/routing/util.py', '    na_responder = responders.create_method_not_allowed(allowed_methods, asgi=asgi)\n\n    for method in constants.COMBINED_METHODS:\n        if method not in method_map:\n            method_map[method] = na_responder',
     '    na = responders.create_method_not_allowed(allowed_methods, asgi=asgi)\n\n    for http_method in constants.COMBINED_METHODS:\n        if http_method not in method_map:\n            method_map[http_method] = na'),
]

ASSUMPTIONS = [
    'matcher.match(path) (a sink\'s compiled pattern, StaticRoute.match) is a pure predicate of the path: its result for one path does not depend on '
    'when or how often it is asked (stub Matcher / function symbol entry_matches_path); a successful sink match is truthy and has groupdict()',
    'the router\'s find() is opaque: it returns None, a (None, None, None[, None]) legacy "not found" tuple, or (resource, method_map, params[, uri_template]) '
    'with a non-None resource; method_map is an arbitrary mapping (the looked-up key is bound or raises KeyError)',
    'a route registered with resource=None is treated by falcon as "no route" (documented legacy-router normalisation); the masking clause is stated for routes with a resource',
    'induction over the registration history is done on paper: base case app_init, step add_sink / add_static_route over arbitrary tables; only these functions and '
    '_update_sink_and_static_routes assign the three table fields (checked by text search, see the frame note in NOT_DECIDED)',
    'App.__init__: add_middleware, add_error_handler, router and option constructors are stubbed as no-ops on the tables',
    'a request method outside COMBINED_METHODS (and not implemented by the resource) on a matched route gets the bad-request default (400, "Invalid HTTP method"), '
    'as documented in _get_responder; the 405 sentence of the property is read for the methods falcon supports (COMBINED_METHODS), see set_default_responders',
    'inputs left at one value: add_static_route is given the concrete prefix "/static/" and an existing directory (both only travel to the StaticRoute constructor, '
    'which is stubbed as "records its arguments"; C16 proves the constructor); route_wiring registers the concrete template "/things" without the compile flag '
    '(tree insertion and compilation: C01); meta_guard uses a fresh response (complete False) and empty middleware stacks (C03); App.__init__ is run with the '
    'sink_before_static_route and cors_enable arguments only (no other argument reaches the tables)',
    'asgi.App.add_sink: inspect.iscoroutinefunction / falcon.util.is_python_func are opaque predicates of the sink, _should_wrap_non_coroutines an opaque flag, '
    'wrap_sync_to_async(f) returns a wrapper identified by f',
]
NOT_DECIDED = [
    'map_http_methods: NOT every one of the 3^23 attribute configurations -- each single method of COMBINED_METHODS under every combination of '
    '{absent, callable, not callable} x {plain, suffixed} attribute, crossed with 4 uniform backgrounds for the other 22 methods and 3 suffix values (3312 concrete cases)',
    'set_default_responders: NOT every one of the 2^23 key sets -- every subset of the 10 representatives '
    '(GET HEAD POST PUT DELETE PATCH OPTIONS WEBSOCKET VERSION-CONTROL CHECKIN) x {all, none} of the other 13 methods x {wsgi, asgi} (4096 concrete cases); '
    'the code treats methods uniformly except OPTIONS and the meta methods, which are among the representatives',
    'get_responder[n=..]: lengths 0..3 unrolled; the general n is get_responder_any_length (loop invariant), whose counter-models are not replayable '
    '(the table is a function symbol) -- the bounded harnesses supply the replay',
    'the call sites `responder(req, resp, **params)` in App.__call__ / asgi.App.__call__ / _handle_websocket (params reach the responder as keyword arguments, '
    'possibly edited by process_resource middleware) belong to the stack-discipline contracts of C03; here only the prefix of __call__ up to routing is executed',
    'frame: that no other method of App writes _sinks / _static_routes / _sink_and_static_routes is a text-search fact (grep), not an obligation',
    'CompiledRouter.find / the tree insertion after the method map is built: C01',
    'FALCON_CUSTOM_HTTP_METHODS: COMBINED_METHODS is whatever the import of falcon.constants produced in the checking process (no custom methods)',
]
TRUSTED = [
    'stubs Req, RouterSearch, MethodMap, Matcher/MatchObj, Table/IMatcher/IMatch (index-function view of the combined table), GList/World '
    '(python list of arbitrary length as z3 Seq of entry identities; insert/append/+/tuple), Sink/Wrapped, Resp, Factory, GuardReq/GuardResp in contracts/C02_dispatch.py',
    'model overrides installed by this file: tuple(GList) -> frozen GList; inspect.iscoroutinefunction(Sink) -> its flag',
    'HTTPMethodNotAllowed / HTTPRouteNotFound / HTTPBadRequest raised with concrete arguments are constructed natively by the real class (Allow header read from the real exception)',
    'replay of route_wiring and meta_guard uses the real App, router and falcon.testing helpers',
]


# ---------------------------------------------------------------------------
# concrete registration histories (added after an independently seeded change went *unreached*: it iterated over
# the sink table, which the one-step contract above models as a sequence of symbolic length).  Here the tables
# are real python lists, so any code -- loops included -- runs; every history of up to 3 registrations over two
# overlapping prefixes and a static route is enumerated: "the most recently added matching sink ... wins" means the
# table lists the registrations newest first, each one present, re-registrations of a prefix included.


def _history_harness(v):
    import re

    asgi = bool(v.choose(2, 'asgi-app?'))
    target = AAPP if asgi else APP
    sbs = bool(v.choose(2, 'sink_before_static_route'))
    app = v.obj(target, _sinks=[], _static_routes=[], _sink_and_static_routes=(), _sink_before_static_route=sbs)
    if v.concrete:
        return
    v.expect_covers('history-checked')
    fields0 = set(snapshot(app))
    prefixes = ['/api', r'/api/v2/(?P<item>\w+)']
    ops = []
    n = 1 + v.choose(3, 'history-length')
    for i in range(n):
        ops.append(v.choose(3, 'op%d' % i))  # 0: sink under prefix 0, 1: sink under prefix 1, 2: a static route

    class _Sink:
        def __init__(self, tag):
            self.tag = tag

    @stubclass
    class _Static:
        def __init__(self, tag):
            self.tag = tag

    sinks_newest_first, statics_newest_first = [], []
    for i, op in enumerate(ops):
        if op < 2:
            s = _Sink('sink%d' % i)
            _reg_models(v, asgi)
            out = v.call(app, s, prefixes[op], target=target + '.add_sink')
            v.check('registration-accepted', out.exc is None, step=i)
            sinks_newest_first.insert(0, (prefixes[op], s))
        else:
            sr = _Static('static%d' % i)
            tbl = v.get(app, '_static_routes')
            tbl.insert(0, (sr, sr, False))
            statics_newest_first.insert(0, sr)
            v.call(app, target=APP + '._update_sink_and_static_routes')
    got_s = [(getattr(e[0], 'pattern', e[0]), e[1]) for e in v.get(app, '_sinks')]
    v.check('sink-table-lists-every-registration-newest-first', len(got_s) == len(sinks_newest_first)
            and all(g[0] == w[0] and g[1] is w[1] for g, w in zip(got_s, sinks_newest_first)), ops=ops)
    combined = list(v.get(app, '_sink_and_static_routes'))
    want = ([w[1] for w in sinks_newest_first] + statics_newest_first) if sbs else (statics_newest_first + [w[1] for w in sinks_newest_first])
    v.check('combined-table-follows-the-configured-order-newest-first', [e[1] for e in combined] == want, ops=ops)
    v.check('configured-order-is-not-changed-by-a-registration', v.get(app, '_sink_before_static_route') is sbs, ops=ops)
    v.check('registration-writes-nothing-but-the-three-tables', set(snapshot(app)) == fields0, ops=ops)
    v.cover('history-checked')


def _reg_models(v, asgi):
    import falcon.app as fa

    v.registry.add_model(fa.iscoroutinefunction, lambda I, fn: asgi)
    try:
        import falcon.asgi.app as faa

        v.registry.add_model(faa.iscoroutinefunction, lambda I, fn: asgi)
    except Exception:
        pass


for _a in (0, 1):
    harness(PROP, (AAPP if _a else APP) + '.add_sink', name='registration_histories[asgi=%d]' % _a, fix={'asgi-app?': _a},
            inline=[APP + '.add_sink', APP + '._update_sink_and_static_routes', AAPP + '.add_sink'])(_history_harness)
