"""C05 -- responses are protocol-valid and length-consistent on both server interfaces.

Subjects: the tails of falcon.app:App.__call__ (with App._get_body,
Response.render_body, Response._wsgi_headers executed from their source) and of
falcon.asgi.app:App.__call__ (all emission branches except SSE), plus
app_helpers.CloseableStreamIterator.  The request-processing half is made
trivial (empty middleware stacks, a responder that does nothing); the response
object is an *arbitrary* filled-in response: status, text / data / stream in any
combination, preset Content-Length / Content-Type.

WSGI spec: a monitor on start_response (exactly one call, before the body is
handed back).  ASGI spec: a session monitor over the events handed to `send`
(INIT -> STARTED -> DONE; body events only in STARTED; more_body true on all but
the last; nothing after DONE) with `send` allowed to fail at every event, and a
ghost close-counter on the response stream.
"""
from __future__ import annotations

import re

import z3

from pyvc.core import And, FnSeq, Iff, Implies, Ite, Len, Not, Or, SStr, mk_bool, mk_str, _s, is_sym
from pyvc.harness import Ready, harness, stubclass
from pyvc.interp import LoopSpec

PROP = 'C05'
WSGI = 'falcon.app:App'
ASGI = 'falcon.asgi.app:App'
WRESP = 'falcon.response:Response'
ARESP = 'falcon.asgi.response:Response'

UTF8 = z3.Function('utf8_encode', z3.StringSort(), z3.StringSort())

BODILESS = (100, 101, 204, 304)
TYPELESS = (204, 304)


class ServerLost(Exception):
    """The server's send callable failed (connection lost)."""


class StreamError(Exception):
    """The response stream raised while being read."""


def _codec(ctx, direction, s, enc, errors):
    # str.encode() (UTF-8): an uninterpreted total function from str to bytes
    if direction == 'encode':
        if s.kind == 'bytes':
            # resp.text holding a bytes object (tolerated by render_body): bytes have no encode()
            ctx.raise_py(AttributeError, "'bytes' object has no attribute 'encode'")
        return mk_str(UTF8(s.t), 'bytes')
    from pyvc.core import Unreached

    raise Unreached('decode in C05')


def _enc(text):
    if isinstance(text, bytes) or (isinstance(text, SStr) and text.kind == 'bytes'):
        return text  # resp.text = b'...' is sent as it is
    if isinstance(text, SStr):
        return mk_str(UTF8(text.t), 'bytes')
    return text.encode()


# --- the response as the application left it -------------------------------------------

WSGI_STATUSES = ['200 OK', '204 No Content', '204 Custom Reason', '304 Not Modified', '101 Switching Protocols', '100 Continue',
                 '404 Not Found', 200, 204, 304, 599, 'http.HTTPStatus.NO_CONTENT', 'http.HTTPStatus.OK']


def _status_code_of(st):
    import http

    if isinstance(st, http.HTTPStatus):
        return st.value
    return st if isinstance(st, int) else int(st[:3])


@stubclass
class ReadStream:
    """A file-like response stream (has read() and close())."""

    def __init__(self, v, asgi, has_close=True):
        self.v, self.asgi = v, asgi
        self.closes = 0
        self.reads = 0
        self.read_after_close = False
        if has_close:
            self.close = self._close

    def read(self, n=-1):
        v = self.v
        self.reads += 1
        if self.closes:
            self.read_after_close = True
        # outcomes of one read: end of stream, a chunk, failure; an async file-like may also hand back None ("no data yet": the ASGI tail sends b'')
        k = v.choose(4 if self.asgi else 3, 'stream-read')
        if k == 2:
            v.ctx.raise_py(StreamError, 'read failed')
        if k == 3:
            return Ready(None)
        data = b'' if k == 0 else v.bytes('chunk')
        if k == 1 and not v.concrete:
            v.assume(Len(data) > 0)
        return Ready(data) if self.asgi else data

    def _close(self):
        self.closes += 1
        return Ready(None) if self.asgi else None

    def __pyvc_truth__(self):
        return True


@stubclass
class IterStream:
    """An (async) iterable response stream without read(); optionally closeable."""

    def __init__(self, v, asgi, has_close):
        self.v, self.asgi = v, asgi
        self.closes = 0
        self.n = v.int('stream_len', 0)
        if has_close:
            self.close = self._close

    def _close(self):
        self.closes += 1
        return Ready(None) if self.asgi else None

    def __pyvc_seq__(self):
        v = self.v

        def item(i):
            k = v.choose(3, 'stream-item')
            if k == 2:
                v.ctx.raise_py(StreamError, 'iteration failed')
            return None if k == 1 else v.bytes('chunk')

        return FnSeq(self.n, item)

    def __pyvc_truth__(self):
        return True


def pick(v, label, n):
    """v.choose restricted to the alternatives a harness variant names in its `only` option (used to keep a value that the code reads at ONE
    place from being multiplied into dimensions it cannot interact with; every restriction is listed at the variant and in NOT_DECIDED)."""
    allowed = v.hdef.opts.get('only', {}).get(label)
    if allowed is None:
        return v.choose(n, label)
    return allowed[v.choose(len(allowed), label)]


def mk_resp(v, cls, asgi, statuses):
    st_i = v.choose(len(statuses), 'status')
    status = statuses[st_i]
    if isinstance(status, str) and status.startswith('http.HTTPStatus.'):
        import http

        status = getattr(http.HTTPStatus, status.rsplit('.', 1)[1])
    tk = v.choose(3, 'text?')  # 0: not set, 1: a str, 2: a bytes object (render_body passes it through)
    text = None if tk == 0 else (v.str('text') if tk == 1 else v.bytes('text_bytes'))
    data = v.bytes('data') if v.choose(2, 'data?') else None
    # 4: a file-like object without close() -- only the ASGI tail asks hasattr(stream, 'close') (WSGI: CloseableStreamIterator.close, own harness)
    sk = pick(v, 'stream-kind', 5 if asgi else 4)
    stream = None
    if sk == 1:
        stream = ReadStream(v, asgi)
    elif sk == 2:
        stream = IterStream(v, asgi, True)
    elif sk == 3:
        stream = IterStream(v, asgi, False)
    elif sk == 4:
        stream = ReadStream(v, asgi, False)
    headers = {}
    preset_cl = v.choose(2, 'preset-content-length?')
    if preset_cl:
        headers['content-length'] = v.str('preset_cl')
    preset_ct = v.choose(2, 'preset-content-type?')
    if preset_ct:
        headers['content-type'] = 'text/x-preset'
    # the app option default_media_type is an arbitrary (non-empty) media type, not falcon's DEFAULT_MEDIA_TYPE constant
    opts = _RespOpts()
    opts.default_media_type = v.str('default_media_type')
    v.assume(Len(opts.default_media_type) > 0)
    # media: an opaque document rendered by the handler the registry resolves (C11 / C12 contracts): the handler returns arbitrary bytes
    # 0: no media; 1: media assigned, not rendered yet; 2: media assigned and already rendered earlier in the request (a hook / middleware
    #    called render_body): the rendering cache holds the bytes
    has_media = pick(v, 'media?', 3)
    media, rendered, handlers = None, None, None
    if has_media:
        media = _MediaDoc()
        rendered = v.bytes('rendered_media')
        handlers = _Handlers(v, asgi, media, rendered)
        opts.media_handlers = handlers
    fields = dict(status=status, text=text, _data=data, _media=media,
                  _media_rendered=None if not has_media else (v.real('falcon.response:_UNSET') if has_media == 1 else rendered),
                  stream=stream, _headers=headers, _extra_headers=None,
                  _cookies=None, options=opts, complete=False, _sse=None, _registered_callbacks=None)
    resp = v.obj(cls, **fields)
    info = dict(status=status, text=text, data=data, stream=stream, preset_cl=preset_cl, preset_ct=preset_ct, stream_kind=sk, media=media,
                rendered=rendered, handlers=handlers, media_state=has_media, default_media_type=opts.default_media_type, options=opts)
    return resp, info


@stubclass
class _MediaDoc:
    def __pyvc_truth__(self):
        return True


@stubclass
class _Handlers:
    """Callee contract of Handlers._resolve (C11) and of a media handler's serialize (C12): any bytes; records what it was asked."""

    def __init__(self, v, asgi, media, rendered):
        self.v, self.asgi, self.media, self.rendered = v, asgi, media, rendered
        self.resolved = []
        self.serialized = []

    def _resolve(self, media_type, default, raise_not_found=True):
        v = self.v
        self.resolved.append((media_type, default))
        outer = self

        @stubclass
        class Handler:
            def serialize(self_, media, content_type=None):
                outer.serialized.append((media, content_type))
                return outer.rendered

            def serialize_async(self_, media, content_type=None):
                outer.serialized.append((media, content_type))
                return Ready(outer.rendered)

        @stubclass
        class Sync:
            def __call__(self_, media, content_type=None):
                outer.serialized.append((media, None))
                return outer.rendered

            def __pyvc_truth__(self_):
                return True

        use_sync = self.asgi and v.choose(2, 'serialize_sync?') == 1
        return (Handler(), Sync() if use_sync else None, None)


class _RespOpts:
    default_media_type = 'application/json'  # overwritten per instance in mk_resp (an arbitrary media type)
    media_handlers = None
    secure_cookies_by_default = True


@stubclass
class _Factory:
    def __init__(self, o):
        self.o = o

    def __call__(self, *a, **k):
        return self.o


@stubclass
class _Req:
    def __init__(self, method):
        self.method = method
        self.uri_template = None


@stubclass
class _Responder:
    def __init__(self, asgi):
        self.asgi = asgi

    def __call__(self, *a, **k):
        return Ready(None) if self.asgi else None


def mk_app(v, target, cls, asgi, statuses, method):
    resp, info = mk_resp(v, cls, asgi, statuses)
    req = _Req(method)
    responder = _Responder(asgi)

    @stubclass
    class GetResponder:
        def __call__(self_, rq):
            return (responder, {}, None, '/')

    @stubclass
    class HandleException:
        def __call__(self_, rq, rs, ex, params, **kw):
            # C04 contract: handled; the handler may rewrite the response, which is out of scope here -- end the path
            v.ctx.done()

    # a custom response class (a subclass that does not override render_body): the ASGI tail then awaits resp.render_body() instead of its inlined copy
    info['standard_response_type'] = (v.choose(2, 'custom-response-type?') == 0) if asgi else True
    # the response was created with options=app.resp_options: one options object
    app = v.obj(target, _request_type=_Factory(req), _response_type=_Factory(resp), req_options=None, resp_options=info['options'],
                _middleware=((), (), ()), _independent_middleware=True, _get_responder=GetResponder(), _handle_exception=HandleException(),
                _standard_response_type=info['standard_response_type'])
    return app, req, resp, info


def _ct_clauses(v, info, hd, media_type=None):
    """A Content-Type the framework supplies is the configured default media type; one the responder set is kept."""
    if info['preset_ct']:
        v.check('explicit-content-type-is-kept', hd.get('content-type') == 'text/x-preset')
    else:
        got = hd['content-type'] if 'content-type' in hd else media_type
        if got is not None:
            v.check('framework-supplied-content-type-is-the-configured-default-media-type', _same(got, info['default_media_type']))


def expected_body(info):
    """Documented precedence text > data > (media) > stream."""
    if info['text'] is not None:
        return _enc(info['text'])
    if info['data'] is not None:
        return info['data']
    return info['rendered'] if info.get('media') is not None else None


# --- WSGI ---------------------------------------------------------------------------------

W_INLINE = [WSGI + '._get_body', WRESP + '.render_body', WRESP + '._wsgi_headers', WRESP + '.status_code', 'falcon.app_helpers:CloseableStreamIterator.__init__']


def _wsgi_setup(reg, ex):
    ex.codec_handler = _codec


def wsgi_tail(v):
    method = v.one_of('method', 'GET', 'HEAD')
    app, req, resp, info = mk_app(v, WSGI, WRESP, False, WSGI_STATUSES, method)
    calls = []

    @stubclass
    class StartResponse:
        def __call__(self_, status, headers, exc_info=None):
            calls.append((status, list(headers)))
            return None

    wrapper = v.choose(2, 'wsgi.file_wrapper?')

    @stubclass
    class FileWrapper:
        def __call__(self_, stream, block):
            return ('file_wrapper', stream, block)

    env = {'wsgi.file_wrapper': FileWrapper()} if wrapper else {}
    out = v.call(app, env, StartResponse())
    v.check('no-exception', out.exc is None)
    if out.exc is not None:
        return
    body = out.value
    v.check('exactly-one-start-response', len(calls) == 1)
    if len(calls) != 1:
        return
    status_line, headers = calls[0]
    code = _status_code_of(info['status'])
    v.check('status-line-is-code-space-reason', isinstance(status_line, str) and re.fullmatch(r'\d{3} .+', status_line) is not None
            and int(status_line[:3]) == code)
    v.check('headers-are-native-string-pairs', all(isinstance(p, tuple) and len(p) == 2 and _is_str(p[0]) and _is_str(p[1]) for p in headers))
    hd = {k: val for k, val in headers}
    v.check('each-header-name-once', len(hd) == len(headers))
    exp = expected_body(info)
    bodiless = method == 'HEAD' or code in BODILESS
    if bodiless:
        v.check('head-and-1xx-204-304-carry-no-body-bytes', isinstance(body, list) and len(body) == 0)
    elif exp is not None:
        v.check('body-follows-precedence-text-data-media-stream', isinstance(body, list) and len(body) == 1 and _same(body[0], exp))
        v.check('content-length-equals-body-bytes', 'content-length' in hd and _same(hd['content-length'], _int_str(Len(exp))))
    elif info['stream'] is not None:
        st = info['stream']
        if info['stream_kind'] == 1:
            if wrapper:
                v.check('file-like-stream-goes-through-wsgi-file-wrapper', isinstance(body, tuple) and body[0] == 'file_wrapper' and body[1] is st)
            else:
                v.check('file-like-stream-wrapped-in-closeable-iterator', getattr(body, '_cls', type(body)).__name__ == 'CloseableStreamIterator'
                        and v.get(body, '_stream') is st)
        else:
            v.check('iterable-stream-handed-over-unchanged', body is st)
    else:
        v.check('empty-response-has-empty-body-and-zero-length', isinstance(body, list) and len(body) == 0 and hd.get('content-length') == '0')
    if code in TYPELESS:
        v.check(_typeless_clause(info), ('content-type' in hd) == bool(info['preset_ct']))
    else:
        v.check('every-other-response-has-a-content-type', 'content-type' in hd)
    _ct_clauses(v, info, hd)
    _media_clauses(v, info)
    v.cover('returned')


def _typeless_clause(info):
    # a 204 / 304 whose (unsent) body would be the media document rendered NOW is its own clause: a recorded finding there cannot hide any other case
    if info.get('media_state') == 1 and info['text'] is None and info['data'] is None and not info['preset_ct']:
        return '204-304-with-rendered-media-get-no-framework-content-type'
    return '204-304-get-no-framework-content-type'


def _media_clauses(v, info):
    """text > data > media: the document is serialized only when neither text nor data is set, then exactly once, by the handler
    resolved for the response's content type (the default media type when the responder set none)."""
    h = info.get('handlers')
    if h is None:
        return
    if info['text'] is not None or info['data'] is not None:
        v.check('media-not-serialized-when-text-or-data-is-set', len(h.serialized) == 0 and len(h.resolved) == 0)
        return
    if info['media_state'] == 2:
        # rendered earlier in this request: the cached bytes are the body (checked by the precedence clause), nothing is serialized again
        v.check('already-rendered-media-is-not-serialized-again', len(h.serialized) == 0 and len(h.resolved) == 0)
        v.cover('media-from-the-rendering-cache')
        return
    v.check('media-serialized-exactly-once', len(h.serialized) == 1 and len(h.resolved) == 1)
    if len(h.serialized) == 1 and len(h.resolved) == 1:
        default = info['default_media_type']
        want = 'text/x-preset' if info['preset_ct'] else default
        v.check('media-handler-resolved-for-the-response-content-type', And(_same(h.resolved[0][0], want), _same(h.resolved[0][1], default)))
        v.check('media-handler-receives-the-document', h.serialized[0][0] is info['media'] and (h.serialized[0][1] is None or _same(h.serialized[0][1], want)))
    v.cover('media-rendered')


def _is_str(x):
    return isinstance(x, str) or (isinstance(x, SStr) and x.kind == 'str')


def _same(a, b):
    if is_sym(a) or is_sym(b):
        return a == b
    return a == b


def _int_str(n):
    if is_sym(n):
        return mk_str(z3.IntToStr(n.t), 'str')
    return str(n)


# Variants.  With resp.text set render_body returns at once: data, media (and its rendering cache) and the stream are not read at all, so
#   text = str    is crossed with everything that existed before the rendering cache was modelled (media: none / not yet rendered),
#   text = bytes  (read at ONE place: the try/except around text.encode()) with stream none / file-like and media none / not yet rendered.
for _m in ('GET', 'HEAD'):
    _fx = {'method': 0 if _m == 'GET' else 1}
    for _fw in (0, 1):
        harness(PROP, WSGI + '.__call__', name='wsgi_tail[%s,text=0,file_wrapper=%d]' % (_m, _fw), inline=W_INLINE, setup=_wsgi_setup,
                fix=dict(_fx, **{'text?': 0, 'wsgi.file_wrapper?': _fw}))(wsgi_tail)
        harness(PROP, WSGI + '.__call__', name='wsgi_tail[%s,text=1,file_wrapper=%d]' % (_m, _fw), inline=W_INLINE, setup=_wsgi_setup,
                fix=dict(_fx, **{'text?': 1, 'wsgi.file_wrapper?': _fw}), only={'media?': [0, 1]})(wsgi_tail)
    harness(PROP, WSGI + '.__call__', name='wsgi_tail[%s,text=2]' % _m, inline=W_INLINE, setup=_wsgi_setup,
            fix=dict(_fx, **{'text?': 2}), only={'media?': [0, 1], 'stream-kind': [0, 1]})(wsgi_tail)


@harness(PROP, 'falcon.app_helpers:CloseableStreamIterator.__next__')
def closeable_next(v):
    st = ReadStream(v, False)
    it = v.obj('falcon.app_helpers:CloseableStreamIterator', _stream=st, _block_size=8192)
    out = v.call(it)
    if out.exc is not None:
        v.check('stops-on-empty-read-or-propagates-the-stream-error', out.exc.isa(StopIteration) or out.exc.isa(StreamError))
    else:
        v.check('yields-the-chunk-read', st.reads == 1)


@harness(PROP, 'falcon.app_helpers:CloseableStreamIterator.__next__', name='closeable_lifecycle', inline=['falcon.app_helpers:CloseableStreamIterator.close'])
def closeable_lifecycle(v):
    """What a PEP 3333 server does with the returned iterable: __next__ until it stops or fails (here: up to 3 calls, every outcome of
    each read), then close() exactly once.  The stream must then have been closed exactly once and never read after it was closed."""
    st = ReadStream(v, False)
    it = v.obj('falcon.app_helpers:CloseableStreamIterator', _stream=st, _block_size=8192)
    calls = v.choose(4, 'next-calls')
    for _ in range(calls):
        out = v.call(it)
        if out.exc is not None:
            break
    closer = v.ctx.interp.getattr(it, 'close') if not v.concrete else it.close
    if v.concrete:
        closer()
    else:
        v.ctx.interp.call(closer, [], {})
    v.check('stream-closed-exactly-once-over-the-life-of-the-iterator', st.closes == 1)
    v.check('stream-never-read-after-it-was-closed', not st.read_after_close)
    v.cover('lifecycle-complete')


@harness(PROP, 'falcon.app_helpers:CloseableStreamIterator.close')
def closeable_close(v):
    has_close = bool(v.choose(2, 'stream-has-close?'))
    st = ReadStream(v, False, has_close)
    it = v.obj('falcon.app_helpers:CloseableStreamIterator', _stream=st, _block_size=8192)
    out = v.call(it)
    v.check('close-never-raises', out.exc is None)
    v.check('closes-the-stream-exactly-once', st.closes == (1 if has_close else 0))


# --- ASGI -----------------------------------------------------------------------------------

A_INLINE = ['falcon.asgi.app:_validate_asgi_scope', ARESP + '.render_body']


class SendMonitor:
    def __init__(self, v):
        self.v = v
        self.state = 'INIT'
        self.lost = False
        self.start = None
        self.body_events = []

    def on_send(self, event):
        v = self.v
        typ = event['type']
        typ = getattr(typ, 'value', typ)
        v.check('nothing-after-the-final-body-event-or-a-lost-connection', self.state != 'DONE' and not self.lost)
        if v.choose(2, 'send-fails?') == 1:
            self.lost = True
            v.ctx.raise_py(ServerLost, typ)
        if typ == 'http.response.start':
            v.check('exactly-one-response-start-first', self.state == 'INIT')
            self.state = 'STARTED'
            self.start = event
        else:
            v.check('body-events-only-after-start', typ == 'http.response.body' and self.state == 'STARTED')
            # stated at the event (not on the collected list): events sent inside a cut streaming loop are seen here only
            v.check('every-body-event-carries-a-byte-string', _is_bytes(event.get('body', b'')))
            more = event.get('more_body', False)
            self.body_events.append(event)
            if not more:
                self.state = 'DONE'


def _asgi_setup(reg, ex):
    ex.codec_handler = _codec
    key = ASGI + '.__call__'

    def hdrs(I, self, media_type=None):
        return ('asgi-headers', media_type, dict(self._fields['_headers']))

    reg.stubs[ARESP + '._asgi_headers'] = hdrs

    def M(L):
        return L['send'].mon

    # the file-like stream loop and the async-iteration loop: streaming has begun, nothing closed, session STARTED
    def inv_stream(L):
        st = L['stream']
        return And(M(L).state == 'STARTED', Not(M(L).lost), st.closes == 0)

    # loop numbering in __call__: for#0..#3 belong to the request half; while#0 = watch_disconnect is in a nested def
    reg.loops[(key, 'while#0')] = LoopSpec(inv=inv_stream)
    reg.loops[(key, 'for#5')] = LoopSpec(inv=inv_stream)
    reg.loops[(key, 'for#4')] = LoopSpec(inv=lambda L: False)  # SSE loop: not reached (resp._sse is None)


ASGI_CODES = 'symbolic'


def asgi_tail(v):
    method = v.one_of('method', 'GET', 'HEAD')
    code = v.int('status_code', 100, 999)
    app, req, resp, info = mk_app(v, ASGI, ARESP, True, [200], method)
    v.set(resp, 'status_code', code)
    mon = SendMonitor(v)

    @stubclass
    class Send:
        def __init__(self_):
            self_.mon = mon

        def __call__(self_, event):
            mon.on_send(event)
            return Ready(None)

    @stubclass
    class Receive:
        def __call__(self_):
            return Ready({'type': 'http.request', 'body': b'', 'more_body': False})

    scope = {'type': 'http', 'asgi': {'version': '3.0', 'spec_version': '2.1'}, 'http_version': '1.1'}
    out = v.call(app, scope, Receive(), Send())
    st = info['stream']
    exp = expected_body(info)
    bodiless = Or(method == 'HEAD', *[code == c for c in BODILESS])
    typeless = Or(*[code == c for c in TYPELESS])
    streaming_begun = st is not None and exp is None and mon.state in ('STARTED', 'DONE') and not _concrete_true(bodiless)
    if out.exc is not None:
        v.check('only-server-or-stream-failures-escape', out.exc.isa(ServerLost) or out.exc.isa(StreamError))
        if st is not None and hasattr(st, 'close') and mon.start is not None and exp is None:
            # once streaming of a stream has begun it is closed exactly once, also when the stream or send fails
            v.check('stream-closed-exactly-once-on-failure', Implies(Not(bodiless), st.closes == 1))
        return
    v.check('session-complete-on-normal-return', mon.state == 'DONE')
    if mon.start is None:
        return
    if v.concrete:
        # native replay: the real _asgi_headers has already merged the media type into the header list
        hd = {k.decode('latin-1'): val.decode('latin-1') for k, val in mon.start['headers']}
        media_type = None
    else:
        _, media_type, hd = mon.start['headers']
    v.check('status-code-forwarded', mon.start['status'] is code or mon.start['status'] == code)
    last = mon.body_events[-1] if mon.body_events else {}
    v.check('only-the-last-body-event-has-more-body-false', all(e.get('more_body') is True for e in mon.body_events[:-1]) and not last.get('more_body', False))
    sent = [e.get('body', b'') for e in mon.body_events]
    if bodiless:
        v.check('head-and-1xx-204-304-carry-no-body-bytes', len(sent) == 1 and _same(sent[0], b''))
        if st is not None:
            v.check('bodiless-response-never-starts-streaming', getattr(st, 'reads', 0) == 0)
    elif exp is not None:
        v.check('body-follows-precedence-text-data-media-stream', len(sent) == 1 and _same(sent[0], exp))
        v.check('content-length-equals-body-bytes', 'content-length' in hd and _same(hd['content-length'], _int_str(Len(exp))))
    elif st is None:
        v.check('empty-response-has-empty-body-and-zero-length', len(sent) == 1 and _same(sent[0], b'') and hd.get('content-length') == '0')
    else:
        if hasattr(st, 'close'):
            v.check('stream-closed-exactly-once-after-streaming', st.closes == 1)
        v.check('stream-chunks-are-more-body-events-then-a-final-empty-one', _same(sent[-1], b''))
    if typeless:
        v.check(_typeless_clause(info), media_type is None and ('content-type' in hd) == bool(info['preset_ct']))
        v.cover('typeless')
    else:
        v.check('every-other-response-has-a-content-type', media_type is not None or 'content-type' in hd)
    _ct_clauses(v, info, hd, media_type)
    _media_clauses(v, info)
    v.cover('returned')


def _concrete_true(x):
    return x is True


def _is_bytes(x):
    return isinstance(x, bytes) or (isinstance(x, SStr) and x.kind == 'bytes')


# Variants: standard response class (the copy of render_body inlined in the tail) with every stream kind; a custom response class
# (resp.render_body() awaited: only body selection differs, the emission code is shared) with stream none / file-like.  text = bytes and, with
# text set, the rendering cache: as for WSGI above.
for _m in (0, 1):
    _mn = 'GET' if _m == 0 else 'HEAD'
    for _t in (0, 1, 2):
        _only = {} if _t == 0 else {'media?': [0, 1]}
        for _sk in ((0, 1, 2, 3, 4) if _t < 2 else (0, 1)):
            harness(PROP, ASGI + '.__call__', name='asgi_tail[%s,text=%d,stream=%d]' % (_mn, _t, _sk), inline=A_INLINE, setup=_asgi_setup, only=_only,
                    fix={'method': _m, 'text?': _t, 'stream-kind': _sk, 'status': 0, 'custom-response-type?': 0})(asgi_tail)
        for _sk in (0, 1):
            harness(PROP, ASGI + '.__call__', name='asgi_tail[%s,text=%d,stream=%d,custom-response-class]' % (_mn, _t, _sk), inline=A_INLINE, setup=_asgi_setup,
                    only=_only, fix={'method': _m, 'text?': _t, 'stream-kind': _sk, 'status': 0, 'custom-response-type?': 1})(asgi_tail)


# --- status helpers: finite domain, complete enumeration (run natively on the real functions) ------------------------------------------------


@harness(PROP, 'falcon.util.misc:code_to_http_status', name='status_line_table')
def status_line_table(v):
    """Every status an application can set (int 100..999, a digit string, a status line, an http.HTTPStatus member, falcon's HTTP_* constants)
    becomes a valid status line "ddd reason" carrying that code, and the integer code read back from it (what both tails branch on) is the same."""
    if v.concrete:
        return
    import http

    to_line = v.real('falcon.util.misc:code_to_http_status')
    to_code = v.real('falcon.util.misc:http_status_to_code')
    sc = v.real('falcon.status_codes')
    bad = []
    for code in range(100, 1000):
        for given in (code, str(code), '%d Custom Reason' % code, ('%d Custom' % code).encode()):
            try:
                line = to_line(given)
                ok = isinstance(line, str) and re.fullmatch(r'\d{3} \S.*', line) is not None and int(line[:3]) == code and to_code(given) == code and to_code(line) == code
            except Exception as e:  # noqa: BLE001
                ok, line = False, repr(e)
            if not ok:
                bad.append((given, line))
    for m in http.HTTPStatus:
        if not (to_line(m) == '%d %s' % (m.value, m.phrase) and to_code(m) == m.value):
            bad.append((repr(m), to_line(m)))
    for name in dir(sc):
        mm = re.fullmatch(r'HTTP_(\d{3})', name)
        if mm and not (getattr(sc, name).startswith(mm.group(1) + ' ') and to_code(getattr(sc, name)) == int(mm.group(1))):
            bad.append((name, getattr(sc, name)))
    v.check('every-settable-status-becomes-a-valid-status-line-with-the-same-code', not bad, first=[repr(b)[:80] for b in bad[:4]])
    outside = []
    for given in (99, 1000, 0, -200, '99', 'abc', '', None, 2.5, '20', b'xyz'):
        try:
            r = to_line(given)
            if not (isinstance(given, float) and r.startswith('2 ')):
                outside.append((repr(given), r))
        except ValueError:
            pass
        except Exception as e:  # noqa: BLE001
            outside.append((repr(given), repr(e)))
    v.check('a-status-outside-100-999-is-rejected-with-ValueError', all(o[0] == '2.5' for o in outside), got=outside[:4])
    v.cover('status-table-enumerated')


# --- ASGI: server-sent events ---------------------------------------------------------------------------------------------------------


@stubclass
class _SSEEvent:
    def __init__(self, v, i):
        self.v, self.i = v, i

    def serialize(self, handler=None):
        self.handler = handler
        return self.v.bytes('sse_event_bytes')

    def __pyvc_truth__(self):
        return True


@stubclass
class _SSEEmitter:
    """resp.sse: an async iterable of events; an item is an event, None (a keep-alive ping) or the emitter fails."""

    def __init__(self, v):
        self.v = v
        self.n = v.int('sse_events', 0)
        self.events = []

    def __pyvc_seq__(self):
        v = self.v

        def item(i):
            k = v.choose(3, 'sse-item')
            if k == 2:
                v.ctx.raise_py(StreamError, 'emitter failed')
            if k == 1:
                return None
            e = _SSEEvent(v, i)
            self.events.append(e)
            return e

        return FnSeq(self.n, item)

    def __pyvc_truth__(self):
        return True


@stubclass
class _Watcher:
    """The task watching for the client's disconnect (asyncio.create_task): done at any moment, or not."""

    def __init__(self, v):
        self.v = v
        self.cancelled = 0
        self.awaited = 0

    def done(self):
        return self.v.choose(2, 'client-disconnected?') == 1

    def cancel(self):
        self.cancelled += 1
        return True

    def __pyvc_await__(self, interp):
        import asyncio

        self.awaited += 1
        if self.cancelled and self.v.choose(2, 'watcher-was-still-running?') == 1:
            self.v.ctx.raise_py(asyncio.CancelledError)
        return None


def _sse_setup(reg, ex):
    import asyncio

    import falcon.asgi.app as aapp

    _asgi_setup(reg, ex)
    key = ASGI + '.__call__'
    reg.stubs[key + '.<locals>.watch_disconnect'] = lambda I: 'watch-disconnect-coroutine'
    reg.add_model(aapp.isasyncgenfunction, lambda I, x: False)  # precondition (documented): resp.sse is an async ITERABLE, not a generator function

    def create_task(I, coro, **kw):
        I.ctx.check('%s#sse:the-watched-coroutine-is-the-disconnect-watcher' % key, coro == 'watch-disconnect-coroutine')
        w = _Watcher(CUR_SSE['v'])
        CUR_SSE['watcher'] = w
        return w

    reg.add_model(asyncio.create_task, create_task)

    def M(L):
        return L['send'].mon

    # the SSE loop: the response has started, nothing final was sent, the connection is not known to be lost
    reg.loops[(key, 'for event in sse_emitter')] = LoopSpec(name='sse-loop', inv=lambda L: And(M(L).state == 'STARTED', Not(M(L).lost)))


CUR_SSE = {}


@harness(PROP, ASGI + '.__call__', name='asgi_sse', inline=A_INLINE + ['falcon.asgi.structures:SSEvent.__init__', 'falcon.asgi.structures:SSEvent.serialize'],
         setup=_sse_setup, fix={'method': 0, 'text?': 0, 'data?': 0, 'stream-kind': 0, 'status': 0, 'media?': 0, 'custom-response-type?': 0,
                                'preset-content-length?': 0})
def asgi_sse(v):
    """resp.sse set: one response start announcing text/event-stream, every event as a body event with more_body True, one final body event without
    more_body, nothing afterwards -- whether the emitter ends, the client disconnects (watcher done) or a keep-alive (None) is emitted."""
    if v.concrete:
        return
    CUR_SSE.clear()
    CUR_SSE['v'] = v
    code = v.int('status_code', 100, 999)
    v.assume(And(*[code != c for c in BODILESS]))
    app, req, resp, info = mk_app(v, ASGI, ARESP, True, [200], 'GET')
    v.set(resp, 'status_code', code)
    em = _SSEEmitter(v)
    v.set(resp, '_sse', em)
    sse_handler = object()

    @stubclass
    class Handlers:
        def _resolve(self_, media_type, default, raise_not_found=True):
            self_.asked = (media_type, default, raise_not_found)
            return (sse_handler, None, None)

    hs = Handlers()
    v.get(app, 'resp_options').media_handlers = hs
    mon = SendMonitor(v)

    @stubclass
    class Send:
        def __init__(self_):
            self_.mon = mon

        def __call__(self_, event):
            mon.on_send(event)
            return Ready(None)

    @stubclass
    class Receive:
        def __call__(self_):
            return Ready({'type': 'http.request', 'body': b'', 'more_body': False})

    scope = {'type': 'http', 'asgi': {'version': '3.0', 'spec_version': '2.1'}, 'http_version': '1.1'}
    out = v.call(app, scope, Receive(), Send())
    if out.exc is not None:
        v.check('only-server-or-stream-failures-escape', out.exc.isa(ServerLost) or out.exc.isa(StreamError))
        v.cover('sse-failed')
        return
    v.check('session-complete-on-normal-return', mon.state == 'DONE')
    _, media_type, hd = mon.start['headers']
    v.check('sse-response-announces-text-event-stream', media_type == 'text/event-stream')
    v.check('status-code-forwarded', mon.start['status'] is code or mon.start['status'] == code)
    last = mon.body_events[-1] if mon.body_events else {'more_body': True}
    v.check('sse-ends-with-one-final-body-event-without-more-body', not last.get('more_body', False) and _same(last.get('body', b''), b''))
    v.check('only-the-last-body-event-has-more-body-false', all(e.get('more_body') is True for e in mon.body_events[:-1]))
    w = CUR_SSE.get('watcher')
    v.check('sse-disconnect-watcher-is-cancelled-and-awaited-before-returning', w is not None and w.cancelled == 1 and w.awaited == 1)
    for e in em.events:
        v.check('sse-events-are-serialized-with-the-json-handler-of-the-app', getattr(e, 'handler', sse_handler) is sse_handler)
    v.cover('sse-finished')


ASSUMPTIONS = [
    'str.encode() is an uninterpreted total function utf8_encode: str -> bytes (so Content-Length = len(utf8_encode(text)))',
    'WSGI: the server calls close() on the returned iterable (PEP 3333); falcon cannot enforce it',
    'the request-processing half is trivial here (C03/C04 cover it); an error handler rewriting the response after a rendering failure ends the path',
    'WSGI statuses are the representatives %r (status lines, ints, http.HTTPStatus, a custom reason phrase, an unknown code); ASGI status codes are symbolic 100..999' % (WSGI_STATUSES,),
    'the app option default_media_type is an arbitrary NON-EMPTY str; resp.options and app.resp_options are one object (App.__call__ creates the response with options=self.resp_options)',
    'a media handler returns bytes (BaseHandler.serialize contract, C12); a handler returning None ("no body") is not explored',
    'custom response class on ASGI (_standard_response_type False) = a subclass that does not override render_body: the real asgi Response.render_body runs from its source',
    'inputs left at one value because they belong to the request half, which is trivial here (C03 / C04 / C06): resp.complete False, empty middleware stacks with '
    '_independent_middleware True (both stacks are empty, the flag selects between two empty loops), req_options None, request method GET / HEAD only (the tail '
    'compares with "HEAD" only), the ASGI scope (http 1.1, spec 2.1) and the single http.request event handed to the request',
    'resp._registered_callbacks is None (scheduling background callbacks happens after the last event and sends nothing); the stream block size handed to read() is not checked',
    'an explicitly set Content-Type is the concrete value "text/x-preset"; an explicitly set Content-Length is an arbitrary str',
]
NOT_DECIDED = [
    'SSE: the text format of an event (SSEvent.serialize) is not specified by the statement; the disconnect watcher is a stub task (done at any moment)',
    'what a media handler writes: the rendered document is arbitrary bytes returned by a handler stub (C11 resolves, C12 serializes)',
    'cross products deliberately not taken (the restricted value is read at one place that cannot see the other dimension): resp.text holding BYTES is combined with '
    'stream none / file-like and media none / not-yet-rendered only (the other text kinds with every stream kind); with resp.text set the rendering cache state '
    '"already rendered" is not explored (render_body returns before looking at media); the custom ASGI response class is combined with stream none / file-like only '
    '(the emission code after body selection is shared with the standard class, which is combined with every stream kind)',
    'header list construction _asgi_headers/_wsgi_headers with cookies (C15): resp._cookies and resp._extra_headers are None here although the quantifier names them '
    '(C15 proves the emitted list for every jar / raw-line state; the tails pass it on unchanged)',
]
TRUSTED = ['monitors StartResponse / SendMonitor and stream stubs in contracts/C05_response.py']


_APP = 'falcon/app.py'
_AAPP = 'falcon/asgi/app.py'
KILLS = [
    (_AAPP, "                                    'more_body': True,\n                                }\n                            )\n                finally:\n                    if hasattr(stream, 'close'):\n                        await stream.close()\n            else:",
     "                                    'more_body': True,\n                                }\n                            )\n                    if hasattr(stream, 'close'):\n                        await stream.close()\n                finally:\n                    pass\n            else:",
     'stream-closed-exactly-once'),
    (_AAPP, "                                    'body': data or b'',\n                                    'more_body': True,\n", "                                    'body': data or b'',\n",
     'App.__call__#'),
    (_AAPP, "            resp._headers['content-length'] = str(len(data))\n\n            await send(", "            resp._headers['content-length'] = str(len(data) + 1)\n\n            await send(",
     'content-length-equals-body-bytes'),
    (_AAPP, "            if resp_status in _TYPELESS_STATUS_CODES:\n                default_media_type = None\n", "            if resp_status == 204:\n                default_media_type = None\n",
     '204-304-get-no-framework-content-type'),
    (_AAPP, "                text = resp.text\n                if text is None:\n                    data = resp._data\n", "                text = resp.text\n                if text is None or resp._data is not None:\n                    data = resp._data\n",
     'body-follows-precedence-text-data-media-stream'),
    (_AAPP, "_BODILESS_STATUS_CODES = frozenset([100, 101, 204, 304])", "_BODILESS_STATUS_CODES = frozenset([100, 204, 304])", 'head-and-1xx-204-304-carry-no-body-bytes'),
    (_APP, "_BODILESS_STATUS_CODES = frozenset([100, 101, 204, 304])", "_BODILESS_STATUS_CODES = frozenset([100, 101, 204])", 'head-and-1xx-204-304-carry-no-body-bytes'),
    (_APP, "            if length is not None:\n                resp._headers['content-length'] = str(length)\n\n        headers:", "            if length is not None and 'content-length' not in resp._headers:\n                resp._headers['content-length'] = str(length)\n\n        headers:",
     'content-length-equals-body-bytes'),
    ('falcon/response.py', "        text = self.text\n        if text is None:\n            data = self._data\n", "        text = self.text\n        if text is None or self._data is not None:\n            data = self._data\n",
     'body-follows-precedence-text-data-media-stream'),
    # media precedence: the document wins over data (WSGI render_body / the copy inlined in the ASGI tail)
    ('falcon/response.py', "            if data is None and self._media is not None:\n", "            if self._media is not None:\n", 'body-follows-precedence-text-data-media-stream'),
    (_AAPP, "                    if data is None and resp._media is not None:\n", "                    if resp._media is not None:\n", 'App.__call__#'),
    # the handler is resolved for the default type although the responder chose another one
    ('falcon/response.py', "                    handler, _, _ = self.options.media_handlers._resolve(\n                        self.content_type, self.options.default_media_type\n",
     "                    handler, _, _ = self.options.media_handlers._resolve(\n                        self.options.default_media_type, self.options.default_media_type\n",
     'media-handler-resolved-for-the-response-content-type'),
    # SSE: an event sent as the final body event; the terminating event dropped
    (_AAPP, "                        'body': event.serialize(sse_handler),\n                        'more_body': True,\n", "                        'body': event.serialize(sse_handler),\n", 'App.__call__#'),
    (_AAPP, "            await send({'type': EventType.HTTP_RESPONSE_BODY})\n            return\n", "            return\n", 'session-complete-on-normal-return'),
    (_AAPP, "                    'headers': resp._asgi_headers('text/event-stream'),\n", "                    'headers': resp._asgi_headers(default_media_type),\n", 'sse-response-announces-text-event-stream'),
    # eager close at the end of the stream although the server closes the iterable as well (PEP 3333): two close() calls
    ('falcon/app_helpers.py', "        if data == b'':\n            raise StopIteration\n", "        if data == b'':\n            self.close()\n            raise StopIteration\n",
     'stream-closed-exactly-once-over-the-life-of-the-iterator'),
    ('falcon/app_helpers.py', "        try:\n            self._stream.close()\n        except (AttributeError, TypeError):\n            pass", "        pass", 'closes-the-stream-exactly-once'),
    # --- inputs that used to be fixed in the harness (audit of constants the code reads) ---
    # the WSGI tail takes falcon's constant instead of the configured default media type (invisible while the option stub held 'application/json')
    (_APP, "        default_media_type: Optional[str] = self.resp_options.default_media_type\n", "        default_media_type: Optional[str] = constants.DEFAULT_MEDIA_TYPE\n",
     'framework-supplied-content-type-is-the-configured-default-media-type'),
    # the copy of render_body inlined in the ASGI tail ignores the rendering cache (needs media rendered earlier in the request)
    (_AAPP, "                        if resp._media_rendered is _UNSET:\n", "                        if True:\n", 'already-rendered-media-is-not-serialized-again'),
    # custom response class on ASGI: an empty rendering result replaces "no body" (a stream is then never sent)
    (_AAPP, "                data = await resp.render_body()\n", "                data = await resp.render_body() or b''\n", 'asgi.app:App.__call__#'),
    # resp.text holding bytes is dropped by the ASGI tail (needs text = b'...')
    (_AAPP, "                        data = text  # type: ignore[assignment]\n", "                        data = None\n", 'body-follows-precedence-text-data-media-stream'),
    # an async file-like handing back None: the event body is no byte string (needs the None outcome of read())
    (_AAPP, "                                    'body': data or b'',\n", "                                    'body': data,\n", 'every-body-event-carries-a-byte-string'),
    # a file-like stream without close(): the ASGI tail calls close() unconditionally (needs a stream with read() and no close())
    (_AAPP, "                finally:\n                    if hasattr(stream, 'close'):\n                        await stream.close()\n            else:",
     "                finally:\n                    await stream.close()\n            else:", 'only-server-or-stream-failures-escape'),
]
HARMLESS = [
    (_APP, "        body: Iterable[bytes] = []\n        length: Optional[int] = 0\n", "        length: Optional[int] = 0\n        body: Iterable[bytes] = []\n"),
]
