"""C04 -- every raised exception becomes the response its most specific handler defines."""
from __future__ import annotations

from pyvc.core import And, ExcVal, Iff, Implies, Ite, Len, Not, Obj, Or, PyRaise, SDict
from pyvc.harness import Ready, Registry, harness, stubclass

PROP = 'C04'
APP = 'falcon.app:App'
AAPP = 'falcon.asgi.app:App'
RESP = 'falcon.response:Response'


def hierarchy(v):
    """A small real exception class hierarchy; returns (classes, raised class)."""
    shape = v.choose(4, 'hierarchy-shape')
    E = Exception
    if shape == 0:  # chain of 1..4 below Exception
        n = 1 + v.choose(4, 'chain-length')
        cs = []
        base = E
        for i in range(n):
            base = type('C%d' % i, (base,), {})
            cs.append(base)
        return cs, cs[-1]
    if shape == 1:  # diamond   A <- B, A <- C, D(B, C)
        A = type('A', (E,), {})
        B = type('B', (A,), {})
        C = type('C', (A,), {})
        D = type('D', (B, C), {})
        return [A, B, C, D], [D, B, C][v.choose(3, 'raised')]
    if shape == 2:  # two unrelated roots joined late; one of them outside Exception
        A = type('A', (E,), {})
        X = type('X', (BaseException,), {})
        J = type('J', (A, X), {})
        K = type('K', (J,), {})
        return [A, X, J, K], [K, J, A][v.choose(3, 'raised')]
    A = type('A', (LookupError,), {})  # below a builtin chain: A < LookupError < Exception
    B = type('B', (A, ValueError), {})
    return [A, B, LookupError, ValueError], [B, A][v.choose(2, 'raised')]


@stubclass
class Tok:
    def __init__(self, name):
        self.name = name

    def __repr__(self):
        return '<%s>' % self.name


@harness(PROP, APP + '._find_error_handler')
def find_error_handler(v):
    classes, raised = hierarchy(v)
    R = {}
    for c in classes + [Exception, BaseException]:
        if v.choose(2, 'registered:' + c.__name__):
            R[c] = Tok('h_' + c.__name__)
    app = v.obj(APP, _error_handlers=R)
    ex = raised() if v.concrete else ExcVal(raised)
    out = v.call(app, ex)
    v.check('no-exception', out.exc is None)
    if out.exc is not None:
        return
    mro = [c for c in raised.__mro__ if c is not object]
    anc = [c for c in mro if c in R]
    v.check('none-iff-no-ancestor-registered', (out.value is None) == (not anc))
    if anc:
        v.check('handler-of-nearest-registered-class-in-mro', out.value is R[anc[0]])
        v.cover('found')
    else:
        v.cover('not-found')


# ---------------------------------------------------------------------------
# shared stubs

from contracts.C20_cors import Map, header_map, map_of  # noqa: E402

RESP_INLINE = [RESP + '.set_headers', RESP + '.data', RESP + '.media', RESP + '.append_header']


@stubclass
class Req:
    """falcon.Request, opaque: identity only (plus an error log and the negotiation queries, see below)."""

    def __init__(self, v, name='req'):
        self.v = v
        self.name = name
        self.logged = []

    def log_error(self, msg):
        self.logged.append(msg)


class Boom(Exception):
    """An application exception that is neither HTTPError nor HTTPStatus."""


class Sub(Boom):
    pass


def mk_exc(v, cls, **fields):
    """An instance of exception class `cls` with the given attributes (no __init__)."""
    if v.concrete:
        e = cls.__new__(cls)
        for k, val in fields.items():
            setattr(e, k, val)
        return e
    e = ExcVal(cls)
    e.fields.update(fields)
    return e


def same_exc(v, got, e):
    if v.concrete:
        return got is not None and got.real is e
    return got is e


def raise_into(v, e):
    if v.concrete:
        raise e
    raise PyRaise(e)


def some_headers(v, base):
    """None, or a list of 1..2 (name, value) pairs with arbitrary names other than Set-Cookie."""
    k = v.choose(3, base + '-headers')
    if k == 0:
        return None, []
    pairs = []
    for i in range(k):
        n = v.str('%s_hname%d' % (base, i))
        val = v.str('%s_hval%d' % (base, i))
        v.assume(n.lower() != 'set-cookie')
        pairs.append((n, val))
    return (list(pairs) if k == 1 else dict(pairs)) if v.concrete else list(pairs), pairs


def headers_after(H, pairs):
    for n, val in pairs:
        H = H.put(n.lower(), val)
    return H


@stubclass
class Handler:
    """An application error handler: records what it sees, then returns or raises."""

    def __init__(self, v, name, asgi=False):
        self.v = v
        self.name = name
        self.__qualname__ = name
        self.asgi = asgi
        self.calls = []
        self.raised = None
        self.pairs = []

    def __call__(self, req, resp, ex, params, **kw):
        v = self.v
        self.calls.append({'args': (req, resp, ex, params), 'kw': kw, 'text': v.get(resp, 'text'), 'data': v.get(resp, '_data'),
                           'media': v.get(resp, '_media'), 'rendered': v.get(resp, '_media_rendered')})
        act = v.choose(4, 'handler-does')
        self.act = act
        if act == 0:
            v.set(resp, 'text', 'handled by ' + self.name)
            return Ready(None) if self.asgi else None
        if act == 1:
            hdrs, self.pairs = some_headers(v, 'st')
            self.raised = mk_exc(v, v.real('falcon:HTTPStatus'), status=v.str('st_status'), headers=hdrs,
                                 text=v.str('st_text') if v.choose(2, 'st-text?') else None)
        elif act == 2:
            hdrs, self.pairs = some_headers(v, 'err')
            self.raised = mk_exc(v, v.real('falcon:HTTPError'), status=v.str('err_status'), headers=hdrs, title=v.str('err_title'),
                                 description=None, code=None, link=None)
        else:
            self.raised = mk_exc(v, Boom)
        raise_into(v, self.raised)


@stubclass
class Serializer:
    """A configured error serializer (App.set_error_serializer): opaque, records its calls."""

    def __init__(self, v):
        self.v = v
        self.calls = []

    def __call__(self, req, resp, error):
        self.calls.append((req, resp, error))
        self.v.set(resp, '_data', b'<serialized>')


def mk_resp(v, with_body=True):
    hdrs, H0 = header_map(v, ['vary', 'content-type'])
    unset = v.real('falcon._typing:_UNSET')
    if with_body:
        f = dict(text=v.str('text0'), _data=v.bytes('data0'), _media=Tok('media0'), _media_rendered=v.bytes('rendered0'))
    else:
        f = dict(text=None, _data=None, _media=None, _media_rendered=unset)
    resp = v.obj(RESP, status='200 OK', _headers=hdrs, _extra_headers=None, _cookies=None, **f)
    return resp, H0


def handle_exception(v, asgi):
    unset = v.real('falcon._typing:_UNSET')
    h_exact, h_base = Handler(v, 'h_exact', asgi), Handler(v, 'h_base', asgi)
    reg_kind = v.choose(4, 'registry')
    R = [{}, {Boom: h_exact}, {Exception: h_base, Boom: h_exact}, {Exception: h_base}][reg_kind]
    expected = [None, h_exact, h_exact, h_base][reg_kind]
    other = [h for h in (h_exact, h_base) if h is not expected]
    ser = Serializer(v)
    app = v.obj(AAPP if asgi else APP, _error_handlers=R, _serialize_error=ser)
    req = Req(v)
    resp, H0 = mk_resp(v)
    ex = mk_exc(v, Sub if v.choose(2, 'raised-subclass?') else Boom)
    params = {'id': Tok('param')}
    out = v.call(app, req, resp, ex, params)

    for h in other:
        v.check('only-the-selected-handler-is-called', len(h.calls) == 0)
    if expected is None:
        v.check('returns-false-when-no-handler', out.exc is None and out.value is False)
        v.check('nothing-rendered-when-no-handler', len(ser.calls) == 0)
        v.cover('no-handler')
        return
    h = expected
    v.check('handler-called-exactly-once', len(h.calls) == 1)
    if len(h.calls) != 1:
        return
    c = h.calls[0]
    a = c['args']
    v.check('handler-gets-req-resp-ex-params', len(a) == 4 and a[0] is req and a[1] is resp and a[2] is ex and a[3] is params and not c['kw'])
    v.check('text-discarded-before-handler', c['text'] is None)
    v.check('data-discarded-before-handler', c['data'] is None)
    v.check('media-discarded-before-handler', c['media'] is None)
    v.check('rendered-media-cache-discarded-before-handler', c['rendered'] is unset)
    H1 = map_of(v, resp)
    if h.act == 3:
        v.check('other-exception-from-handler-propagates', same_exc(v, out.exc, h.raised))
        v.cover('handler-raises-other')
        return
    v.check('returns-true-when-handler-found', out.exc is None and out.value is True)
    if out.exc is not None:
        return
    if h.act == 0:
        v.check('response-left-as-the-handler-made-it', And(v.get(resp, 'text') == 'handled by ' + h.name, v.get(resp, '_data') is None,
                                                            v.get(resp, '_media') is None, v.get(resp, 'status') == '200 OK', H1.eq(H0)))
        v.check('nothing-rendered-when-handler-returns', len(ser.calls) == 0)
        v.cover('handler-returns')
        return
    r = h.raised
    st = r.status if v.concrete else r.fields['status']
    v.check('raised-status-becomes-response-status', v.get(resp, 'status') == st)
    v.check('raised-headers-set-on-response', H1.eq(headers_after(H0, h.pairs)))
    if h.act == 1:
        tx = r.text if v.concrete else r.fields['text']
        v.check('http-status-from-handler-rendered-with-its-text', (v.get(resp, 'text') is None) if tx is None else (v.get(resp, 'text') == tx))
        v.check('http-status-from-handler-has-no-other-body', And(v.get(resp, '_data') is None, v.get(resp, '_media') is None))
        v.check('http-status-not-serialized-as-error', len(ser.calls) == 0)
        v.cover('handler-raises-status')
    else:
        v.check('http-error-from-handler-serialized-once', len(ser.calls) == 1)
        if len(ser.calls) == 1:
            s = ser.calls[0]
            v.check('serializer-gets-req-resp-error', s[0] is req and s[1] is resp and (s[2] is r))
        v.cover('handler-raises-error')


@harness(PROP, APP + '._handle_exception', inline=[APP + '._find_error_handler', APP + '._compose_status_response', APP + '._compose_error_response'] + RESP_INLINE)
def wsgi_handle_exception(v):
    handle_exception(v, False)


@harness(PROP, AAPP + '._handle_exception',
         inline=[APP + '._find_error_handler', APP + '._compose_status_response', APP + '._compose_error_response',
                 AAPP + '._http_status_handler', AAPP + '._http_error_handler'] + RESP_INLINE)
def asgi_handle_exception(v):
    """The ASGI twin for an HTTP request (resp given, ws=None)."""
    handle_exception(v, True)


KILLS = [
    ('falcon/app.py', "        for exc in type(ex).__mro__[:-1]:\n", "        for exc in reversed(type(ex).__mro__[:-1]):\n", '_find_error_handler#handler-of-nearest-registered-class-in-mro'),
    ('falcon/app.py', "        resp.text = resp.data = resp.media = None\n        if err_handler is not None:\n            try:\n                err_handler(req, resp, ex, params)\n",
     "        if err_handler is not None:\n            try:\n                err_handler(req, resp, ex, params)\n                resp.text = resp.data = resp.media = None\n", 'App._handle_exception#text-discarded-before-handler'),
    ('falcon/app.py', "            except HTTPError as error:\n                self._compose_error_response(req, resp, error)\n\n            return True\n",
     "            except HTTPError as error:\n                pass\n\n            return True\n", 'App._handle_exception#http-error-from-handler-serialized-once'),
]
HARMLESS = [
]
