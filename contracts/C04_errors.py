"""C04 -- every raised exception becomes the response its most specific handler defines.

Chain (falcon/app.py, falcon/asgi/app.py, falcon/app_helpers.py, falcon/http_error.py):

    App.__init__ / asgi.App.__init__   default registry {Exception, HTTPError, HTTPStatus} -> the three default handlers
    add_error_handler (both apps)      registry write: last registration per class wins; class or iterable; TypeError for
                                       non-exception classes; omitted handler = exception.handle; legacy-signature shim (WSGI)
    _find_error_handler                handler of the first registered class of type(ex).__mro__[:-1]; None iff none
    _handle_exception (both apps)      text/data/media (+ rendered-media cache) discarded BEFORE the handler runs; handler gets
                                       exactly (req, resp, ex, params); HTTPStatus / HTTPError raised by it are rendered; anything
                                       else propagates; True iff a handler existed
    _compose_status_response / _compose_error_response, _http_status_handler / _http_error_handler / _python_error_handler
    default_serialize_error            negotiation decision table, Vary: Accept on every path
    HTTPError.__init__ / to_dict / to_json / _to_xml

plus one end-to-end harness per stack: App() as constructed by the real __init__, an arbitrary raised exception, the real
default handlers and default_serialize_error, down to the response fields ("a 500 and never escapes").

Class hierarchies are real classes built with type(); the registry is a real dict; handlers, the request, the media
handlers and the encoders are opaque recording stubs.  Every harness also runs natively for replay.

Frames (what each step must leave alone; each has a mutation in KILLS that this clause refutes):
    _find_error_handler      registry, every other app field, the exception
    _handle_exception        registry, app, request, raised exception, params; of the response only the body fields, status and
                             headers are written (cookies / extra headers survive); status + headers survive until the handler
                             runs; nothing is stamped on the response when no handler exists
    add_error_handler        nothing but the registry on the app; exception classes, the caller's iterable and handler untouched
    App.__init__             two apps never share a registry
    _compose_*_response      the raised HTTPStatus / HTTPError (and its headers container), app, request; response fields other
                             than status / headers / text (status) resp. the serialized body (error)
    default handlers         app, exception, params, request (log line aside), other response fields
    HTTPError                to_dict / to_json / _to_xml leave the error unchanged, to_dict returns a new dict per call;
                             __init__ sets exactly the documented attributes and does not edit the given headers
    default_serialize_error  error, request, options / media-handler registry; response status, cookies and other fields
Every harness declares its covers with v.expect_covers(...), so an outcome whose v.cover is never executed is reported too.
"""
from __future__ import annotations

from pyvc.core import And, ExcVal, Len, PyRaise, SDict, Unreached
from pyvc.harness import Ready, harness, stubclass

PROP = 'C04'
APP = 'falcon.app:App'
AAPP = 'falcon.asgi.app:App'
RESP = 'falcon.response:Response'


def hierarchy(v):
    """A small real exception class hierarchy; returns (classes, raised class)."""
    shape = v.choose(4, 'hierarchy-shape')
    E = Exception
    if shape == 0:  # chain of 1..4 below Exception
        n = 1 + v.choose(4, 'chain-length')
        cs = []
        base = E
        for i in range(n):
            base = type('C%d' % i, (base,), {})
            cs.append(base)
        return cs, cs[-1]
    if shape == 1:  # diamond   A <- B, A <- C, D(B, C)
        A = type('A', (E,), {})
        B = type('B', (A,), {})
        C = type('C', (A,), {})
        D = type('D', (B, C), {})
        return [A, B, C, D], [D, B, C][v.choose(3, 'raised')]
    if shape == 2:  # two unrelated roots joined late; one of them outside Exception
        A = type('A', (E,), {})
        X = type('X', (BaseException,), {})
        J = type('J', (A, X), {})
        K = type('K', (J,), {})
        return [A, X, J, K], [K, J, A][v.choose(3, 'raised')]
    A = type('A', (LookupError,), {})  # below a builtin chain: A < LookupError < Exception
    B = type('B', (A, ValueError), {})
    return [A, B, LookupError, ValueError], [B, A][v.choose(2, 'raised')]


@stubclass
class Tok:
    def __init__(self, name):
        self.name = name

    def __repr__(self):
        return '<%s>' % self.name


# --- frames: "what the function does not say it changes, it leaves alone" ------------------------


def snapshot(o):
    """All fields of an object as {name: value}: the field record of an interpreted object / exception value, the slots
    and __dict__ of a real one."""
    from pyvc.core import Obj

    if isinstance(o, Obj):
        return dict(o._fields)
    if isinstance(o, ExcVal):
        return dict(o.fields)
    out = {}
    for c in type(o).__mro__:
        sl = c.__dict__.get('__slots__', ())
        for n in ((sl,) if isinstance(sl, str) else sl):
            try:
                out[n] = object.__getattribute__(o, n)
            except AttributeError:
                pass
    out.update(getattr(o, '__dict__', {}))
    return out


def same_fields(now, before, except_for=()):
    """No field added, none removed, every field (other than `except_for`) still bound to the very same object."""
    return set(now) == set(before) and all(now[k] is before[k] for k in before if k not in except_for)


def same_mapping(now, before):
    """A dict still has the same keys, in the same order, bound to the very same objects."""
    return list(now) == list(before) and all(now[k] is before[k] for k in before)


@harness(PROP, APP + '._find_error_handler')
def find_error_handler(v):
    v.expect_covers('found', 'not-found')
    classes, raised = hierarchy(v)
    R = {}
    for c in classes + [Exception, BaseException]:
        if v.choose(2, 'registered:' + c.__name__):
            R[c] = Tok('h_' + c.__name__)
    app = v.obj(APP, _error_handlers=R)
    R0 = dict(R)
    ex = raised() if v.concrete else ExcVal(raised)
    app0, ex0 = snapshot(app), snapshot(ex)
    out = v.call(app, ex)
    v.check('no-exception', out.exc is None)
    if out.exc is not None:
        return
    # the same for everything else in reach: no memo beside the registry, no mark left on the exception (the handler is
    # "given" what was raised, as it was raised)
    v.check('lookup-writes-no-other-app-state', same_fields(snapshot(app), app0))
    v.check('lookup-leaves-the-exception-unchanged', same_fields(snapshot(ex), ex0))
    # a lookup is a pure read: "the latest registration per class winning" can only hold for later registrations
    # if resolving an exception never writes into the registry itself (no memoised / phantom entries)
    R1 = v.get(app, '_error_handlers')
    v.check('lookup-leaves-the-registry-unchanged', R1 is R and set(R1) == set(R0) and all(R1[k] is R0[k] for k in R0))
    mro = [c for c in raised.__mro__ if c is not object]
    anc = [c for c in mro if c in R]
    v.check('none-iff-no-ancestor-registered', (out.value is None) == (not anc))
    if anc:
        v.check('handler-of-nearest-registered-class-in-mro', out.value is R[anc[0]])
        v.cover('found')
    else:
        v.cover('not-found')


# ---------------------------------------------------------------------------
# shared stubs

import z3  # noqa: E402

from pyvc.core import Store, _s, mk_bool, mk_str, opt_sort  # noqa: E402


class Map:
    """Immutable header map for the specification side: an SMT array (symbolic run) or a python dict (replay)."""

    def __init__(self, raw):
        self.raw = raw

    @property
    def sym(self):
        return not isinstance(self.raw, dict)

    def put(self, k, val):
        if self.sym:
            return Map(Store(self.raw, k, val))
        d = dict(self.raw)
        d[k] = val
        return Map(d)

    def has(self, k):
        if self.sym:
            return mk_bool(opt_sort().is_some(z3.Select(self.raw, _s(k))))
        return k in self.raw

    def val(self, k):
        if self.sym:
            return mk_str(opt_sort().val(z3.Select(self.raw, _s(k))), 'str')
        return self.raw.get(k, '')

    def eq(self, other):
        if self.sym:
            return mk_bool(self.raw == other.raw)
        return self.raw == other.raw


def header_map(v, keys, base='H'):
    """An arbitrary header map; its entries at `keys` are named inputs so that counter-models replay."""
    if v.concrete:
        d = {}
        for k in keys:
            p = v.bool('%s_has_%s' % (base, k))
            s = v.str('%s_val_%s' % (base, k))
            if p:
                d[k] = s
        return d, Map(dict(d))
    sd = SDict.fresh(v.ctx, base)
    O = opt_sort()
    for k in keys:
        p = v.bool('%s_has_%s' % (base, k))
        s = v.str('%s_val_%s' % (base, k))
        sel = z3.Select(sd.arr, _s(k))
        v.assume(mk_bool(z3.If(p.t, sel == O.some(s.t), sel == O.none)))
    return sd, Map(sd.arr)


def map_of(v, resp):
    h = v.get(resp, '_headers')
    return Map(h.arr if isinstance(h, SDict) else dict(h))

RESP_INLINE = [RESP + '.set_headers', RESP + '.data', RESP + '.media', RESP + '.append_header']


@stubclass
class Req:
    """falcon.Request, opaque: identity only (plus an error log and the negotiation queries, see below)."""

    def __init__(self, v, name='req'):
        self.v = v
        self.name = name
        self.logged = []

    def log_error(self, msg):
        self.logged.append(msg)


class Boom(Exception):
    """An application exception that is neither HTTPError nor HTTPStatus."""


class Sub(Boom):
    pass


def mk_exc(v, cls, **fields):
    """An instance of exception class `cls` with the given attributes (no __init__)."""
    if v.concrete:
        e = cls.__new__(cls)
        for k, val in fields.items():
            setattr(e, k, val)
        return e
    e = ExcVal(cls)
    e.fields.update(fields)
    return e


def same_exc(v, got, e):
    if v.concrete:
        return got is not None and got.real is e
    return got is e


def raise_into(v, e):
    if v.concrete:
        raise e
    raise PyRaise(e)


def some_headers(v, base):
    """None, or a list of 1..2 (name, value) pairs with arbitrary names other than Set-Cookie."""
    k = v.choose(3, base + '-headers')
    if k == 0:
        return None, []
    pairs = []
    for i in range(k):
        n = v.str('%s_hname%d' % (base, i))
        val = v.str('%s_hval%d' % (base, i))
        v.assume(n.lower() != 'set-cookie')
        pairs.append((n, val))
    return (list(pairs) if k == 1 else dict(pairs)) if v.concrete else list(pairs), pairs


def headers_after(H, pairs):
    for n, val in pairs:
        H = H.put(n.lower(), val)
    return H


@stubclass
class Handler:
    """An application error handler: records what it sees, then returns or raises."""

    def __init__(self, v, name, asgi=False):
        self.v = v
        self.name = name
        self.__qualname__ = name
        self.asgi = asgi
        self.calls = []
        self.raised = None
        self.pairs = []

    def __call__(self, req, resp, ex, params, **kw):
        v = self.v
        self.calls.append({'args': (req, resp, ex, params), 'kw': kw, 'text': v.get(resp, 'text'), 'data': v.get(resp, '_data'),
                           'media': v.get(resp, '_media'), 'rendered': v.get(resp, '_media_rendered'),
                           'status': v.get(resp, 'status'), 'headers': map_of(v, resp), 'params': dict(params) if isinstance(params, dict) else params,
                           'resp-fields': snapshot(resp), 'ex-fields': snapshot(ex)})
        act = v.choose(4, 'handler-does')
        self.act = act
        if act == 0:
            v.set(resp, 'text', 'handled by ' + self.name)
            return Ready(None) if self.asgi else None
        if act == 1:
            hdrs, self.pairs = some_headers(v, 'st')
            self.raised = mk_exc(v, v.real('falcon:HTTPStatus'), status=v.str('st_status'), headers=hdrs,
                                 text=v.str('st_text') if v.choose(2, 'st-text?') else None)
        elif act == 2:
            hdrs, self.pairs = some_headers(v, 'err')
            self.raised = mk_exc(v, v.real('falcon:HTTPError'), status=v.str('err_status'), headers=hdrs, title=v.str('err_title'),
                                 description=None, code=None, link=None)
        else:
            self.raised = mk_exc(v, Boom)
        raise_into(v, self.raised)


@stubclass
class Serializer:
    """A configured error serializer (App.set_error_serializer): opaque, records its calls."""

    def __init__(self, v):
        self.v = v
        self.calls = []

    def __call__(self, req, resp, error):
        self.calls.append((req, resp, error))
        # what the serializer sees: the response header map at the moment it is called (it appends Vary: Accept, sets the
        # Content-Type ...), so the error's own headers must already be in place -- otherwise they overwrite what it adds
        h = self.v.get(resp, '_headers')
        self.headers_seen = Map(h.arr if hasattr(h, 'arr') else dict(h))
        self.v.set(resp, '_data', b'<serialized>')


def mk_resp(v, with_body=True):
    hdrs, H0 = header_map(v, ['vary', 'content-type'])
    unset = v.real('falcon._typing:_UNSET')
    if with_body:
        f = dict(text=v.str('text0'), _data=v.bytes('data0'), _media=Tok('media0'), _media_rendered=v.bytes('rendered0'))
    else:
        f = dict(text=None, _data=None, _media=None, _media_rendered=unset)
    # (cookies and raw Set-Cookie headers set so far: opaque objects, so that "left alone" is an identity, not None == None)
    resp = v.obj(RESP, status='200 OK', _headers=hdrs, _extra_headers=Tok('extra-headers-set-so-far'), _cookies=Tok('cookies-set-so-far'), **f)
    return resp, H0


BODY_FIELDS = ('text', '_data', '_media', '_media_rendered')


def handle_exception(v, asgi):
    unset = v.real('falcon._typing:_UNSET')
    h_exact, h_base = Handler(v, 'h_exact', asgi), Handler(v, 'h_base', asgi)
    reg_kind = v.choose(4, 'registry')
    R = [{}, {Boom: h_exact}, {Exception: h_base, Boom: h_exact}, {Exception: h_base}][reg_kind]
    expected = [None, h_exact, h_exact, h_base][reg_kind]
    other = [h for h in (h_exact, h_base) if h is not expected]
    ser = Serializer(v)
    app = v.obj(AAPP if asgi else APP, _error_handlers=R, _serialize_error=ser)
    req = Req(v)
    resp, H0 = mk_resp(v)
    ex = mk_exc(v, Sub if v.choose(2, 'raised-subclass?') else Boom)
    PARAM = Tok('param')
    params = {'id': PARAM}
    v.expect_covers('no-handler', 'handler-returns', 'handler-raises-status', 'handler-raises-error', 'handler-raises-other')
    R0, app0, req0, resp0, ex0 = dict(R), snapshot(app), snapshot(req), snapshot(resp), snapshot(ex)
    out = v.call(app, req, resp, ex, params)

    # frames that hold on every outcome: handling an exception decides with the registry, it does not edit it; the app, the
    # request, the raised exception and the responder params are only passed on
    v.check('handling-leaves-the-registry-unchanged', v.get(app, '_error_handlers') is R and same_mapping(R, R0))
    v.check('handling-writes-no-app-state', same_fields(snapshot(app), app0))
    v.check('handling-leaves-the-request-unchanged', same_fields(snapshot(req), req0))
    v.check('handling-leaves-the-raised-exception-unchanged', same_fields(snapshot(ex), ex0))
    v.check('handling-leaves-the-params-unchanged', list(params.items()) == [('id', PARAM)])
    # "text, data or media set so far discarded": nothing else of the response is -- cookies, extra headers, the stream,
    # the context ... (every field other than status / headers / the four body fields) stay as they were
    v.check('only-body-status-and-headers-of-the-response-are-written', same_fields(snapshot(resp), resp0, except_for=BODY_FIELDS + ('status',)))
    for h in other:
        v.check('only-the-selected-handler-is-called', len(h.calls) == 0)
    if expected is None:
        v.check('returns-false-when-no-handler', out.exc is None and out.value is False)
        v.check('nothing-rendered-when-no-handler', len(ser.calls) == 0)
        v.check('status-and-headers-left-alone-when-no-handler', And(v.get(resp, 'status') == '200 OK', map_of(v, resp).eq(H0)))
        v.cover('no-handler')
        return
    h = expected
    v.check('handler-called-exactly-once', len(h.calls) == 1)
    if len(h.calls) != 1:
        return
    c = h.calls[0]
    a = c['args']
    v.check('handler-gets-req-resp-ex-params', len(a) == 4 and a[0] is req and a[1] is resp and a[2] is ex and a[3] is params and not c['kw'])
    v.check('text-discarded-before-handler', c['text'] is None)
    v.check('data-discarded-before-handler', c['data'] is None)
    v.check('media-discarded-before-handler', c['media'] is None)
    v.check('rendered-media-cache-discarded-before-handler', c['rendered'] is unset)
    # ... and only those: the handler sees the status, headers and every other response field as they were set so far,
    # the exception as raised and the params as the responder would have got them
    v.check('status-and-headers-survive-until-the-handler', And(c['status'] == '200 OK', c['headers'].eq(H0)))
    v.check('nothing-but-the-body-discarded-before-handler', same_fields(c['resp-fields'], resp0, except_for=BODY_FIELDS))
    v.check('handler-sees-exception-and-params-as-raised', same_fields(c['ex-fields'], ex0) and isinstance(c['params'], dict) and list(c['params'].items()) == [('id', PARAM)])
    H1 = map_of(v, resp)
    if h.act == 3:
        v.check('other-exception-from-handler-propagates', same_exc(v, out.exc, h.raised))
        v.cover('handler-raises-other')
        return
    v.check('returns-true-when-handler-found', out.exc is None and out.value is True)
    if out.exc is not None:
        return
    if h.act == 0:
        v.check('response-left-as-the-handler-made-it', And(v.get(resp, 'text') == 'handled by ' + h.name, v.get(resp, '_data') is None,
                                                            v.get(resp, '_media') is None, v.get(resp, 'status') == '200 OK', H1.eq(H0)))
        v.check('nothing-rendered-when-handler-returns', len(ser.calls) == 0)
        v.cover('handler-returns')
        return
    r = h.raised
    st = r.status if v.concrete else r.fields['status']
    v.check('raised-status-becomes-response-status', v.get(resp, 'status') == st)
    v.check('raised-headers-set-on-response', H1.eq(headers_after(H0, h.pairs)))
    if h.act == 1:
        tx = r.text if v.concrete else r.fields['text']
        v.check('http-status-from-handler-rendered-with-its-text', (v.get(resp, 'text') is None) if tx is None else (v.get(resp, 'text') == tx))
        v.check('http-status-from-handler-has-no-other-body', And(v.get(resp, '_data') is None, v.get(resp, '_media') is None))
        v.check('http-status-not-serialized-as-error', len(ser.calls) == 0)
        v.cover('handler-raises-status')
    else:
        v.check('http-error-from-handler-serialized-once', len(ser.calls) == 1)
        if len(ser.calls) == 1:
            s = ser.calls[0]
            v.check('serializer-gets-req-resp-error', s[0] is req and s[1] is resp and (s[2] is r))
        v.cover('handler-raises-error')


@harness(PROP, APP + '._handle_exception', inline=[APP + '._find_error_handler', APP + '._compose_status_response', APP + '._compose_error_response'] + RESP_INLINE)
def wsgi_handle_exception(v):
    handle_exception(v, False)


@harness(PROP, AAPP + '._handle_exception',
         inline=[APP + '._find_error_handler', APP + '._compose_status_response', APP + '._compose_error_response',
                 AAPP + '._http_status_handler', AAPP + '._http_error_handler'] + RESP_INLINE)
def asgi_handle_exception(v):
    """The ASGI twin for an HTTP request (resp given, ws=None)."""
    handle_exception(v, True)



# ---------------------------------------------------------------------------
# the registry: add_error_handler, App.__init__


def argnames_of(fn):
    """inspect.signature-based falcon.util.misc.get_argnames, also for interpreted functions (their def's parameter list)."""
    from pyvc.interp import BoundMethod, Closure

    if isinstance(fn, BoundMethod):
        return argnames_of(fn.func)[1:] if isinstance(fn.func, Closure) else argnames_of(fn.func)
    if isinstance(fn, Closure):
        a = fn.node.args
        names = [x.arg for x in a.posonlyargs + a.args + a.kwonlyargs]
        return names[1:] if names[:1] == ['self'] else names
    import falcon.util.misc as misc

    return misc.get_argnames(fn)


def _is_coroutine_function(fn):
    from pyvc.interp import BoundMethod, Closure
    import inspect

    if isinstance(fn, BoundMethod):
        fn = fn.func
    if isinstance(fn, Closure):
        return fn.is_async
    return inspect.iscoroutinefunction(fn)


def _is_python_func(fn):
    from pyvc.interp import BoundMethod, Closure
    import falcon.util.misc as misc

    if isinstance(fn, (BoundMethod, Closure)):
        return True
    return misc.is_python_func(fn)


def _registry_setup(reg, ex):
    import builtins
    import inspect
    import warnings

    def m_tuple(I, x=()):
        if isinstance(x, type) and not hasattr(type(x), '__iter__'):
            I.ctx.raise_py(TypeError, "'type' object is not iterable")
        return tuple(I.iterate(x))

    reg.add_model(builtins.tuple, m_tuple)
    reg.add_model(warnings.warn, lambda I, *a, **k: None)
    reg.add_model(inspect.iscoroutinefunction, lambda I, fn: _is_coroutine_function(fn))
    reg.stubs['falcon.util.misc:get_argnames'] = lambda I, fn: argnames_of(fn)
    reg.stubs['falcon.util.misc:is_python_func'] = lambda I, fn: _is_python_func(fn)


class Plain:
    """A class that is not an exception type."""


@stubclass
class LegacyHandler:
    """A handler with the pre-3.0 signature (ex, req, resp, params)."""

    def __init__(self, name):
        self.__qualname__ = name
        self.calls = []

    def __call__(self, ex, req, resp, params):
        self.calls.append((ex, req, resp, params))


# every parameter list the legacy shim recognises, one trigger at a time: the five first-parameter names (the other names do
# not look like a request / response), then the two (request, response) pairs in second and third place
LEGACY_SIGNATURES = [(first, 'a', 'b', 'c') for first in ('e', 'err', 'error', 'ex', 'exception')] + [
    ('x', 'req', 'resp', 'params'), ('x', 'request', 'response', 'params'), ('ex', 'req', 'resp', 'params')]


def legacy_handler(names):
    """A LegacyHandler class whose __call__ has the given parameter names."""
    ns = {}
    exec('def __call__(self, %s):\n    self.calls.append((%s,))\n' % (', '.join(names), ', '.join(names)), ns)
    return stubclass(type('LegacyHandler_' + '_'.join(names), (LegacyHandler,), {'__call__': ns['__call__']}))


async def _async_handle(req, resp, ex, params):
    pass


def _sync_handle(req, resp, ex, params):
    pass


def invoke(v, fn, *args):
    if v.concrete:
        return fn(*args)
    return v.interp.call(fn, list(args), {})


def default_registry(v):
    return {Exception: Tok('default-python'), v.real('falcon:HTTPError'): Tok('default-http-error'), v.real('falcon:HTTPStatus'): Tok('default-http-status')}


def registry_history(v, asgi):
    """Three registrations in an arbitrary order over a small hierarchy: the last one per class wins."""
    C = type('C', (Exception,), {})
    D = type('D', (C,), {})
    HTTPError = v.real('falcon:HTTPError')
    v.expect_covers('history-done')
    R = default_registry(v)
    spec = dict(R)
    app = v.obj(AAPP if asgi else APP, _error_handlers=R)
    app0 = snapshot(app)
    class_attrs0 = {c: dict(vars(c)) for c in (C, D)}
    n = 1 + v.choose(3, 'history-length')
    for i in range(n):
        cls = [C, D, Exception, HTTPError][v.choose(4, 'class#%d' % i)]
        h = Handler(v, 'h%d' % i, asgi)
        out = v.call(app, cls, h)
        v.check('accepts-an-exception-class', out.exc is None)
        if out.exc is not None:
            return
        spec[cls] = h
    got = v.get(app, '_error_handlers')
    v.check('registry-domain-is-defaults-plus-registered', set(got) == set(spec))
    v.check('latest-registration-per-class-wins', all(got.get(k) is spec[k] for k in spec))
    v.check('default-handler-classes-stay-registered', all(k in got for k in (Exception, HTTPError, v.real('falcon:HTTPStatus'))))
    # frame: a registration is one write into the registry -- nothing else on the app, nothing on the exception classes
    v.check('registration-writes-nothing-but-the-registry', same_fields(snapshot(app), app0, except_for=('_error_handlers',)))
    v.check('exception-classes-are-not-modified', all(same_mapping(dict(vars(c)), class_attrs0[c]) for c in class_attrs0))
    v.cover('history-done')


def registry_shapes(v, asgi):
    """One registration: argument shapes (class / iterable / non-exception class) and handler kinds (given / legacy / default handle)."""
    handle_fn = _async_handle if asgi else _sync_handle
    C = type('C', (Exception,), {'handle': staticmethod(handle_fn)})
    D = type('D', (C,), {})
    N = type('N', (BaseException,), {})  # no `handle`
    old = Tok('older-handler-of-C')
    R = default_registry(v)
    R[C] = old
    R0 = dict(R)
    app = v.obj(AAPP if asgi else APP, _error_handlers=R)
    v.expect_covers('registered', 'default-handle', 'no-default-handle', 'rejected', *(['sync-function-rejected'] if asgi else ['legacy']))
    app0 = snapshot(app)
    class_attrs0 = {c: dict(vars(c)) for c in (C, D, N, Plain)}
    shape = v.choose(7, 'exception-arg')
    arg, classes, bad = [
        (C, [C], None),
        ((C, N), [C, N], None),
        ([D, C, D], [D, C], None),
        (frozenset([N]), [N], None),
        (Plain, [], Plain),
        ((C, Plain, N), [C], Plain),
        (N, [N], None),
    ][shape]
    kind = v.choose(3, 'handler-kind')  # 0 explicit, 1 omitted, 2 legacy signature (WSGI) / a plain (non-coroutine) python function (ASGI)
    h = Handler(v, 'h', asgi) if kind == 0 else (None if kind == 1 else _sync_handle if asgi else legacy_handler(LEGACY_SIGNATURES[v.choose(len(LEGACY_SIGNATURES), 'legacy-signature')])('legacy'))
    arg0 = list(arg) if isinstance(arg, list) else None
    h0 = snapshot(h) if h is not None else None
    out = v.call(app, arg, h) if kind != 1 else v.call(app, arg)
    got = v.get(app, '_error_handlers')
    # frames on every outcome (accepted, rejected): nothing but the registry is written on the app; the classes, the
    # caller's iterable and the caller's handler object are only read
    v.check('registration-writes-nothing-but-the-registry', same_fields(snapshot(app), app0, except_for=('_error_handlers',)))
    v.check('exception-classes-are-not-modified', all(same_mapping(dict(vars(c)), class_attrs0[c]) for c in class_attrs0))
    v.check('given-iterable-of-classes-is-not-modified', arg0 is None or (len(arg) == len(arg0) and all(a is b for a, b in zip(arg, arg0))))
    v.check('given-handler-object-is-not-modified', h is None or same_fields(snapshot(h), h0, except_for=('calls',)))
    if asgi and kind == 2:
        # "handler (callable): A coroutine function": a synchronous python function would never be awaited -- refused at
        # registration, whatever the exception argument is
        v.check('sync-python-function-rejected-for-an-asgi-app', out.exc is not None and out.exc.isa(v.real('falcon.errors:CompatibilityError')))
        v.check('rejected-registration-changes-nothing', set(got) == set(R0) and all(got[k] is R0[k] for k in R0))
        v.cover('sync-function-rejected')
        return
    if kind == 1 and shape != 0:
        # no explicit handler: only a single class that defines `handle` is acceptable
        v.check('omitted-handler-without-handle-attribute-rejected', out.exc is not None and out.exc.isa(AttributeError))
        v.check('rejected-registration-changes-nothing', set(got) == set(R0) and all(got[k] is R0[k] for k in R0))
        v.cover('no-default-handle')
        return
    if bad is not None:
        v.check('non-exception-class-rejected-with-typeerror', out.exc is not None and out.exc.isa(TypeError))
        v.check('non-exception-class-never-registered', bad not in got)
        v.check('default-handler-classes-stay-registered', all(k in got and got[k] is R0[k] for k in default_registry(v)))
        v.cover('rejected')
        return
    v.check('accepts-class-or-iterable-of-classes', out.exc is None)
    if out.exc is not None:
        return
    v.check('registry-domain-is-previous-plus-registered', set(got) == set(R0) | set(classes))
    v.check('other-classes-keep-their-handler', all(got[k] is R0[k] for k in R0 if k not in classes))
    if kind == 0:
        v.check('latest-registration-per-class-wins', all(got[c] is h for c in classes))
    elif kind == 1:
        v.check('omitted-handler-defaults-to-exception-handle', got[C] is handle_fn)
        v.cover('default-handle')
    else:
        # the legacy shim: the registered callable takes (req, resp, ex, params) and forwards (ex, req, resp, params)
        w = got[classes[0]]
        v.check('legacy-handler-registered-for-every-class', all(got[c] is w for c in classes) and w is not old)
        a = [Tok('req'), Tok('resp'), Tok('ex'), Tok('params')]
        invoke(v, w, *a)
        v.check('legacy-handler-called-with-reordered-arguments',
                len(h.calls) == 1 and all(x is y for x, y in zip(h.calls[0], (a[2], a[0], a[1], a[3]))))
        v.cover('legacy')
    v.cover('registered')


ASYNC_INLINE = ['falcon.util.sync:_wrap_non_coroutine_unsafe', 'falcon.util.sync:_should_wrap_non_coroutines']


@harness(PROP, APP + '.add_error_handler', setup=_registry_setup)
def wsgi_add_error_handler_history(v):
    registry_history(v, False)


@harness(PROP, APP + '.add_error_handler', setup=_registry_setup)
def wsgi_add_error_handler_shapes(v):
    registry_shapes(v, False)


@harness(PROP, AAPP + '.add_error_handler', setup=_registry_setup, inline=ASYNC_INLINE)
def asgi_add_error_handler_history(v):
    registry_history(v, True)


@harness(PROP, AAPP + '.add_error_handler', setup=_registry_setup, inline=ASYNC_INLINE)
def asgi_add_error_handler_shapes(v):
    registry_shapes(v, True)



def _init_setup(reg, ex):
    _registry_setup(reg, ex)
    # constructors/registrations of other components: they own other objects/fields (read: none touches _error_handlers)
    for key in ('falcon.app:App.add_middleware', 'falcon.routing.compiled:CompiledRouter.__init__', 'falcon.request:RequestOptions.__init__',
                'falcon.response:ResponseOptions.__init__', 'falcon.middleware:CORSMiddleware.__init__', 'falcon.asgi.ws:WebSocketOptions.__init__'):
        reg.stubs[key] = lambda I, self, *a, **k: None


def _is_method(v, got, app, name):
    from pyvc.interp import BoundMethod

    if v.concrete:
        return getattr(got, '__self__', None) is app and getattr(got, '__func__', None) is getattr(type(app), name)
    return isinstance(got, BoundMethod) and got.self_obj is app and got.func.qualname == 'App.' + name and got.func.defcls is app._cls


def app_init(v, asgi):
    v.expect_covers('constructed', 'second-app-constructed')
    cls = v.real(AAPP if asgi else APP)
    app = v.obj(cls)
    out = v.call(app, cors_enable=bool(v.choose(2, 'cors_enable')))
    v.check('no-exception', out.exc is None)
    if out.exc is not None:
        return
    got = v.get(app, '_error_handlers')
    HTTPError, HTTPStatus = v.real('falcon:HTTPError'), v.real('falcon:HTTPStatus')
    v.check('exception-handled-by-python-error-handler', Exception in got and _is_method(v, got[Exception], app, '_python_error_handler'))
    v.check('http-error-handled-by-http-error-handler', HTTPError in got and _is_method(v, got[HTTPError], app, '_http_error_handler'))
    v.check('http-status-handled-by-http-status-handler', HTTPStatus in got and _is_method(v, got[HTTPStatus], app, '_http_status_handler'))
    extra = {v.real('falcon.errors:WebSocketDisconnected')} if asgi else set()
    v.check('no-other-default-handlers', set(got) == {Exception, HTTPError, HTTPStatus} | extra)
    v.check('default-serializer-is-default_serialize_error', v.get(app, '_serialize_error') is v.real('falcon.app_helpers:default_serialize_error'))
    v.cover('constructed')
    # frame across constructions: the registry is the app's own -- add_error_handler writes into it in place, so two apps
    # of one process must never get the same dict (or a handler registered on one would answer for the other)
    domain0, handlers0 = list(got), dict(got)
    app2 = v.obj(cls)
    out2 = v.call(app2, cors_enable=False)
    v.check('no-exception', out2.exc is None)
    if out2.exc is not None:
        return
    got2 = v.get(app2, '_error_handlers')
    v.check('registry-is-not-shared-between-apps', isinstance(got2, dict) and got2 is not got)
    v.check('constructing-another-app-leaves-this-registry-alone', v.get(app, '_error_handlers') is got and list(got) == domain0 and all(got[k] is handlers0[k] for k in domain0))
    v.check('each-app-registers-its-own-bound-default-handlers', Exception in got2 and _is_method(v, got2[Exception], app2, '_python_error_handler'))
    v.cover('second-app-constructed')


@harness(PROP, APP + '.__init__', setup=_init_setup, inline=[APP + '.add_error_handler'])
def wsgi_app_init(v):
    app_init(v, False)


@harness(PROP, AAPP + '.__init__', setup=_init_setup, inline=[APP + '.__init__', AAPP + '.add_error_handler'] + ASYNC_INLINE)
def asgi_app_init(v):
    app_init(v, True)



# ---------------------------------------------------------------------------
# rendering: _compose_status_response / _compose_error_response and the three default handlers


def raised_headers(v, base):
    """Headers of a raised HTTPError/HTTPStatus: none / arbitrary names / the one name Response.set_headers refuses."""
    k = v.choose(3, base + '-header-kind')
    if k == 0:
        return None, [], False
    if k == 1:
        n, val = v.str(base + '_hname'), v.str(base + '_hval')
        v.assume(n.lower() != 'set-cookie')
        return ({n: val} if v.choose(2, base + '-headers-as-dict') else [(n, val)]), [(n, val)], False
    n = v.one_of(base + '-cookie-spelling', 'Set-Cookie', 'set-cookie')
    val = v.str(base + '_cookie')
    return {n: val}, [(n, val)], True


def plain_headers(v, base):
    """Headers of a raised HTTPError/HTTPStatus that Response.set_headers accepts: none / one arbitrary entry given as a dict /
    the same given as a list of pairs (the Set-Cookie case is the compose_*[headers=set-cookie] harnesses, see FINDINGS)."""
    k = v.choose(3, base + '-headers')
    if k == 0:
        return None, []
    n, val = v.str(base + '_hname'), v.str(base + '_hval')
    v.assume(n.lower() != 'set-cookie')
    return ({n: val} if k == 1 else [(n, val)]), [(n, val)]


def copy_container(h):
    return None if h is None else (dict(h) if isinstance(h, dict) else list(h))


def same_container(now, before):
    """A headers argument (None / dict / list of pairs) still holds the very same names and values."""
    if before is None:
        return now is None
    if isinstance(before, dict):
        return isinstance(now, dict) and same_mapping(now, before)
    return len(now) == len(before) and all(a[0] is b[0] and a[1] is b[1] for a, b in zip(now, before))


def compose_status_response(v):
    app = v.obj(APP, _serialize_error=Serializer(v))
    req = Req(v)
    resp, H0 = mk_resp(v, with_body=bool(v.choose(2, 'resp-has-body')))
    before = {k: v.get(resp, k) for k in ('_data', '_media', '_media_rendered')}
    hdrs, pairs, cookie = raised_headers(v, 'st')
    text = v.str('st_text') if v.choose(2, 'st-text?') else None
    st = mk_exc(v, v.real('falcon:HTTPStatus'), status=v.str('st_status'), headers=hdrs, text=text)
    v.expect_covers('status-with-set-cookie' if cookie else 'status-composed')
    hdrs0 = None if hdrs is None else (dict(hdrs) if isinstance(hdrs, dict) else list(hdrs))
    app0, req0, resp0, st0 = snapshot(app), snapshot(req), snapshot(resp), snapshot(st)
    out = v.call(app, req, resp, st)
    if cookie:
        v.cover('status-with-set-cookie')
        v.check('set-cookie-among-status-headers-does-not-escape', out.exc is None)
        return
    v.check('no-exception', out.exc is None)
    if out.exc is not None:
        return
    # frames: rendering copies FROM the raised object INTO status / headers / text of the response; the raised object (and
    # its headers container), the app, the request and every other response field (cookies, extra headers ...) are only read
    v.check('raised-http-status-is-not-modified', same_fields(snapshot(st), st0) and same_container(hdrs, hdrs0))
    v.check('app-and-request-are-not-modified', same_fields(snapshot(app), app0) and same_fields(snapshot(req), req0))
    v.check('only-status-headers-and-text-of-the-response-are-written', same_fields(snapshot(resp), resp0, except_for=('status', 'text')))
    v.check('status-copied', v.get(resp, 'status') == (st.status if v.concrete else st.fields['status']))
    v.check('headers-copied-others-unchanged', map_of(v, resp).eq(headers_after(H0, pairs)))
    v.check('text-copied', (v.get(resp, 'text') is None) if text is None else (v.get(resp, 'text') == text))
    v.check('data-and-media-untouched', all(v.get(resp, k) is before[k] for k in before))
    v.check('status-is-not-serialized-as-error', len(v.get(app, '_serialize_error').calls) == 0)
    v.cover('status-composed')


def compose_error_response(v):
    ser = Serializer(v)
    app = v.obj(APP, _serialize_error=ser)
    req = Req(v)
    # (body fields set earlier or not: _handle_exception clears them first, but composing must not depend on that -- nor undo it)
    resp, H0 = mk_resp(v, with_body=bool(v.choose(2, 'resp-has-body')))
    hdrs, pairs, cookie = raised_headers(v, 'err')
    err = mk_exc(v, v.real('falcon:HTTPError'), status=v.str('err_status'), headers=hdrs, title=v.str('err_title'), description=None, code=None, link=None)
    v.expect_covers('error-with-set-cookie' if cookie else 'error-composed')
    hdrs0 = None if hdrs is None else (dict(hdrs) if isinstance(hdrs, dict) else list(hdrs))
    app0, req0, resp0, err0 = snapshot(app), snapshot(req), snapshot(resp), snapshot(err)
    out = v.call(app, req, resp, err)
    if cookie:
        v.cover('error-with-set-cookie')
        v.check('set-cookie-among-error-headers-does-not-escape', out.exc is None)
        return
    v.check('no-exception', out.exc is None)
    if out.exc is not None:
        return
    # frames: status and headers are copied, the body is the serializer's business (the stub writes _data); everything else
    # -- the error and its headers container, the app, the request, text / media / cookies of the response -- is only read
    v.check('raised-http-error-is-not-modified', same_fields(snapshot(err), err0) and same_container(hdrs, hdrs0))
    v.check('app-and-request-are-not-modified', same_fields(snapshot(app), app0) and same_fields(snapshot(req), req0))
    v.check('only-status-headers-and-the-serialized-body-of-the-response-are-written', same_fields(snapshot(resp), resp0, except_for=('status', '_data')))
    v.check('status-copied', v.get(resp, 'status') == (err.status if v.concrete else err.fields['status']))
    v.check('headers-copied-others-unchanged', map_of(v, resp).eq(headers_after(H0, pairs)))
    v.check('serialization-delegated-once-to-configured-serializer', len(ser.calls) == 1)
    if len(ser.calls) == 1:
        c = ser.calls[0]
        v.check('serializer-gets-req-resp-error', c[0] is req and c[1] is resp and c[2] is err)
        # "its own status and headers AND a body ... with Vary: Accept": the serializer runs on a response that already carries
        # the error's headers (it appends to Vary); headers applied afterwards would overwrite what it wrote
        v.check('error-headers-are-in-place-before-the-serializer-runs', ser.headers_seen.eq(headers_after(H0, pairs)))
    v.cover('error-composed')


for _k in (0, 1, 2):
    harness(PROP, APP + '._compose_status_response', name='compose_status_response[headers=%s]' % ['none', 'any', 'set-cookie'][_k], inline=RESP_INLINE,
            fix={'st-header-kind': _k})(compose_status_response)
    harness(PROP, APP + '._compose_error_response', name='compose_error_response[headers=%s]' % ['none', 'any', 'set-cookie'][_k], inline=RESP_INLINE,
            fix={'err-header-kind': _k})(compose_error_response)


def _quiet_logger(reg, ex):
    import logging

    reg.add_model(logging.Logger.error, lambda I, self, *a, **k: None)


def default_handler(v, asgi, which):
    """_http_status_handler / _http_error_handler / _python_error_handler: what they leave on the response."""
    ser = Serializer(v)
    app = v.obj(AAPP if asgi else APP, _serialize_error=ser)
    req = Req(v)
    resp, H0 = mk_resp(v, with_body=False)
    PARAM = Tok('param')
    params = {'id': PARAM}
    HTTPStatus, HTTPError = v.real('falcon:HTTPStatus'), v.real('falcon:HTTPError')
    # (the handled HTTPStatus / HTTPError carries headers of its own or none: "produces its own status AND HEADERS")
    hdrs, pairs = None, []
    if which == 'status':
        text = v.str('st_text') if v.choose(2, 'st-text?') else None
        hdrs, pairs = plain_headers(v, 'st')
        ex = mk_exc(v, HTTPStatus, status=v.str('st_status'), headers=hdrs, text=text)
    elif which == 'error':
        hdrs, pairs = plain_headers(v, 'err')
        ex = mk_exc(v, HTTPError, status=v.str('err_status'), headers=hdrs, title=v.str('err_title'), description=None, code=None, link=None)
    else:
        ex = mk_exc(v, [Sub, KeyError, Exception][v.choose(3, 'raised')])
    v.expect_covers('handled', *(['handled-with-headers'] if which != 'python' else []))
    hdrs0 = copy_container(hdrs)
    app0, req0, resp0, ex0 = snapshot(app), snapshot(req), snapshot(resp), snapshot(ex)
    out = v.call(app, req, resp, ex, params)
    v.check('never-re-raises' if which == 'python' else 'returns-normally', out.exc is None and out.value is None)
    if out.exc is not None:
        return
    if pairs:
        v.check('own-headers-of-the-handled-error-copied-others-unchanged', map_of(v, resp).eq(headers_after(H0, pairs)))
        v.check('headers-container-of-the-handled-error-is-not-modified', same_container(hdrs, hdrs0))
        if which == 'error' and len(ser.calls) == 1:
            v.check('error-headers-are-in-place-before-the-serializer-runs', ser.headers_seen.eq(headers_after(H0, pairs)))
        v.cover('handled-with-headers')
    else:
        v.check('headers-untouched', map_of(v, resp).eq(H0))
    # frames: a default handler renders; the app, the handled exception, the responder params and every response field other
    # than status / text / the serialized body are only read (the request at most receives the log line of the 500: WSGI)
    v.check('app-exception-and-params-are-not-modified', same_fields(snapshot(app), app0) and same_fields(snapshot(ex), ex0) and list(params.items()) == [('id', PARAM)])
    v.check('request-is-not-modified', same_fields(snapshot(req), req0) and (which == 'python' or len(req.logged) == 0))
    v.check('only-status-text-and-the-serialized-body-of-the-response-are-written', same_fields(snapshot(resp), resp0, except_for=('status', 'text', '_data')))
    if which == 'status':
        v.check('renders-the-http-status', And(v.get(resp, 'status') == (ex.status if v.concrete else ex.fields['status']),
                                               (v.get(resp, 'text') is None) if text is None else (v.get(resp, 'text') == text), len(ser.calls) == 0))
    elif which == 'error':
        v.check('renders-the-http-error', And(v.get(resp, 'status') == (ex.status if v.concrete else ex.fields['status']),
                                              len(ser.calls) == 1 and ser.calls[0][0] is req and ser.calls[0][1] is resp and ser.calls[0][2] is ex))
    else:
        v.check('any-other-exception-becomes-a-500', v.get(resp, 'status') == '500 Internal Server Error')
        e = ser.calls[0][2] if len(ser.calls) == 1 else None
        e = e.real if isinstance(e, ExcVal) else e
        v.check('the-500-is-serialized-as-an-http-error', isinstance(e, v.real('falcon:HTTPInternalServerError')) and ser.calls[0][0] is req and ser.calls[0][1] is resp
                and e.title == '500 Internal Server Error' and e.description is None and e.headers is None)
    v.cover('handled')


for _asgi in (False, True):
    for _which in ('status', 'error', 'python'):
        harness(PROP, (AAPP if _asgi else APP) + '._%s_handler' % {'status': 'http_status', 'error': 'http_error', 'python': 'python_error'}[_which],
                name='%s_%s_handler' % ('asgi' if _asgi else 'wsgi', _which), setup=_quiet_logger,
                inline=[APP + '._compose_status_response', APP + '._compose_error_response'] + RESP_INLINE)(
            (lambda a, w: lambda v: default_handler(v, a, w))(_asgi, _which))



# ---------------------------------------------------------------------------
# HTTPError: construction, to_dict, to_json, _to_xml

HE = 'falcon.http_error:HTTPError'
MEDIA_JSON, MEDIA_XML = 'application/json', 'application/xml'
DEFAULT_LINK_TEXT = 'Documentation related to this error'


def _sym(x):
    from pyvc.core import is_sym

    return is_sym(x)


def uri_encode(v, s):
    """falcon.util.uri.encode: opaque, deterministic (RFC 3986 escaping itself is not decided here)."""
    if v.concrete:
        return v.real('falcon.util.uri:encode')(s)
    return v.ctx.str_fn('uri_encode', s) if _sym(s) else v.real('falcon.util.uri:encode')(s)


def _error_setup(reg, ex):
    import xml.etree.ElementTree as et

    import falcon.util.uri as uri

    reg.add_model(uri.encode, lambda I, s: I.ctx.str_fn('uri_encode', s) if _sym(s) else uri.encode(s))
    import falcon.util.misc as misc

    c2s = misc.code_to_http_status  # an lru_cache wrapper; its contract (C05): a str status that has a reason phrase is returned as is

    def m_c2s(I, st):
        if not _sym(st):
            return c2s(st)
        if I.truth(st.contains(' ')):
            return st
        raise Unreached('code_to_http_status on a str status without reason phrase (int()/ValueError behaviour: C05)')

    reg.add_model(c2s, m_c2s)

    def default_json(I, self, media, content_type=None):
        tok = I.ctx.fresh_bytes('default_json_bytes')
        I.ctx.ghost.setdefault('default_json', []).append((media, content_type, tok))
        return tok

    reg.stubs['falcon.media.json:JSONHandler._serialize_s'] = default_json
    reg.stubs['falcon.media.json:JSONHandler._serialize_b'] = default_json

    # xml.etree.ElementTree: the element tree is kept as a tree, the encoder is opaque
    reg.add_model(et.Element, lambda I, tag: XEl(tag))

    def sub(I, parent, tag):
        e = XEl(tag)
        parent.children.append(e)
        return e

    def tostring(I, el, encoding=None):
        tok = I.ctx.fresh_bytes('xml_bytes')
        I.ctx.ghost.setdefault('xml', []).append((el, encoding, tok))
        return tok

    reg.add_model(et.SubElement, sub)
    reg.add_model(et.tostring, tostring)


@stubclass
class XEl:
    def __init__(self, tag):
        self.tag = tag
        self.text = None
        self.children = []

    def shape(self):
        return [(c.tag, c.text, c.shape()) for c in self.children]


def error_fields(v, link_as_built=True):
    f = {'title': v.str('title'),
         'description': v.str('description') if v.choose(2, 'description?') else None,
         'code': v.int('code') if v.choose(2, 'code?') else None}
    if v.choose(2, 'link?'):
        f['link'] = {'text': v.str('link_text'), 'href': v.str('link_href'), 'rel': 'help'}
    else:
        f['link'] = None
    return f


def mk_http_error(v, f, headers=None):
    return v.obj(HE, status=v.str('err_status'), headers=headers, **f)


def expected_dict(f):
    exp = {'title': f['title']}
    for k in ('description', 'code', 'link'):
        if f[k] is not None:
            exp[k] = f[k]
    return exp


def veq(a, b):
    if isinstance(a, dict) or isinstance(b, dict):
        return isinstance(a, dict) and isinstance(b, dict) and list(a) == list(b) and And(*[veq(a[k], b[k]) for k in a])
    if a is None or b is None:
        return a is b
    return a == b


def dict_is(d, exp):
    """d has exactly the keys of exp, in that order, with equal values."""
    return isinstance(d, dict) and veq(d, exp)


@harness(PROP, HE + '.to_dict')
def http_error_to_dict(v):
    import collections

    v.expect_covers('dict', 'dict-of-the-requested-type')
    f = error_fields(v)
    err = mk_http_error(v, f)
    err0 = snapshot(err)
    # the optional obj_type argument ("a dict-like type that will be used to store the error information"): omitted / given
    obj_type = collections.OrderedDict if v.choose(2, 'obj_type-given') else None
    args = () if obj_type is None else (obj_type,)
    out = v.call(err, *args)
    v.check('no-exception', out.exc is None)
    if out.exc is not None:
        return
    d = out.value
    # frame: a representation is computed from the error; the error itself keeps its fields (no cached dict either)
    v.check('to-dict-leaves-the-error-unchanged', same_fields(snapshot(err), err0))
    out2 = v.call(err, *args)
    v.check('each-call-returns-a-new-dict', out2.exc is None and isinstance(out2.value, dict) and out2.value is not d)
    if obj_type is not None:
        v.check('result-is-an-instance-of-the-requested-mapping-type', type(d) is obj_type)
        v.cover('dict-of-the-requested-type')
    else:
        v.check('result-is-a-plain-dict-by-default', type(d) is dict)
    v.check('title-always-present', isinstance(d, dict) and 'title' in d and veq(d['title'], f['title']))
    for k in ('description', 'code', 'link'):
        v.check('%s-present-iff-not-none' % k, (k in d) == (f[k] is not None))
    v.check('exactly-title-and-the-non-none-fields-with-their-values', dict_is(d, expected_dict(f)))
    v.cover('dict')


@harness(PROP, HE + '.__init__', setup=_error_setup)
def http_error_init(v):
    v.expect_covers('link', 'no-link', 'constructed')
    import http

    err = v.obj(HE)
    # every documented form of the status argument: an arbitrary status line "ddd reason", an int code, an http.HTTPStatus
    # member, the bare code as a str (the last three: the line is the one code_to_http_status documents for the code -- C05)
    kind = v.choose(4, 'status-form')
    if kind == 0:
        status = line = v.str('status')
        v.assume(contains(status, ' '))
    else:
        status, line = [(404, '404 Not Found'), (http.HTTPStatus.IM_A_TEAPOT, "418 I'm a Teapot"), ('503', '503 Service Unavailable')][kind - 1]
    kw = {}
    title = kw['title'] = v.str('title') if v.choose(2, 'title?') else None
    description = kw['description'] = v.str('description') if v.choose(2, 'description?') else None
    code = kw['code'] = v.int('code') if v.choose(2, 'code?') else None
    href = kw['href'] = v.str('href') if v.choose(2, 'href?') else None
    href_text = kw['href_text'] = v.str('href_text') if v.choose(2, 'href_text?') else None
    headers = kw['headers'] = {'X-A': 'b'} if v.choose(2, 'headers?') else None
    out = v.call(err, status, **kw)
    v.check('no-exception', out.exc is None)
    if out.exc is not None:
        return
    g = lambda k: v.get(err, k)  # noqa: E731
    v.check('status-description-code-headers-stored', And(veq(g('status'), status) if kind == 0 else g('status') is status,
                                                          veq(g('description'), description), veq(g('code'), code), g('headers') is headers))
    if title is not None and Len(title) > 0:
        v.check('given-title-kept', g('title') == title)
    else:
        v.check('title-defaults-to-status-line', g('title') == line)
    if href is not None and Len(href) > 0:
        text = href_text if (href_text is not None and Len(href_text) > 0) else DEFAULT_LINK_TEXT
        v.check('link-built-from-href-and-href-text', dict_is(g('link'), {'text': text, 'href': uri_encode(v, href), 'rel': 'help'}))
        v.cover('link')
    else:
        v.check('no-link-without-href', g('link') is None)
        v.cover('no-link')
    # frame: the constructor stores the documented attributes on the new error and touches nothing it was given
    v.check('sets-exactly-the-documented-attributes', set(snapshot(err)) == {'status', 'title', 'description', 'headers', 'code', 'link'})
    v.check('given-headers-are-stored-not-modified', headers is None or list(headers.items()) == [('X-A', 'b')])
    v.cover('constructed')


@stubclass
class JsonH:
    """A media handler (BaseHandler): an opaque encoder that records what it is given."""

    def __pyvc_truth__(self):
        return True  # an ordinary object (no __bool__/__len__): always true, as for the real class

    def __init__(self, v, name='custom'):
        self.v = v
        self.name = name
        self.calls = []

    def serialize(self, media, content_type):
        import json

        tok = json.dumps(media).encode() if self.v.concrete else self.v.bytes('handler_bytes')
        self.calls.append((media, content_type, tok))
        return tok


def json_of(data):
    import json

    try:
        return json.loads(data)
    except Exception:
        return NotImplemented


@harness(PROP, HE + '.to_json', setup=_error_setup, inline=[HE + '.to_dict'])
def http_error_to_json(v):
    v.expect_covers('json', 'json-by-given-handler', 'json-by-default-handler')
    f = error_fields(v)
    err = mk_http_error(v, f)
    h = JsonH(v) if v.choose(2, 'handler-given?') else None
    err0 = snapshot(err)
    out = v.call(err, h)
    v.check('no-exception', out.exc is None)
    if out.exc is not None:
        return
    v.check('to-json-leaves-the-error-unchanged', same_fields(snapshot(err), err0))
    v.cover('json-by-given-handler' if h is not None else 'json-by-default-handler')
    exp = expected_dict(f)
    if h is not None:
        v.check('given-handler-encodes-exactly-the-dict-as-json', len(h.calls) == 1 and dict_is(h.calls[0][0], exp) and h.calls[0][1] == MEDIA_JSON and out.value is h.calls[0][2])
    elif v.concrete:
        v.check('default-json-handler-encodes-exactly-the-dict', veq(json_of(out.value), exp))
    else:
        calls = v.ctx.ghost.get('default_json', [])
        v.check('default-json-handler-encodes-exactly-the-dict', len(calls) == 1 and dict_is(calls[0][0], exp) and calls[0][1] == MEDIA_JSON and out.value is calls[0][2])
    v.cover('json')


XML_DECL = b'<?xml version="1.0" encoding="UTF-8"?>'


def expected_xml_shape(v, f):
    sh = [('title', f['title'], [])]
    if f['description'] is not None:
        sh.append(('description', f['description'], []))
    if f['code'] is not None:
        sh.append(('code', str(f['code']) if (v.concrete or not _sym(f['code'])) else v.interp.to_str(f['code']), []))
    if f['link'] is not None:
        sh.append(('link', None, [(k, f['link'][k], []) for k in ('text', 'href', 'rel')]))
    return sh


def shape_eq(a, b):
    if len(a) != len(b):
        return False
    return And(*[x[0] == y[0] and And(veq(x[1], y[1]), shape_eq(x[2], y[2])) for x, y in zip(a, b)])


def xml_doc_is(v, data, f):
    """`data` is the XML declaration followed by the encoding of <error> with exactly the expected children, in order."""
    if v.concrete:
        import xml.etree.ElementTree as et

        if not isinstance(data, bytes) or not data.startswith(XML_DECL):
            return False
        root = et.fromstring(data)

        def sh(e):
            return [(c.tag, (c.text or '') if len(c) == 0 else None, sh(c)) for c in e]

        exp = [(t, (x or '') if x is not None else None, c) for t, x, c in expected_xml_shape(v, f)]
        exp = [(t, x, [(ct, cx or '', cc) for ct, cx, cc in c]) for t, x, c in exp]
        return root.tag == 'error' and sh(root) == exp
    calls = v.ctx.ghost.get('xml', [])
    if len(calls) != 1:
        return False
    el, enc, tok = calls[0]
    return And(el.tag == 'error' and el.text is None and enc == 'utf-8', shape_eq(el.shape(), expected_xml_shape(v, f)), data == XML_DECL + tok)


@harness(PROP, HE + '._to_xml', setup=_error_setup)
def http_error_to_xml(v):
    v.expect_covers('xml')
    f = error_fields(v)
    err = mk_http_error(v, f)
    err0 = snapshot(err)
    link0 = None if f['link'] is None else dict(f['link'])
    out = v.call(err)
    v.check('no-exception', out.exc is None)
    if out.exc is not None:
        return
    v.check('to-xml-leaves-the-error-unchanged', same_fields(snapshot(err), err0) and (link0 is None or same_mapping(f['link'], link0)))
    v.check('xml-document-has-exactly-title-and-the-non-none-fields', xml_doc_is(v, out.value, f))
    v.cover('xml')



# ---------------------------------------------------------------------------
# default_serialize_error: negotiation decision table

DSE = 'falcon.app_helpers:default_serialize_error'


@stubclass
class NegReq:
    """falcon.Request as far as error negotiation uses it: Accept and client_prefers (contract of C11: None or one of the offers)."""

    def __init__(self, v):
        self.v = v
        self.accept = v.str('accept')
        self.offers = []

    def client_prefers(self, media_types):
        v = self.v
        offers = list(media_types)
        self.offers.append(offers)
        k = v.choose(len(offers) + 1, 'client-prefers')
        self.last = None if k == 0 else offers[k - 1]
        return self.last


@stubclass
class MediaHandlers:
    """resp.options.media_handlers: the registered media types (iteration) and the handler lookup."""

    def __init__(self, v, types):
        self.v = v
        self.types = types
        self.resolves = []
        self.handler = None

    def __iter__(self):
        return iter(self.types)

    def __pyvc_iter__(self):
        return list(self.types)

    def _resolve(self, media_type, default, raise_not_found=True):
        v = self.v
        self.resolves.append((media_type, default, raise_not_found))
        v.check('handler-lookup-for-an-error-cannot-raise', raise_not_found is False)
        self.handler = JsonH(v) if v.choose(2, 'handler-available?') else None
        return (self.handler, None, None)


@stubclass
class Options:
    def __init__(self, xml, handlers):
        self.xml_error_serialization = xml
        self.media_handlers = handlers


REGISTERED = [
    [],
    ['application/json', 'multipart/form-data', 'application/x-www-form-urlencoded'],
    ['application/yaml', 'application/xml', 'application/json', 'application/msgpack'],
]


def contains(s, sub):
    return s.contains(sub) if _sym(s) else (sub in s)


def default_serialize_error(v):
    unset = v.real('falcon._typing:_UNSET')
    xml = bool(v.choose(2, 'xml_error_serialization'))
    types = REGISTERED[v.choose(3, 'registered-media-types')]
    mh = MediaHandlers(v, types)
    req = NegReq(v)
    resp, H0 = mk_resp(v, with_body=False)
    v.set(resp, 'options', Options(xml, mh))
    f = error_fields(v)
    err = mk_http_error(v, f)
    v.expect_covers('json-suffix', 'xml-suffix', 'nothing-acceptable', 'json-with-handler', 'json-builtin', 'media-handler',
                    'xml-builtin' if xml else 'no-serializer')
    opts = v.get(resp, 'options')
    err0, resp0, req0, opts0, mh0, types0 = snapshot(err), snapshot(resp), snapshot(req), snapshot(opts), snapshot(mh), list(types)
    out = v.call(req, resp, err)
    v.check('no-exception', out.exc is None)
    if out.exc is not None:
        return
    # frames: serializing an error writes the body (data or media, with the rendered-media cache), Content-Type and Vary of
    # the response -- not its status, cookies or other fields; the error, the request, the response options and the app's
    # media-handler registry (its list of types included) are only read
    v.check('serializing-leaves-the-error-unchanged', same_fields(snapshot(err), err0))
    v.check('serializing-leaves-the-request-unchanged', same_fields({k: x for k, x in snapshot(req).items() if k != 'last'}, req0))  # (`last`: the stub's own note)
    v.check('serializing-leaves-options-and-media-handlers-unchanged',
            v.get(resp, 'options') is opts and same_fields(snapshot(opts), opts0) and same_fields(snapshot(mh), mh0, except_for=('handler',))
            and len(types) == len(types0) and all(a is b for a, b in zip(types, types0)))
    v.check('only-the-body-of-the-response-is-written-status-and-cookies-stay', same_fields(snapshot(resp), resp0, except_for=('_data', '_media', '_media_rendered')))
    H1 = map_of(v, resp)

    # what is offered to the client, in order: JSON first (wins ties), built-in XML only when enabled, then the app's own types
    predefined = [MEDIA_JSON, 'text/xml', MEDIA_XML] if xml else [MEDIA_JSON]
    v.check('offers-json-first-then-xml-if-enabled-then-registered-types',
            len(req.offers) == 1 and req.offers[0] == predefined + [t for t in types if t not in predefined])
    if len(req.offers) != 1:
        return
    preferred = req.last
    a = req.accept.lower()
    if preferred is None:
        if contains(a, '+json'):
            preferred = MEDIA_JSON
            v.cover('json-suffix')
        elif contains(a, '+xml'):
            preferred = MEDIA_XML
            v.cover('xml-suffix')
    vary = (H0.val('vary') + ', Accept') if H0.has('vary') else 'Accept'
    v.check('vary-accept-appended', And(H1.has('vary'), H1.val('vary') == vary))
    data, media, rendered = v.get(resp, '_data'), v.get(resp, '_media'), v.get(resp, '_media_rendered')
    v.check('text-untouched', v.get(resp, 'text') is None)
    if preferred is None:
        v.check('nothing-acceptable-no-body', data is None and media is None)
        v.check('nothing-acceptable-headers-only-gain-vary', H1.eq(H0.put('vary', vary)))
        v.check('nothing-acceptable-no-handler-lookup', len(mh.resolves) == 0)
        v.cover('nothing-acceptable')
        return
    v.check('handler-looked-up-for-the-preferred-type', len(mh.resolves) == 1 and mh.resolves[0][0] == preferred)
    if len(mh.resolves) != 1:
        return
    exp = expected_dict(f)
    h = mh.handler
    if preferred == MEDIA_JSON:
        if h is not None:
            ok = len(h.calls) == 1 and dict_is(h.calls[0][0], exp) and h.calls[0][1] == MEDIA_JSON and data is h.calls[0][2]
        elif v.concrete:
            ok = veq(json_of(data), exp)
        else:
            calls = v.ctx.ghost.get('default_json', [])
            ok = len(calls) == 1 and dict_is(calls[0][0], exp) and calls[0][1] == MEDIA_JSON and data is calls[0][2]
        v.check('json-body-is-the-encoding-of-to-dict', ok)
        v.check('json-body-leaves-media-unset', media is None)
        v.cover('json-with-handler' if h is not None else 'json-builtin')
    elif h is not None:
        v.check('configured-media-type-gets-to-dict-as-media', dict_is(media, exp) and rendered is unset)
        v.check('configured-media-type-leaves-data-unset', data is None and len(h.calls) == 0)
        v.cover('media-handler')
    elif xml:
        v.check('xml-body-is-the-encoding-of-the-error-fields', xml_doc_is(v, data, f))
        v.check('xml-body-leaves-media-unset', media is None)
        v.cover('xml-builtin')
    else:
        v.check('no-serializer-for-preferred-type-no-body', data is None and media is None)
        v.cover('no-serializer')
    v.check('content-type-is-the-negotiated-type-and-only-vary-else-changes', H1.eq(H0.put('content-type', preferred).put('vary', vary)))


for _x in (0, 1):
    for _r in (0, 1, 2):
        harness(PROP, DSE, name='default_serialize_error[xml=%d,registered=%d]' % (_x, _r), setup=_error_setup,
                inline=[HE + '.to_dict', HE + '.to_json', HE + '._to_xml'] + RESP_INLINE,
                fix={'xml_error_serialization': _x, 'registered-media-types': _r})(default_serialize_error)



# ---------------------------------------------------------------------------
# the default configuration end to end: App() as constructed, any raised exception, down to the response fields


@stubclass
class FullReq(NegReq):
    def __init__(self, v):
        NegReq.__init__(self, v)
        self.logged = []

    def log_error(self, msg):
        self.logged.append(msg)


def _chain_setup(reg, ex):
    _init_setup(reg, ex)
    _error_setup(reg, ex)
    _quiet_logger(reg, ex)


class Quit(BaseException):
    """Not derived from Exception (like KeyboardInterrupt): outside the property's promise."""


def default_chain(v, asgi):
    cls = v.real(AAPP if asgi else APP)
    app = v.obj(cls)
    built = v.call(app, target=(AAPP if asgi else APP) + '.__init__')
    if built.exc is not None:
        v.check('app-constructs', False)
        return
    req = FullReq(v)
    resp, H0 = mk_resp(v)
    # resp.options: the built-in XML serialization on or off; no / the default / a custom set of registered media types
    xml = bool(v.choose(2, 'xml_error_serialization'))
    v.set(resp, 'options', Options(xml, MediaHandlers(v, REGISTERED[v.choose(3, 'registered-media-types')])))
    HTTPNotFound, HTTPStatus = v.real('falcon:HTTPNotFound'), v.real('falcon:HTTPStatus')
    what = v.choose(4, 'raised')
    hdrs, pairs = None, []
    if what == 0:
        ex = mk_exc(v, Sub)
        status = '500 Internal Server Error'
        f = {'title': status, 'description': None, 'code': None, 'link': None}
    elif what == 1:
        status = v.str('err_status')
        # an HTTPError with all or none of its optional parts (every subset: the to_dict / default_serialize_error harnesses)
        if v.choose(2, 'optional-error-fields?'):
            f = {'title': v.str('title'), 'description': v.str('description'), 'code': v.int('code'),
                 'link': {'text': v.str('link_text'), 'href': v.str('link_href'), 'rel': 'help'}}
        else:
            f = {'title': v.str('title'), 'description': None, 'code': None, 'link': None}
        hdrs, pairs = plain_headers(v, 'err')
        ex = mk_exc(v, HTTPNotFound, status=status, headers=hdrs, **f)
    elif what == 2:
        status = v.str('st_status')
        hdrs, pairs = plain_headers(v, 'st')
        ex = mk_exc(v, HTTPStatus, status=status, headers=hdrs, text=v.str('st_text'))
    else:
        ex = mk_exc(v, Quit)
    v.expect_covers('status', 'status-with-headers', 'rendered', 'error-with-headers', 'json-500', 'json-error', 'not-handled',
                    'nothing-acceptable', 'media-handler', 'xml-builtin' if xml else 'no-serializer')
    hdrs0 = copy_container(hdrs)
    R = v.get(app, '_error_handlers')
    R0, app0, ex0, resp0 = dict(R), snapshot(app), snapshot(ex), snapshot(resp)
    out = v.call(app, req, resp, ex, {})
    # frames of the whole default chain: the registry the app was constructed with, the app, the raised exception, and every
    # response field that is not status / body (cookies, extra headers) survive the handling of an exception
    v.check('handling-leaves-the-registry-unchanged', v.get(app, '_error_handlers') is R and same_mapping(R, R0))
    v.check('handling-writes-no-app-state', same_fields(snapshot(app), app0))
    v.check('handling-leaves-the-raised-exception-unchanged', same_fields(snapshot(ex), ex0))
    v.check('only-body-status-and-headers-of-the-response-are-written', same_fields(snapshot(resp), resp0, except_for=BODY_FIELDS + ('status',)))
    if what == 3:
        v.check('non-exception-baseexception-is-not-handled-by-default', out.exc is None and out.value is False)
        v.cover('not-handled')
        return
    v.check('never-escapes-and-is-handled', out.exc is None and out.value is True)
    if out.exc is not None:
        return
    v.check('response-status-is-the-raised-status-or-500', v.get(resp, 'status') == status)
    data, media, text = v.get(resp, '_data'), v.get(resp, '_media'), v.get(resp, 'text')
    H1 = map_of(v, resp)
    # "its own status and HEADERS": what the raised HTTPStatus / HTTPError carries is on the response (and stays with the error)
    Hs = headers_after(H0, pairs)
    v.check('headers-container-of-the-raised-error-is-not-modified', same_container(hdrs, hdrs0))
    if what == 2:
        v.check('http-status-body-is-its-text', And(text == ex.text if v.concrete else text == ex.fields['text'], data is None, media is None, H1.eq(Hs)))
        v.cover('status-with-headers' if pairs else 'status')
        return
    v.check('previous-text-discarded', text is None)
    vary = (Hs.val('vary') + ', Accept') if Hs.has('vary') else 'Accept'
    v.check('vary-accept-appended', And(H1.has('vary'), H1.val('vary') == vary))
    preferred = req.last
    a = req.accept.lower()
    if preferred is None:
        preferred = MEDIA_JSON if contains(a, '+json') else (MEDIA_XML if contains(a, '+xml') else None)
    v.check('response-headers-are-the-errors-own-plus-vary-and-the-negotiated-content-type',
            H1.eq((Hs if preferred is None else Hs.put('content-type', preferred)).put('vary', vary)))
    if pairs:
        v.cover('error-with-headers')
    if preferred == MEDIA_JSON:
        h = v.get(resp, 'options').media_handlers.handler
        exp = expected_dict(f)
        if h is not None:
            ok = len(h.calls) == 1 and dict_is(h.calls[0][0], exp) and data is h.calls[0][2]
        elif v.concrete:
            ok = veq(json_of(data), exp)
        else:
            calls = v.ctx.ghost.get('default_json', [])
            ok = len(calls) == 1 and dict_is(calls[0][0], exp) and data is calls[0][2]
        v.check('json-body-encodes-title-and-description', And(ok, H1.has('content-type'), H1.val('content-type') == MEDIA_JSON))
        v.cover('json-500' if what == 0 else 'json-error')
    elif preferred is None:
        v.check('nothing-acceptable-no-body', data is None and media is None)
        v.cover('nothing-acceptable')
    elif v.get(resp, 'options').media_handlers.handler is not None:
        # "or, if the client prefers it, ... a configured media type": the document is handed over as media
        v.check('configured-media-type-gets-the-error-document-as-media', dict_is(media, expected_dict(f)) and data is None)
        v.cover('media-handler')
    elif xml:
        v.check('xml-body-is-the-encoding-of-the-error-fields', xml_doc_is(v, data, f) and media is None)
        v.cover('xml-builtin')
    else:
        v.check('no-serializer-for-preferred-type-no-body', data is None and media is None)
        v.cover('no-serializer')
    v.cover('rendered')


CHAIN_INLINE = [APP + '.add_error_handler', APP + '._find_error_handler', APP + '._compose_status_response', APP + '._compose_error_response',
                APP + '._http_status_handler', APP + '._http_error_handler', APP + '._python_error_handler', DSE,
                HE + '.to_dict', HE + '.to_json', HE + '._to_xml'] + RESP_INLINE


def wsgi_default_chain(v):
    default_chain(v, False)


def asgi_default_chain(v):
    default_chain(v, True)


for _x in (0, 1):  # (one harness per response-options configuration -- XML on/off x set of registered media types: run time)
    for _r in (0, 1, 2):
        _fix = {'xml_error_serialization': _x, 'registered-media-types': _r}
        harness(PROP, APP + '._handle_exception', name='wsgi_default_chain[xml=%d,registered=%d]' % (_x, _r), setup=_chain_setup, inline=CHAIN_INLINE,
                fix=_fix)(wsgi_default_chain)
        harness(PROP, AAPP + '._handle_exception', name='asgi_default_chain[xml=%d,registered=%d]' % (_x, _r), setup=_chain_setup,
                inline=CHAIN_INLINE + [APP + '.__init__', AAPP + '.add_error_handler', AAPP + '._http_status_handler', AAPP + '._http_error_handler',
                                       AAPP + '._python_error_handler'] + ASYNC_INLINE,
                fix=_fix)(asgi_default_chain)



KILLS = [
    ('falcon/app.py', "        for exc in type(ex).__mro__[:-1]:\n", "        for exc in reversed(type(ex).__mro__[:-1]):\n",
     '_find_error_handler#handler-of-nearest-registered-class-in-mro'),
    ('falcon/app.py', "            self._error_handlers[exc] = handler\n", "            self._error_handlers.setdefault(exc, handler)\n",
     'falcon.app:App.add_error_handler#latest-registration-per-class-wins'),
    ('falcon/app.py', "        resp.text = resp.data = resp.media = None\n        if err_handler is not None:\n            try:\n                err_handler(req, resp, ex, params)\n",
     "        if err_handler is not None:\n            try:\n                err_handler(req, resp, ex, params)\n                resp.text = resp.data = resp.media = None\n",
     'falcon.app:App._handle_exception#text-discarded-before-handler'),
    ('falcon/app.py', "            except HTTPError as error:\n                self._compose_error_response(req, resp, error)\n\n            return True\n",
     "            except HTTPError as error:\n                pass\n\n            return True\n", 'falcon.app:App._handle_exception#http-error-from-handler-serialized-once'),
    ('falcon/app.py', "        self.add_error_handler(HTTPStatus, self._http_status_handler)\n", "", 'App.__init__#http-status-handled-by-http-status-handler'),
    ('falcon/app_helpers.py', "        resp.content_type = preferred\n\n    resp.append_header('Vary', 'Accept')\n",
     "        resp.content_type = preferred\n\n        resp.append_header('Vary', 'Accept')\n", 'default_serialize_error#vary-accept-appended'),
    ('falcon/app.py', "        # handlers.\n        return False\n", "        # handlers.\n        return True\n", 'falcon.app:App._handle_exception#returns-false-when-no-handler'),
    ('falcon/asgi/app.py', "            resp.text = resp.data = resp.media = None\n", "            resp.text = resp.data = None\n",
     'falcon.asgi.app:App._handle_exception#media-discarded-before-handler'),
    ('falcon/http_error.py', "        if self.code is not None:\n            obj['code'] = self.code\n", "        if self.code:\n            obj['code'] = self.code\n",
     'HTTPError.to_dict#code-present-iff-not-none'),
    ('falcon/app_helpers.py', "        [MEDIA_JSON, 'text/xml', MEDIA_XML]\n", "        ['text/xml', MEDIA_XML, MEDIA_JSON]\n",
     'default_serialize_error#offers-json-first-then-xml-if-enabled-then-registered-types'),
    ('falcon/app.py', "        self._compose_error_response(req, resp, HTTPInternalServerError())\n",
     "        self._compose_error_response(req, resp, HTTPInternalServerError())\n        raise error\n", 'falcon.app:App._python_error_handler#never-re-raises'),
    ('falcon/app.py', "        resp.text = http_status.text\n", "        if http_status.text is not None:\n            resp.text = http_status.text\n",
     '_compose_status_response#text-copied'),
    # --- frames (audit: a post-condition silent about state lets a change that corrupts it verify)
    # the lookup marks the exception it resolved / keeps a hit counter on the app
    ('falcon/app.py', "            if handler is not None:\n                return handler\n        return None\n",
     "            if handler is not None:\n                ex.__handled_as__ = exc\n                return handler\n        return None\n",
     '_find_error_handler#lookup-leaves-the-exception-unchanged'),
    ('falcon/app.py', "            if handler is not None:\n                return handler\n        return None\n",
     "            if handler is not None:\n                self._error_handler_hits = getattr(self, '_error_handler_hits', 0) + 1\n                return handler\n        return None\n",
     '_find_error_handler#lookup-writes-no-other-app-state'),
    # the memo of the second seeding round, moved from the lookup to its call site
    ('falcon/app.py', "        err_handler = self._find_error_handler(ex)\n\n        # NOTE(caselit): Reset body, data and media before calling the handler\n        resp.text = resp.data = resp.media = None\n        if err_handler is not None:\n            try:\n", "        err_handler = self._find_error_handler(ex)\n\n        # NOTE(caselit): Reset body, data and media before calling the handler\n        resp.text = resp.data = resp.media = None\n        if err_handler is not None:\n            try:\n                self._error_handlers[type(ex)] = err_handler\n",
     'falcon.app:App._handle_exception#handling-leaves-the-registry-unchanged'),
    # cookies set so far are discarded together with the body
    ('falcon/app.py', "        resp.text = resp.data = resp.media = None\n        if err_handler is not None:\n", "        resp.text = resp.data = resp.media = resp._cookies = None\n        if err_handler is not None:\n",
     'falcon.app:App._handle_exception#only-body-status-and-headers-of-the-response-are-written'),
    # the status set so far is overwritten before the handler runs
    ('falcon/app.py', "        resp.text = resp.data = resp.media = None\n        if err_handler is not None:\n", "        resp.text = resp.data = resp.media = None\n        resp.status = '500 Internal Server Error'\n        if err_handler is not None:\n",
     'falcon.app:App._handle_exception#status-and-headers-survive-until-the-handler'),
    # the exception is exposed to the handler through the responder params / marked as handled / remembered on request and app
    ('falcon/app.py', "            try:\n                err_handler(req, resp, ex, params)\n            except HTTPStatus as status:", "            try:\n                params.setdefault('exception', ex)\n                err_handler(req, resp, ex, params)\n            except HTTPStatus as status:",
     'falcon.app:App._handle_exception#handling-leaves-the-params-unchanged'),
    ('falcon/app.py', "            try:\n                err_handler(req, resp, ex, params)\n            except HTTPStatus as status:", "            try:\n                ex.handled = True\n                err_handler(req, resp, ex, params)\n            except HTTPStatus as status:",
     'falcon.app:App._handle_exception#handling-leaves-the-raised-exception-unchanged'),
    ('falcon/app.py', "            try:\n                err_handler(req, resp, ex, params)\n            except HTTPStatus as status:", "            try:\n                req.last_error = ex\n                err_handler(req, resp, ex, params)\n            except HTTPStatus as status:",
     'falcon.app:App._handle_exception#handling-leaves-the-request-unchanged'),
    ('falcon/app.py', "            try:\n                err_handler(req, resp, ex, params)\n            except HTTPStatus as status:", "            try:\n                self._last_error = ex\n                err_handler(req, resp, ex, params)\n            except HTTPStatus as status:",
     'falcon.app:App._handle_exception#handling-writes-no-app-state'),
    # an unhandled exception already stamps a 500 on the response before it is re-raised to the caller
    ('falcon/app.py', "        # handlers.\n        return False\n", "        # handlers.\n        resp.status = '500 Internal Server Error'\n        return False\n",
     'falcon.app:App._handle_exception#status-and-headers-left-alone-when-no-handler'),
    # --- frames of a registration
    # registering any handler resets the error serializer to the default one
    ('falcon/app.py', "            self._error_handlers[exc] = handler\n", "            self._error_handlers[exc] = handler\n            self._serialize_error = helpers.default_serialize_error\n",
     'falcon.app:App.add_error_handler#registration-writes-nothing-but-the-registry'),
    # the handler is also planted on the (user-defined) exception class
    ('falcon/app.py', "            self._error_handlers[exc] = handler\n", "            self._error_handlers[exc] = handler\n            if exc.__module__ != 'builtins':\n                exc.__falcon_handler__ = handler\n",
     'falcon.app:App.add_error_handler#exception-classes-are-not-modified'),
    # the caller's list of classes is consumed
    ('falcon/app.py', "            exception_tuple = tuple(exception)  # type: ignore[arg-type]\n",
     "            exception_tuple = tuple(exception)  # type: ignore[arg-type]\n            if isinstance(exception, list):\n                exception.clear()\n",
     'falcon.app:App.add_error_handler#given-iterable-of-classes-is-not-modified'),
    # the handler callable is tagged
    ('falcon/app.py', "        for exc in exception_tuple:\n            if not issubclass(exc, BaseException):\n",
     "        handler._falcon_error_handler = True  # type: ignore[attr-defined]\n        for exc in exception_tuple:\n            if not issubclass(exc, BaseException):\n",
     'falcon.app:App.add_error_handler#given-handler-object-is-not-modified'),
    # --- frames of construction and rendering
    # one registry for every app of the process
    ('falcon/app.py', "        self._error_handlers = {}\n", "        self._error_handlers = helpers.__dict__.setdefault('_ERROR_HANDLERS', {})\n", 'App.__init__#registry-is-not-shared-between-apps'),
    # rendering an HTTPStatus consumes its headers (a pre-built status object raised twice loses them the second time)
    ('falcon/app.py', "        if http_status.headers is not None:\n            resp.set_headers(http_status.headers)\n",
     "        if http_status.headers is not None:\n            resp.set_headers(http_status.headers)\n            http_status.headers = None\n",
     '_compose_status_response#raised-http-status-is-not-modified'),
    # ... or drops the cookies set so far
    ('falcon/app.py', "        resp.text = http_status.text\n", "        resp.text = http_status.text\n        resp._cookies = None\n",
     '_compose_status_response#only-status-headers-and-text-of-the-response-are-written'),
    # rendering an HTTPError pops entries off the error's own headers dict / discards a stream set so far
    ('falcon/app.py', "        if error.headers is not None:\n            resp.set_headers(error.headers)\n",
     "        if error.headers is not None:\n            resp.set_headers(error.headers)\n            if isinstance(error.headers, dict):\n                error.headers.clear()\n",
     '_compose_error_response#raised-http-error-is-not-modified'),
    ('falcon/app.py', "        resp.status = error.status\n", "        resp.status = error.status\n        resp._extra_headers = None\n",
     '_compose_error_response#only-status-headers-and-the-serialized-body-of-the-response-are-written'),
    ('falcon/app.py', "        resp.status = error.status\n", "        resp.status = error.status\n        req.context_type = None\n",
     '_compose_error_response#app-and-request-are-not-modified'),
    # --- frames of the default handlers, HTTPError and the default serializer
    # "a 500 must not carry cookies": the python error handler drops them / empties the responder params / marks the request
    ('falcon/app.py', "        self._compose_error_response(req, resp, HTTPInternalServerError())\n", "        self._compose_error_response(req, resp, HTTPInternalServerError())\n        resp._cookies = None\n",
     'falcon.app:App._python_error_handler#only-status-text-and-the-serialized-body-of-the-response-are-written'),
    ('falcon/app.py', "        req.log_error(traceback.format_exc())\n", "        req.log_error(traceback.format_exc())\n        params.clear()\n",
     'falcon.app:App._python_error_handler#app-exception-and-params-are-not-modified'),
    ('falcon/app.py', "        req.log_error(traceback.format_exc())\n", "        req.log_error(traceback.format_exc())\n        req.unhandled_error = error\n",
     'falcon.app:App._python_error_handler#request-is-not-modified'),
    # to_dict fills one dict shared by all errors of the process / normalises the title in place
    ('falcon/http_error.py', "        obj = obj_type()\n", "        obj = misc.__dict__.setdefault('_error_dict', obj_type())\n",
     'HTTPError.to_dict#each-call-returns-a-new-dict'),
    ('falcon/http_error.py', "        obj['title'] = self.title\n", "        self.title = obj['title'] = self.title or self.status\n", 'HTTPError.to_dict#to-dict-leaves-the-error-unchanged'),
    # the constructor keeps an undocumented attribute / edits the headers dict it was given
    ('falcon/http_error.py', "        self.code = code\n", "        self.code = code\n        self.href = href\n", 'HTTPError.__init__#sets-exactly-the-documented-attributes'),
    ('falcon/http_error.py', "        self.headers = headers\n", "        self.headers = headers\n        if isinstance(headers, dict):\n            headers.setdefault('Vary', 'Accept')\n",
     'HTTPError.__init__#given-headers-are-stored-not-modified'),
    # to_json keeps the encoded document on the error; _to_xml keeps the element tree
    ('falcon/http_error.py', "        return handler.serialize(obj, MEDIA_JSON)\n", "        self._json = handler.serialize(obj, MEDIA_JSON)\n        return self._json\n",
     'HTTPError.to_json#to-json-leaves-the-error-unchanged'),
    ('falcon/http_error.py', "        error_element = et.Element('error')\n", "        error_element = self._xml_root = et.Element('error')\n",
     'HTTPError._to_xml#to-xml-leaves-the-error-unchanged'),
    # nothing acceptable: the serializer replaces the error's own status by 406
    ('falcon/app_helpers.py', "    if preferred is not None:\n        handler, _, _ = options.media_handlers._resolve(",
     "    if preferred is None:\n        resp.status = '406 Not Acceptable'\n\n    if preferred is not None:\n        handler, _, _ = options.media_handlers._resolve(",
     'default_serialize_error#only-the-body-of-the-response-is-written-status-and-cookies-stay'),
    # the lower-cased Accept header is written back to the request / XML is switched off after its first use / links are dropped
    ('falcon/app_helpers.py', "        accept = req.accept.lower()\n", "        accept = req.accept = req.accept.lower()\n", 'default_serialize_error#serializing-leaves-the-request-unchanged'),
    ('falcon/app_helpers.py', "            resp.data = exception._to_xml()\n", "            resp.data = exception._to_xml()\n            options.xml_error_serialization = False\n",
     'default_serialize_error#serializing-leaves-options-and-media-handlers-unchanged'),
    ('falcon/app_helpers.py', "    options = resp.options\n", "    options = resp.options\n    exception.link = None\n", 'default_serialize_error#serializing-leaves-the-error-unchanged'),
    # --- inputs that the harnesses used to fix to one constant (audit: "an input the code reads is a constant in the harness")
    # a default handler re-implements the composition "for speed" and forgets the headers the handled HTTPStatus / HTTPError
    # carries (the handler harnesses and the end-to-end chain used to raise errors without headers only)
    ('falcon/app.py', "        self._compose_status_response(req, resp, status)\n\n    def _http_error_handler(\n",
     "        resp.status = status.status\n        resp.text = status.text\n\n    def _http_error_handler(\n",
     'falcon.app:App._http_status_handler#own-headers-of-the-handled-error-copied-others-unchanged'),
    ('falcon/app.py', "        self._compose_error_response(req, resp, error)\n\n    def _python_error_handler(\n",
     "        resp.status = error.status\n        self._serialize_error(req, resp, error)\n\n    def _python_error_handler(\n",
     'falcon.app:App._handle_exception#response-headers-are-the-errors-own-plus-vary-and-the-negotiated-content-type'),
    # with the built-in XML serialization switched off (the chain used to run with it switched on only) an XML preference
    # without a handler loses its Content-Type
    ('falcon/app_helpers.py', "            resp.data = exception._to_xml()\n\n", "            resp.data = exception._to_xml()\n        else:\n            preferred = None\n\n",
     'falcon.app:App._handle_exception#response-headers-are-the-errors-own-plus-vary-and-the-negotiated-content-type'),
    # the error is serialized only onto a response without data (the compose harness used to start from an empty response only)
    ('falcon/app.py', "        self._serialize_error(req, resp, error)\n", "        if resp.data is None:\n            self._serialize_error(req, resp, error)\n",
     '_compose_error_response#serialization-delegated-once-to-configured-serializer'),
    # the title default skips the normalisation of the status argument (the constructor harness used to pass status lines only)
    ('falcon/http_error.py', "        self.title = title or misc.code_to_http_status(status)\n", "        self.title = title or str(status)\n",
     'HTTPError.__init__#title-defaults-to-status-line'),
    # the requested mapping type is ignored (to_dict used to be called without obj_type only)
    ('falcon/http_error.py', "        obj = obj_type()\n", "        obj = {}\n", 'HTTPError.to_dict#result-is-an-instance-of-the-requested-mapping-type'),
    # the legacy-signature shim no longer recognises (x, req, resp, params) (the one legacy handler used to be (ex, req, resp, params),
    # which triggers both tests of the shim at once)
    ('falcon/app.py', "        ) or arg_names[1:3] in (('req', 'resp'), ('request', 'response')):\n", "        ):\n",
     'falcon.app:App.add_error_handler#legacy-handler-called-with-reordered-arguments'),
    # ASGI: the coroutine guard is inverted (only callable objects and coroutine functions used to be registered)
    ('falcon/asgi/app.py', "        if not iscoroutinefunction(handler) and is_python_func(handler):\n", "        if iscoroutinefunction(handler) and not is_python_func(handler):\n",
     'falcon.asgi.app:App.add_error_handler#sync-python-function-rejected-for-an-asgi-app'),
]
HARMLESS = [
    ('falcon/app.py', "            handler = self._error_handlers.get(exc)\n\n            if handler is not None:\n                return handler\n",
     "            found = self._error_handlers.get(exc)\n\n            if found is not None:\n                return found\n"),
    ('falcon/app.py', "        err_handler = self._find_error_handler(ex)\n\n        # NOTE(caselit): Reset body, data and media before calling the handler\n        resp.text = resp.data = resp.media = None\n",
     "        resp.media = None\n        resp.data = None\n        resp.text = None\n        err_handler = self._find_error_handler(ex)\n"),
]

FINDINGS = [
    # refuted on the unchanged tree, replayed natively (also through simulate_request on both stacks):
    "falcon.app:App._compose_error_response#set-cookie-among-error-headers-does-not-escape and "
    "falcon.app:App._compose_status_response#set-cookie-among-status-headers-does-not-escape: an HTTPError / HTTPStatus whose "
    "headers contain Set-Cookie (any spelling; dict or list of pairs), e.g. `raise falcon.HTTPBadRequest(headers={'Set-Cookie': 'a=b'})`, "
    "is not rendered: Response.set_headers raises HeaderNotSupported (a ValueError) inside the default handler, it leaves "
    "_handle_exception and App.__call__ (WSGI and ASGI) and reaches the server instead of a 400 with that header.",
]
ASSUMPTIONS = [
    'exception class hierarchies are enumerated, not universally quantified: chains of 1..4 classes, a diamond, a join with a BaseException-only root, '
    'a class below the builtin chain LookupError/ValueError; every subset of {those classes, Exception, BaseException} as registry domain; every raised class',
    'application error handlers are opaque callables that return, raise an HTTPStatus, raise an HTTPError or raise another Exception',
    'headers of a raised HTTPError/HTTPStatus are None, a list of pairs or a dict with at most two entries; names arbitrary except Set-Cookie (own harness, see FINDINGS); str.lower is uninterpreted',
    'Request.client_prefers(offers) returns None or one of the offers (C11); media_handlers._resolve(t, default, raise_not_found=False) returns (handler or None, _, _) and does not raise',
    'media handler .serialize, JSONHandler._serialize_s (json.dumps + encode) and ElementTree.tostring are total, faithful encoders of what they are given '
    '(not total in fact for str with lone surrogates: UnicodeEncodeError would escape like the Set-Cookie case); uri.encode is an opaque deterministic function',
    'HTTPError status is a status line with a reason phrase: code_to_http_status returns it unchanged (C05)',
    'App.__init__: add_middleware and the constructors of the router / RequestOptions / ResponseOptions / CORSMiddleware / WebSocketOptions do not touch _error_handlers or _serialize_error (read, stubbed as no-ops)',
    'three configurations of registered media types; resp.options.xml_error_serialization both ways (default_serialize_error harnesses and the end-to-end chain alike)',
    'ASGI: FALCON_ASGI_WRAP_NON_COROUTINES is not set (falcon.util.sync._should_wrap_non_coroutines reads os.environ: the test-suite switch of falcon itself); '
    'registered handlers are coroutine callables, callable objects, or -- rejected -- a plain python function',
    # inputs found fixed by the audit and deliberately left fixed
    'default_serialize_error and the three default handlers are run on a response whose text / data / media have been cleared (mk_resp(with_body=False)): '
    'their only caller chain is _handle_exception, which clears them first (proved there and again by the end-to-end chain, which starts from a response with all '
    'three set); _compose_status_response / _compose_error_response themselves are run on both kinds of response',
    'the response status before the handling is the constant "200 OK" and the responder params are {"id": <opaque>}: none of the functions under contract reads either '
    '(they are overwritten resp. passed on; the frames compare them with what went in)',
    'App.__init__ is called with cors_enable both ways and every other argument at its default (media_type, request_type, response_type, middleware, router, '
    'independent_middleware, sink_before_static_route): none of them is read by the statements that build the handler registry / set the serializer (falcon/app.py:338-350, falcon/asgi/app.py:388-393)',
    'an error handler that raises raises an instance of exactly HTTPStatus / HTTPError (or the unrelated Boom): the except clauses of _handle_exception match by isinstance, subclasses '
    'differ only in their constructors (NOT_DECIDED); the end-to-end chain raises the subclass HTTPNotFound through the MRO lookup',
    'registered handlers are objects that are true (functions, callable objects without __bool__/__len__): _find_error_handler compares with None; a falsy callable is not modelled '
    '(the stub Tok declares no truth value, so a truth test on a handler would stop the run as unreached, not pass)',
    'HTTPError.__init__: the status argument is an arbitrary status line, or one sample each of an int code, an http.HTTPStatus member and a bare-code str; headers are stored only (dict or None)',
    'legacy (pre-3.0) handler signatures: each of the seven triggers of the shim alone plus (ex, req, resp, params); a current handler is (req, resp, ex, params, **kw)',
]
NOT_DECIDED = [
    'the four try windows of App.__call__ / asgi.App.__call__ (every raise site reaches _handle_exception; re-raise only when it returns False): C03 run',
    'escaping correctness of the JSON / XML bytes and of uri.encode(href)',
    'WebSocket branch (resp is None, ws given) of asgi _handle_exception and of the three handlers; _ws_disconnected_error_handler',
    'ASGI add_error_handler: an exception class whose default `handle` is a synchronous function (the explicit synchronous handler is decided: rejected)',
    'exceptions raised by collaborators of the default handlers (req.log_error, a custom error serializer, a custom JSON handler) propagate out of _handle_exception (scope note in DESIGN.md)',
    'constructors of the HTTPError / HTTPStatus subclasses in errors.py / redirects.py (which status/headers they carry)',
]
TRUSTED = [
    'stubs in contracts/C04_errors.py: Handler, LegacyHandler, Serializer, Req/NegReq/FullReq, MediaHandlers, Options, JsonH, XEl (element tree)',
    'local models: tuple(class) raises TypeError, warnings.warn / logging.Logger.error have no effect, inspect.iscoroutinefunction and falcon.util.misc.get_argnames / '
    'is_python_func run natively on concrete callables (parameter list of the def for interpreted methods), xml.etree Element/SubElement/tostring, uri.encode, code_to_http_status',
    'header map helpers Map / header_map / map_of (copied from C20)',
]
