"""C11 -- content negotiation and media-handler resolution follow the documented precedence.

Decided here, on the current source of
    falcon/util/mediatypes.py   _MediaRange.match_score, _MediaRange.parse, quality, best_match
    falcon/media/handlers.py    Handlers.__init__/__setitem__/__delitem__/copy/_create_resolver(.resolve), _best_match
    falcon/request.py           Request.client_accepts, Request.client_prefers (+ Request.accept)
    falcon/asgi/request.py      Request.accept (the override that the two inherited methods read on an ASGI request)
    <stdlib of the running interpreter>  collections.UserDict.__init__/__setitem__/__delitem__/__getitem__/
                                __contains__/__iter__/__len__, MutableMapping.pop/popitem/clear/update/setdefault
                                (their real source, located next to the running modules and checked against
                                the byte code that is actually loaded)

Specification, written from the documentation (docstring of `quality`, `best_match`, `Handlers.copy`,
the error message of `_MediaRange.parse`, the property statement):

    score(range, type) = NO MATCH                  if the main types differ and neither is '*',
                                                   or the subtypes differ and neither is '*',
                                                   or a parameter name present on both sides has different values
                       = (type exact, subtype exact, parameter names equal, |shared parameters|, q)   otherwise
    quality(type, header)   = q of the lexicographically maximal score over the header's ranges; 0.0 if none matches
    best_match(cands, hdr)  = the first candidate of maximal quality if that quality is > 0, '' otherwise

Cache coherence of `Handlers` is an epoch invariant over ghost state: `data_epoch` counts every write to
`self.data` (item store / delete, any dict mutator, rebinding the attribute); the resolver's `cache_epoch`
is set to the owner's `data_epoch` when the cache is created or `cache_clear()`-ed.  Invariant assumed at entry
and proved at exit of every public operation: the object's resolver is its own and cache_epoch == data_epoch.
Together with `resolve` being a function of (arguments, current self.data) -- proved separately -- a cached
answer always equals a fresh one.
"""
from __future__ import annotations

import ast
import builtins
import math
import sys
import types

from pyvc.core import And, ExcVal, Iff, Implies, Not, Or, Outcome, PyRaise, SStr, Unreached
from pyvc.harness import harness, stubclass
from pyvc.interp import Closure

PROP = 'C11'
MT_MOD = 'falcon.util.mediatypes'
MR = MT_MOD + ':_MediaRange'
MT = MT_MOD + ':_MediaType'
H_MOD = 'falcon.media.handlers'
HANDLERS = H_MOD + ':Handlers'
REQ = 'falcon.request:Request'


# ---------------------------------------------------------------------------
# helpers that work in both modes (symbolic exploration / concrete replay)


class patched:
    """Rebind a module-level name of the (overlay) module while the subject runs: an opaque dependency."""

    def __init__(self, v, module, name, value):
        self.mod = v.real(module)
        self.name = name
        self.value = value

    def __enter__(self):
        self.saved = self.mod.__dict__[self.name]
        setattr(self.mod, self.name, self.value)
        return self.value

    def __exit__(self, *a):
        setattr(self.mod, self.name, self.saved)
        return False


def mk_exc(cls, *args):
    """An exception value of the interpreted program whose identity the contract can observe."""
    return ExcVal(cls, args, real=cls(*args))


def throw(v, e):
    if v.concrete:
        raise e.real
    raise PyRaise(e)


def ident(x):
    return x.real if isinstance(x, ExcVal) and x.real is not None else x


def same_exc(a, b):
    return a is not None and b is not None and ident(a) is ident(b)


def touch(v, target):
    """Record a subject's source span in the evidence when it is reached without v.call."""
    if not v.concrete:
        v.closure(target)


# ---------------------------------------------------------------------------
# q values.  The negotiation code only *orders* q values (==, <, >, also against the literals 0.0 / 1.0)
# and passes them through, so a q is modelled as an integer number of thousandths (RFC 9110 qvalue has at
# most three decimals); `float()` can in addition produce nan / +inf / -inf, which _MediaRange.parse must reject.


class QV:
    """A float as this code sees it: a finite multiple of 1/1000 (symbolic), or nan / +inf / -inf."""

    __pyvc_symbolic__ = True
    __pyvc_stub__ = True

    def __init__(self, milli, kind='fin'):
        self.m = milli
        self.kind = kind

    def __pyvc_truth__(self):
        # bool(float): false exactly for zero (nan and the infinities are true)
        return (self.m != 0) if self.kind == 'fin' else True

    @staticmethod
    def lift(o):
        if isinstance(o, QV):
            return o
        if isinstance(o, bool) or not isinstance(o, (int, float)):
            return None
        if o != o:
            return QV(0, 'nan')
        if o == math.inf:
            return QV(0, '+inf')
        if o == -math.inf:
            return QV(0, '-inf')
        m = o * 1000
        if m != int(m):
            raise Unreached('comparison of a q value with %r (not a multiple of 1/1000)' % (o,))
        return QV(int(m))

    def _cmp(self, o, op):
        o = QV.lift(o)
        if o is None:
            return NotImplemented
        a, b = self, o
        if a.kind == 'nan' or b.kind == 'nan':
            return op == 'ne'
        rank = {'-inf': -1, 'fin': 0, '+inf': 1}
        ra, rb = rank[a.kind], rank[b.kind]
        if ra != rb or ra != 0:
            x, y = ra, rb
        else:
            x, y = a.m, b.m
        if op == 'eq':
            return x == y
        if op == 'ne':
            return x != y
        if op == 'lt':
            return x < y
        if op == 'le':
            return x <= y
        if op == 'gt':
            return x > y
        return x >= y

    def __eq__(self, o):
        return self._cmp(o, 'eq')

    def __ne__(self, o):
        return self._cmp(o, 'ne')

    def __lt__(self, o):
        return self._cmp(o, 'lt')

    def __le__(self, o):
        return self._cmp(o, 'le')

    def __gt__(self, o):
        return self._cmp(o, 'gt')

    def __ge__(self, o):
        return self._cmp(o, 'ge')

    __hash__ = object.__hash__

    def __repr__(self):
        return '<QV %s %s>' % (self.kind, self.m)


def mkq(v, name, lo=0, hi=1000):
    """A q value in [lo/1000, hi/1000] (None: unbounded on that side)."""
    n = v.int(name, lo, hi)
    return n / 1000.0 if v.concrete else QV(n)


def lex_gt(a, b):
    """a > b in the lexicographic order of equally long tuples (non-forking)."""
    res = False
    eq_prefix = True
    for x, y in zip(a, b):
        res = Or(res, And(eq_prefix, x > y))
        eq_prefix = And(eq_prefix, x == y)
    return res


def _dataclass_init(*names):
    """Model of a dataclass-generated __init__: assigns the fields in declaration order."""

    def init(I, self, *args, **kwargs):
        vals = dict(zip(names, args))
        vals.update(kwargs)
        if sorted(vals) != sorted(names):
            I.ctx.raise_py(TypeError, '__init__() arguments do not match the dataclass fields')
        for n in names:
            I.setattr(self, n, vals[n])
        return None

    return init


def _mediatypes_setup(reg, ex):
    import importlib

    m = importlib.import_module(MT_MOD)
    reg.add_model(m._MediaRange.__init__, _dataclass_init('main_type', 'subtype', 'quality', 'params'))
    reg.add_model(m._MediaType.__init__, _dataclass_init('main_type', 'subtype', 'params'))
    reg.add_model(math.isfinite, lambda I, x: (x.kind == 'fin') if isinstance(x, QV) else math.isfinite(x))
    reg.add_model(builtins.float, _float_model)


# ---------------------------------------------------------------------------
# _MediaRange.match_score == the documented specificity score

PKEYS = ('charset', 'version', 'profile')
# every subset of three parameter names, on each side independently (64 shapes; three shared names included)
PSETS = [(), ('charset',), ('version',), ('profile',), ('charset', 'version'), ('charset', 'profile'), ('version', 'profile'), ('charset', 'version', 'profile')]


def _params(v, side, names):
    return {k: v.str('%s_%s' % (side, k)) for k in names}


def match_score_spec(v):
    r_names = PSETS[v.choose(len(PSETS), 'range-params')]
    t_names = PSETS[v.choose(len(PSETS), 'type-params')]
    r_main, r_sub = v.str('r_main'), v.str('r_sub')
    t_main, t_sub = v.str('t_main'), v.str('t_sub')
    r_params, t_params = _params(v, 'r', r_names), _params(v, 't', t_names)
    q = mkq(v, 'q_milli')
    rng = v.obj(MR, main_type=r_main, subtype=r_sub, quality=q, params=r_params)
    typ = v.obj(MT, main_type=t_main, subtype=t_sub, params=t_params)

    out = v.call(rng, typ)
    v.check('no-exception', out.exc is None)
    if out.exc is not None:
        return

    # ---- the documentation, sentence by sentence ------------------------------------------------
    shared = [k for k in r_names if k in t_names]
    main_wild = Or(r_main == '*', t_main == '*')
    sub_wild = Or(r_sub == '*', t_sub == '*')
    main_clash = And(Not(main_wild), r_main != t_main)  # "The types must either match exactly, or as wildcard"
    sub_clash = And(Not(sub_wild), r_sub != t_sub)
    param_clash = Or(*[r_params[k] != t_params[k] for k in shared])  # "if parameter names match, the values must also be equal"
    no_match = Or(main_clash, sub_clash, param_clash)

    sentinel = v.real(MR)._NOT_MATCHING
    score = out.value
    v.check('score-is-a-5-tuple', isinstance(score, tuple) and len(score) == 5)
    if not (isinstance(score, tuple) and len(score) == 5):
        return
    is_sentinel = score is sentinel
    v.check('no-match-iff-types-or-subtypes-differ-without-wildcard-or-a-shared-parameter-differs', Iff(is_sentinel, no_match))
    if is_sentinel:
        # what `quality` relies on: the "no match" score sorts below every match and carries quality 0.0
        v.check('no-match-score-sorts-below-every-match', score[0] < 0)
        v.check('no-match-score-carries-quality-zero', score[4] == 0.0 and isinstance(score[4], float))
        v.cover('no-match')
        return
    v.check('component-1-main-type-exact-not-wildcard', score[0] == Ite01(Not(main_wild)))
    v.check('component-2-subtype-exact-not-wildcard', score[1] == Ite01(Not(sub_wild)))
    v.check('component-3-parameter-names-match-exactly', score[2] == (1 if set(r_names) == set(t_names) else 0))
    v.check('component-4-number-of-matching-parameters', score[3] == len(shared))
    v.check('component-5-is-the-quality-of-the-range', score[4] == q)
    v.cover('match')


def Ite01(c):
    from pyvc.core import Ite

    return Ite(c, 1, 0)


for _i, _names in enumerate(PSETS):
    harness(PROP, MR + '.match_score', name='match_score[range-params=%s]' % ('+'.join(_names) or 'none'), fix={'range-params': _i},
            setup=_mediatypes_setup)(match_score_spec)


# ---------------------------------------------------------------------------
# _MediaRange.parse: q validation


def _float_model(I, x=0.0):
    """float(text): the number the text denotes (the harness fixes the denotation), ValueError when it denotes none."""
    den = I.ctx.ghost.get('float-denotation', {}).get(id(x))
    if den is None:
        if isinstance(x, (int, float, str)) and not isinstance(x, SStr):
            try:
                return float(x)
            except ValueError as e:
                raise PyRaise(ExcVal(ValueError, e.args, real=e))
        raise Unreached('float() of %r: no denotation fixed by the harness' % (x,))
    kind, val = den
    if kind == 'not-a-number':
        I.ctx.raise_py(ValueError, 'could not convert string to float')
    return val


@stubclass
class ParseHeaderStub:
    """_parse_media_type_header(text): (main type, subtype, params) or InvalidMediaType -- tokenisation is opaque here."""

    def __init__(self, v, result=None, raised=None):
        self.v = v
        self.result = result
        self.raised = raised
        self.calls = []

    def __call__(self, text):
        self.calls.append(text)
        if self.raised is not None:
            throw(self.v, self.raised)
        return self.result


Q_KINDS = ['absent', 'not-a-number', 'finite', 'nan', '+inf', '-inf']


def q_text(v):
    """The text of a q parameter together with what float() makes of it."""
    kind = Q_KINDS[v.choose(len(Q_KINDS), 'q-text')]
    if kind == 'absent':
        return kind, None, None
    if kind == 'finite':
        n = v.int('q_milli')  # any finite value, negative and > 1 included
        val = n / 1000.0 if v.concrete else QV(n)
        text = repr(n / 1000.0) if v.concrete else None
    elif kind == 'not-a-number':
        val, text = None, 'high'
    else:
        val = float(kind.replace('+', '')) if v.concrete else QV(0, kind)
        text = kind.replace('+', '')
    if not v.concrete:
        text = v.str('q_text')
        v.ctx.ghost.setdefault('float-denotation', {})[id(text)] = (kind, val)
        v.ctx.ghost.setdefault('keep', []).append(text)
    return kind, text, val


@harness(PROP, MR + '.parse', setup=_mediatypes_setup)
def media_range_parse(v):
    cls = v.real(MR)
    InvalidMediaType = v.real('falcon.errors:InvalidMediaType')
    InvalidMediaRange = v.real('falcon.errors:InvalidMediaRange')
    text = 'the media range text'
    if v.choose(2, 'type/subtype?') == 0:
        stub = ParseHeaderStub(v, raised=mk_exc(InvalidMediaType, 'The media type value must contain type/subtype.'))
        with patched(v, MT_MOD, '_parse_media_type_header', stub):
            out = v.call(cls, text)
        v.check('range-without-type/subtype-raises-invalid-media-range', out.exc is not None and out.exc.isa(InvalidMediaRange))
        v.cover('not-a-media-type')
        return
    main, sub = v.str('main_type'), v.str('subtype')
    kind, qt, qval = q_text(v)
    other = v.str('charset_value') if v.choose(2, 'other-param?') else None
    params = {}
    if other is not None:
        params['charset'] = other
    if kind != 'absent':
        params['q'] = qt
    stub = ParseHeaderStub(v, result=(main, sub, params))
    with patched(v, MT_MOD, '_parse_media_type_header', stub):
        out = v.call(cls, text)
    v.check('header-parsed-exactly-once-from-the-given-text', len(stub.calls) == 1 and stub.calls[0] is text)

    # "If provided, the q parameter must be a real number in the range 0 through 1."
    if kind == 'absent':
        valid = True
    elif kind == 'finite':
        valid = And(qval >= 0.0, qval <= 1.0)
    else:
        valid = False
    v.check('invalid-media-range-iff-q-is-not-a-real-number-in-0..1', Iff(out.exc is not None, Not(valid)))
    if out.exc is not None:
        v.check('only-invalid-media-range-escapes', out.exc.isa(InvalidMediaRange) and out.exc.isa(ValueError))
        v.cover('q-rejected')
        return
    r = out.value
    is_range = isinstance(r, cls) or getattr(r, '_cls', None) is cls
    v.check('returns-a-media-range', is_range)
    if not is_range:
        return
    v.check('type-and-subtype-as-parsed', And(v.get(r, 'main_type') == main, v.get(r, 'subtype') == sub))
    got_q = v.get(r, 'quality')
    if kind == 'absent':
        v.check('absent-q-means-quality-1', got_q == 1.0)
        v.cover('q-absent')
    else:
        v.check('quality-is-the-given-q', got_q == qval)
        v.check('accepted-quality-is-within-0..1', And(got_q >= 0.0, got_q <= 1.0))
        v.cover('q-accepted')
    got_p = v.get(r, 'params')
    want = {'charset': other} if other is not None else {}
    v.check('q-is-not-a-media-type-parameter-and-the-others-are-kept',
            isinstance(got_p, dict) and sorted(got_p) == sorted(want) and And(*[got_p[k] == want[k] for k in want if k in got_p]))


# ---------------------------------------------------------------------------
# quality(media_type, header): q of the most specific matching range


@stubclass
class Parsed:
    """An opaque parsed media type (what _parse_media_type returns)."""

    def __init__(self, what):
        self.what = what


@stubclass
class RangeModel:
    """A parsed media range, observed through match_score only; its score is any value match_score's contract allows."""

    def __init__(self, v, i, sentinel):
        self.i = i
        self.asked = []
        self.matched = bool(v.choose(2, 'range%d-matches' % i))
        if self.matched:
            self.q = mkq(v, 'q%d' % i)
            self.score = (v.int('main%d' % i, 0, 1), v.int('sub%d' % i, 0, 1), v.int('exact%d' % i, 0, 1), v.int('nparams%d' % i, 0), self.q)
        else:
            self.q = None
            self.score = sentinel  # proved above: the class sentinel, below every match, quality component 0.0

    def match_score(self, media_type):
        self.asked.append(media_type)
        return self.score


@stubclass
class Opaque:
    """A module-level callable replaced by its contract: fixed result or fixed exception, calls recorded."""

    def __init__(self, v, fn):
        self.v = v
        self.fn = fn
        self.calls = []

    def __call__(self, *args):
        self.calls.append(args)
        return self.fn(*args)


def _quality_n(n):
    def quality_spec(v):
        InvalidMediaType = v.real('falcon.errors:InvalidMediaType')
        InvalidMediaRange = v.real('falcon.errors:InvalidMediaRange')
        sentinel = v.real(MR)._NOT_MATCHING
        media_type, header = 'the media type text', 'the header text'
        parsed = Parsed('media type')
        bad = v.choose(3, 'malformed') if n == 1 else 0  # 1: the media type, 2: the header
        e_type = mk_exc(InvalidMediaType, 'The media type value must contain type/subtype.')
        e_range = mk_exc(InvalidMediaRange, 'The media range value must contain type/subtype.')
        ranges = tuple(RangeModel(v, i, sentinel) for i in range(n)) if not bad else ()

        def parse_type(text):
            if bad == 1:
                throw(v, e_type)
            return parsed

        def parse_ranges(text):
            if bad == 2:
                throw(v, e_range)
            return ranges

        p_type, p_ranges = Opaque(v, parse_type), Opaque(v, parse_ranges)
        if v.concrete:
            v.real(MT_MOD + ':quality').cache_clear()
        with patched(v, MT_MOD, '_parse_media_type', p_type), patched(v, MT_MOD, '_parse_media_ranges', p_ranges):
            out = v.call(media_type, header)

        if bad:
            v.check('malformed-input-surfaces-as-the-documented-value-error', same_exc(out.exc, e_type if bad == 1 else e_range))
            v.cover('malformed')
            return
        v.check('no-exception', out.exc is None)
        if out.exc is not None:
            return
        v.check('parses-the-given-type-and-header', p_type.calls == [(media_type,)] and p_ranges.calls == [(header,)])
        v.check('every-range-is-scored-against-the-parsed-type', all(len(r.asked) == 1 and r.asked[0] is parsed for r in ranges))
        got = out.value
        matching = [r for r in ranges if r.matched]
        if not matching:
            v.check('no-matching-range-yields-quality-zero', got == 0.0)
            v.cover('nothing-matches')
            return
        # "Quality of the most specific media range matching the provided media_type"; criteria 1-4 in decreasing priority,
        # "(5) if two or more best matches are equally fit according to (1) through (4), the highest quality of these is returned"
        v.check('quality-is-q-of-the-most-specific-matching-range-highest-q-among-equals',
                Or(*[And(got == r.q, *[Not(lex_gt(o.score, r.score)) for o in matching]) for r in matching]))
        v.check('quality-is-within-0..1', And(got >= 0.0, got <= 1.0))
        v.cover('some-range-matches')

    return quality_spec


for _n in (1, 2, 3):
    harness(PROP, MT_MOD + ':quality', name='quality[ranges=%d]' % _n, setup=_mediatypes_setup)(_quality_n(_n))
harness(PROP, MT_MOD + ':quality', name='quality[ranges=4]', setup=_mediatypes_setup, tier='thorough', max_paths=100000)(_quality_n(4))


# ---------------------------------------------------------------------------
# best_match(media_types, header)

CANDS = ['application/x.cand0', 'application/x.cand1', 'application/x.cand2']


def _best_match_n(n):
    def best_match_spec(v):
        InvalidMediaType = v.real('falcon.errors:InvalidMediaType')
        InvalidMediaRange = v.real('falcon.errors:InvalidMediaRange')
        header = 'the header text'
        cands = CANDS[:n]
        # contract of quality (proved above): a q within 0..1, or InvalidMediaType (a bad candidate) / InvalidMediaRange (a bad header)
        outcome = []
        for i in range(n):
            k = v.choose(3, 'quality%d' % i)
            if k == 0:
                outcome.append(mkq(v, 'q%d' % i))
            else:
                outcome.append(mk_exc(InvalidMediaType, 'bad type') if k == 1 else mk_exc(InvalidMediaRange, 'bad range'))

        def quality(media_type, hdr):
            r = outcome[cands.index(media_type)]
            if isinstance(r, ExcVal):
                throw(v, r)
            return r

        qstub = Opaque(v, quality)
        # "media_types: An iterable over one or more Internet media types": a list, a tuple, or an iterator that can be consumed only once
        shape = v.choose(3, 'candidates-given-as')
        arg = [list(cands), tuple(cands), iter(list(cands))][shape]
        with patched(v, MT_MOD, 'quality', qstub):
            out = v.call(arg, header)

        v.check('quality-asked-only-for-the-given-candidates-and-header', all(len(c) == 2 and c[0] in cands and c[1] is header for c in qstub.calls))
        errs = [r for r in outcome if isinstance(r, ExcVal)]
        if errs:
            # "malformed ranges surface only as the documented value errors": the first failure propagates unchanged
            v.check('malformed-input-surfaces-as-the-documented-value-error', same_exc(out.exc, errs[0]))
            v.check('only-invalid-media-type-or-range-escapes', out.exc is not None and out.exc.isa(InvalidMediaType) and out.exc.isa(ValueError))
            v.cover('malformed')
            return
        v.check('no-exception', out.exc is None)
        if out.exc is not None:
            return
        got = out.value
        if n == 0:
            v.check('no-candidates-yields-empty-string', isinstance(got, str) and got == '')
            v.cover('no-candidates')
            return
        qs = outcome
        idx = [i for i in range(n) if isinstance(got, str) and got == cands[i]]
        v.check('returns-a-candidate-or-the-empty-string', bool(idx) or (isinstance(got, str) and got == ''))
        any_positive = Or(*[q > 0.0 for q in qs])
        # "an empty string if the provided header value does not match any of the given types"
        v.check('empty-string-iff-no-candidate-has-positive-quality', Iff(not idx, Not(any_positive)))
        if not idx:
            v.cover('nothing-acceptable')
            return
        c = idx[0]
        # "a candidate whose best range has q=0 or no matching range is never chosen"
        v.check('chosen-candidate-has-positive-quality', qs[c] > 0.0)
        # "Choose media type with the highest quality from a list of candidates"
        v.check('chosen-candidate-has-the-highest-quality', And(*[qs[j] <= qs[c] for j in range(n)]))
        v.check('ties-go-to-the-earlier-candidate', And(*[qs[j] < qs[c] for j in range(c)]))
        v.cover('chosen')

    return best_match_spec


for _n in (0, 1, 2, 3):
    harness(PROP, MT_MOD + ':best_match', name='best_match[candidates=%d]' % _n, setup=_mediatypes_setup)(_best_match_n(_n))


# ---------------------------------------------------------------------------
# Handlers: ghost state of the cache-coherence argument


class Ghost:
    """data_epoch per Handlers object; every write to its `data` is logged with the call stack that made it."""

    def __init__(self, v):
        self.v = v
        self.epochs = {}
        self.keep = []
        self.writes = []  # (owner, operation, functions active at the write)
        self.clears = []  # (lru, owner's data_epoch at the clear)
        self.lrus = []

    def epoch(self, owner):
        return self.epochs.get(id(owner), 0)

    def set_epoch(self, owner, e):
        self.keep.append(owner)
        self.epochs[id(owner)] = e

    def bump(self, owner, op):
        self.set_epoch(owner, self.epoch(owner) + 1)
        self.writes.append((owner, op, self.stack()))

    def stack(self):
        v = self.v
        if not v.concrete:
            return tuple(v.interp.active)
        names = []
        f = sys._getframe(2)
        while f is not None:
            names.append(f.f_code.co_qualname if hasattr(f.f_code, 'co_qualname') else f.f_code.co_name)
            f = f.f_back
        return tuple(reversed(names))


class GDict(dict):
    """The `data` dict of a Handlers object: a real dict whose every mutation bumps the owner's data_epoch."""

    __pyvc_symbolic__ = True
    __pyvc_stub__ = True

    def __init__(self, ghost, owner, items=()):
        dict.__init__(self, items)
        self.g = ghost
        self.owner = owner

    def __setitem__(self, k, val):
        dict.__setitem__(self, k, val)
        self.g.bump(self.owner, 'data[k] = v')

    def __delitem__(self, k):
        dict.__delitem__(self, k)  # KeyError: no write
        self.g.bump(self.owner, 'del data[k]')

    def _mut(name):
        def m(self, *a, **k):
            try:
                return getattr(dict, name)(self, *a, **k)
            finally:
                self.g.bump(self.owner, 'data.%s()' % name)

        return m

    pop = _mut('pop')
    popitem = _mut('popitem')
    clear = _mut('clear')
    update = _mut('update')
    setdefault = _mut('setdefault')
    __ior__ = _mut('__ior__')
    del _mut

    def copy(self):
        return dict(self)


class WatchedFields(dict):
    """Field record of an interpreted Handlers object: rebinding `data` is a write, and the new dict is observed too."""

    def __init__(self, ghost, owner, init):
        dict.__init__(self, init)
        self.g = ghost
        self.owner = owner

    def __setitem__(self, k, val):
        if k == 'data':
            val = _observe(self.g, self.owner, val)
            self.g.bump(self.owner, 'self.data = ...')
        dict.__setitem__(self, k, val)


def _observe(g, owner, val):
    if isinstance(val, GDict):
        if val.owner is not owner:
            raise Unreached('the data dict of one Handlers object is installed in another one (aliasing)')
        return val
    if type(val) is not dict:
        raise Unreached('Handlers.data rebound to %r' % (val,))
    return GDict(g, owner, val)


def watch(g, obj):
    """Attach the ghost to an interpreted object (symbolic mode)."""
    flds = obj.__dict__['_fields']
    if not isinstance(flds, WatchedFields):
        obj.__dict__['_fields'] = WatchedFields(g, obj, flds)
    return obj


def watched_class(v, g):
    """Concrete replay: a throw-away subclass of the real Handlers whose attribute store observes `data`."""
    base = v.real(HANDLERS)

    def __setattr__(self, name, val):
        if name == 'data':
            val = _observe(g, self, val)
            g.bump(self, 'self.data = ...')
        object.__setattr__(self, name, val)

    return type(base.__name__, (base,), {'__setattr__': __setattr__, '__module__': base.__module__})


@stubclass
class GhostLru:
    """functools.lru_cache wrapper: memoises per argument tuple until cache_clear(); exceptions are not memoised.

    Ghost: cache_epoch = the owner's data_epoch when the cache was last empty by construction (creation, cache_clear).
    """

    def __init__(self, g, owner, run=None):
        self.g = g
        self.owner = owner
        self.run = run  # args, kwargs -> result of the wrapped function
        self.memo = {}
        self.cache_epoch = g.epoch(owner)
        self.hits = 0
        g.lrus.append(self)

    def cache_clear(self):
        self.memo.clear()
        self.cache_epoch = self.g.epoch(self.owner)
        self.g.clears.append((self, self.cache_epoch))

    def __call__(self, *args, **kwargs):
        key = (args, tuple(sorted(kwargs.items())))
        if key in self.memo:
            self.hits += 1
            return self.memo[key]
        r = self.run(args, kwargs)
        self.memo[key] = r
        return r


class _LruDecorator:
    __pyvc_symbolic__ = True


def _lru_cache_model(I, *a, **k):
    """functools.lru_cache(maxsize=..)(fn) for the nested resolver: the ghost wrapper above around the interpreted function."""
    g = I.ctx.ghost.get('c11')
    if g is None:
        raise Unreached('lru_cache outside a Handlers harness')
    dec = _LruDecorator()
    g.keep.append(dec)

    def decorate(interp, fn):
        owner = fn.parent.lookup('self')
        return GhostLru(g, owner, run=lambda args, kwargs: interp.call(fn, list(args), dict(kwargs)))

    I.registry.decorators[id(dec)] = decorate
    return dec


def concrete_lru(g):
    """Concrete replay: stands in for falcon.util.misc._lru_cache_for_simple_logic."""

    def lru_cache(*a, **k):
        def decorate(fn):
            cells = dict(zip(fn.__code__.co_freevars, fn.__closure__ or ()))
            owner = cells['self'].cell_contents
            return GhostLru(g, owner, run=lambda args, kwargs: fn(*args, **kwargs))

        return decorate

    return lru_cache


# ---------------------------------------------------------------------------
# the mixin methods of the running interpreter's stdlib, interpreted from their real source

STDLIB_METHODS = [
    ('collections', 'UserDict', ['__init__', '__len__', '__getitem__', '__setitem__', '__delitem__', '__iter__', '__contains__']),
    ('_collections_abc', 'MutableMapping', ['pop', 'popitem', 'clear', 'update', 'setdefault']),
    ('_collections_abc', 'Mapping', ['get', '__contains__', 'keys', 'items', 'values']),
]
_STDLIB_CACHE = {}


def _code_of(code, parts):
    for p in parts:
        nxt = [c for c in code.co_consts if hasattr(c, 'co_code') and c.co_name == p]
        if not nxt:
            return None
        code = nxt[-1]
    return code


def _same_code(a, b):
    def consts(c):
        return tuple(x for x in c.co_consts if not hasattr(x, 'co_code'))

    return a.co_code == b.co_code and a.co_names == b.co_names and a.co_varnames == b.co_varnames and consts(a) == consts(b)


class _Mangle(ast.NodeTransformer):
    """Private name mangling inside a class body (language reference 6.2.1)."""

    def __init__(self, clsname):
        self.prefix = '_' + clsname.lstrip('_')

    def _m(self, name):
        return self.prefix + name if name.startswith('__') and not name.endswith('__') else name

    def visit_Attribute(self, n):
        self.generic_visit(n)
        n.attr = self._m(n.attr)
        return n

    def visit_Name(self, n):
        n.id = self._m(n.id)
        return n


def stdlib_function(modname, clsname, name):
    """(closure over the real source text, description, source-matches-loaded-code?) of a stdlib method."""
    key = (modname, clsname, name)
    if key in _STDLIB_CACHE:
        return _STDLIB_CACHE[key]
    import copy
    import hashlib
    import importlib

    mod = importlib.import_module(modname)
    cls = getattr(mod, clsname)
    fn = cls.__dict__[name]
    path = mod.__file__
    with open(path, encoding='utf-8') as f:
        src = f.read()
    tree = ast.parse(src, path)
    cnode = [n for n in tree.body if isinstance(n, ast.ClassDef) and n.name == clsname][-1]
    fnode = [n for n in cnode.body if isinstance(n, ast.FunctionDef) and n.name == name][-1]
    compiled = _code_of(compile(src, path, 'exec'), [clsname, name])
    ok = compiled is not None and _same_code(compiled, fn.__code__) and fnode.lineno + len(fnode.decorator_list) >= fn.__code__.co_firstlineno >= fnode.lineno - len(fnode.decorator_list) - 1
    seg = ast.get_source_segment(src, fnode) or ''
    node = _Mangle(clsname).visit(copy.deepcopy(fnode))
    cl = Closure(node, mod, '%s.%s' % (clsname, name), None, cls, modname)
    cl.defaults = (list(fn.__defaults__ or ()), dict(fn.__kwdefaults__ or {}))
    desc = {'function': '%s:%s.%s' % (modname, clsname, name), 'file': path, 'span': [fnode.lineno, fnode.end_lineno],
            'sha256': hashlib.sha256(seg.encode()).hexdigest(), 'decorators': [], 'stdlib': sys.version.split()[0]}
    _STDLIB_CACHE[key] = (cl, desc, ok, fn)
    return _STDLIB_CACHE[key]


def _interpret_stdlib(reg):
    """Every listed stdlib method, when called on an interpreted object, is executed from its source by the same executor."""
    mismatched = []
    for modname, clsname, names in STDLIB_METHODS:
        for name in names:
            cl, desc, ok, fn = stdlib_function(modname, clsname, name)
            if not ok:
                mismatched.append(desc['function'])

            def model(I, *a, _cl=cl, _desc=desc, **k):
                fu = getattr(I.registry, 'functions_used', None)
                if fu is None:
                    fu = I.registry.functions_used = {}
                fu[_desc['function']] = _desc
                return I.invoke(_cl, list(a), dict(k))

            reg.add_model(fn, model)
    reg.stdlib_mismatch = mismatched


def _handlers_setup(reg, ex):
    import functools

    _interpret_stdlib(reg)
    reg.add_model(functools.lru_cache, _lru_cache_model)
    reg.inline.update([HANDLERS + '.*', H_MOD + ':_best_match'])
    for k in ('falcon.media.json:JSONHandler', 'falcon.media.multipart:MultipartFormHandler', 'falcon.media.urlencoded:URLEncodedFormHandler'):
        reg.stubs[k + '.__init__'] = lambda I, self, *a, **kw: None  # the default handlers are opaque objects here

    def new_obj(interp, obj):
        g = interp.ctx.ghost.get('c11')
        cls = obj._cls
        if g is not None and isinstance(cls, type) and any(c.__module__ == H_MOD and c.__name__ == 'Handlers' for c in cls.__mro__):
            watch(g, obj)
            g.keep.append(obj)

    reg.obj_new_hook = new_obj


@stubclass
class Handler:
    """An opaque media handler (a value of the mapping)."""

    def __pyvc_truth__(self):
        # type invariant of the input (see ASSUMPTIONS): handler objects are truthy -- BaseHandler defines neither __bool__ nor __len__;
        # `if not handler` in _create_resolver relies on it
        return True

    def __bool__(self):
        return True

    def __init__(self, name, sync=False, ser=None, de=None):
        self.name = name
        # the two synchronous fast paths are independent attributes (a handler may offer either, both or none)
        if sync if ser is None else ser:
            self._serialize_sync = Handler(name + '.serialize-sync')
        if sync if de is None else de:
            self._deserialize_sync = Handler(name + '.deserialize-sync')

    def __repr__(self):
        return '<Handler %s>' % self.name


KEYS = ['application/json', 'application/x-yaml', 'text/csv']  # distinct names; a mapping only compares keys for equality


def ghost_of(v):
    g = Ghost(v)
    v.ctx.ghost['c11'] = g
    return g


def _app_subclass(base):
    """An application-defined subclass of Handlers that adds nothing (lives in the package's module so that it is interpreted)."""
    return type('TenantHandlers', (base,), {'__module__': base.__module__})


def mk_handlers(v, g, entries, cached=None, subclass=False):
    """A Handlers object in an arbitrary coherent state: cache_epoch == data_epoch == e0, resolver its own."""
    if v.concrete:
        cls = watched_class(v, g)
        if subclass:
            cls = _app_subclass(cls)
        h = cls.__new__(cls)
        object.__setattr__(h, 'data', GDict(g, h, entries))
    else:
        h = watch(g, v.obj(HANDLERS))
        if subclass:
            h.__dict__['_cls'] = _app_subclass(h.__dict__['_cls'])
            g.keep.append(h.__dict__['_cls'])
        dict.__setitem__(h.__dict__['_fields'], 'data', GDict(g, h, entries))
    e0 = v.int('epoch0', 0)
    g.set_epoch(h, e0)
    lru = GhostLru(g, h)
    if v.concrete:
        object.__setattr__(h, '_resolve', lru)
    else:
        dict.__setitem__(h.__dict__['_fields'], '_resolve', lru)
    return h, lru, e0


def method(v, o, name, *args, **kwargs):
    """o.name(*args) through the real attribute lookup (inherited stdlib methods included) -> Outcome."""
    if v.concrete:
        try:
            return Outcome(value=getattr(o, name)(*args, **kwargs))
        except Exception as e:  # noqa: BLE001
            return Outcome(exc=ExcVal(type(e), e.args, real=e))
    try:
        return Outcome(value=v.interp.call(v.interp.getattr(o, name), list(args), dict(kwargs)))
    except PyRaise as e:
        return Outcome(exc=e.exc)


def check_coherent(v, g, h, what=''):
    """The class invariant, clause by clause."""
    data = v.get(h, 'data')
    r = v.get(h, '_resolve')
    v.check('ghost-observes-the-data-dict' + what, isinstance(data, GDict) and data.owner is h)
    v.check('resolver-is-the-objects-own' + what, isinstance(r, GhostLru) and r.owner is h)
    if isinstance(r, GhostLru):
        v.check('cache-epoch-equals-data-epoch' + what, r.cache_epoch == g.epoch(h))


VIA = (HANDLERS + '.__setitem__', HANDLERS + '.__delitem__')


def writes_go_through_items(v, g, h):
    """Frame: every write to h.data happened inside Handlers.__setitem__ / Handlers.__delitem__."""
    if v.concrete:
        names = ('Handlers.__setitem__', 'Handlers.__delitem__')
    else:
        names = VIA
    return all(any(n in st for n in names) for owner, op, st in g.writes if owner is h)


def same_items(d, want):
    """dict `d` holds exactly the pairs of `want` (values by identity)."""
    return isinstance(d, dict) and sorted(d) == sorted(want) and all(d[k] is want[k] for k in want)


def _entries(v, n=None):
    """0..2 existing entries under the first keys of KEYS."""
    n = v.choose(3, 'entries') if n is None else n
    return [(KEYS[i], Handler('old%d' % i)) for i in range(n)]


def _pick_key(v, entries):
    """An existing key or a new one (a dict distinguishes nothing else)."""
    k = v.choose(len(entries) + 1, 'key')
    return (entries[k][0], True) if k < len(entries) else (KEYS[len(entries)], False)


@harness(PROP, HANDLERS + '.__setitem__', setup=_handlers_setup)
def handlers_setitem(v):
    g = ghost_of(v)
    entries = _entries(v)
    h, lru, e0 = mk_handlers(v, g, entries)
    key, existed = _pick_key(v, entries)
    new = Handler('new')
    out = v.call(h, key, new)
    v.check('no-exception', out.exc is None)
    want = dict(entries)
    want[key] = new
    v.check('stores-the-handler-and-keeps-every-other-entry', same_items(v.get(h, 'data'), want))
    v.check('mapping-was-written', g.epoch(h) != e0)
    v.check('resolver-cache-cleared-after-the-write', len(g.clears) >= 1 and g.clears[-1][0] is lru and g.clears[-1][1] == g.epoch(h))
    v.check('keeps-its-resolver', v.get(h, '_resolve') is lru)
    check_coherent(v, g, h)
    v.cover('replaced' if existed else 'added')


@harness(PROP, HANDLERS + '.__delitem__', setup=_handlers_setup)
def handlers_delitem(v):
    g = ghost_of(v)
    entries = _entries(v)
    h, lru, e0 = mk_handlers(v, g, entries)
    key, existed = _pick_key(v, entries)
    out = v.call(h, key)
    want = dict(entries)
    if existed:
        del want[key]
        v.check('no-exception', out.exc is None)
        v.check('mapping-was-written', g.epoch(h) != e0)
        v.check('resolver-cache-cleared-after-the-write', len(g.clears) >= 1 and g.clears[-1][0] is lru and g.clears[-1][1] == g.epoch(h))
        v.cover('deleted')
    else:
        v.check('missing-key-raises-key-error', out.exc is not None and out.exc.isa(KeyError))
        v.cover('missing')
    v.check('removes-exactly-that-entry', same_items(v.get(h, 'data'), want))
    v.check('keeps-its-resolver', v.get(h, '_resolve') is lru)
    check_coherent(v, g, h)


def _construct(v, g, initial):
    """Handlers(initial) -> Outcome whose value is the new object (both modes)."""
    if v.concrete:
        cls = watched_class(v, g)
        with patched(v, 'falcon.util.misc', '_lru_cache_for_simple_logic', concrete_lru(g)):
            try:
                return Outcome(value=cls(initial))
            except Exception as e:  # noqa: BLE001
                return Outcome(exc=ExcVal(type(e), e.args, real=e))
    h = watch(g, v.obj(HANDLERS))
    out = v.call(h, initial, target=HANDLERS + '.__init__')
    return Outcome(value=h) if out.exc is None else out


DEFAULTS = {'application/json': 'falcon.media.json:JSONHandler', 'multipart/form-data': 'falcon.media.multipart:MultipartFormHandler',
            'application/x-www-form-urlencoded': 'falcon.media.urlencoded:URLEncodedFormHandler'}


def _is_instance(v, o, dotted):
    cls = v.real(dotted)
    return isinstance(o, cls) or getattr(o, '_cls', None) is cls


@harness(PROP, HANDLERS + '.__init__', setup=_handlers_setup)
def handlers_init(v):
    touch(v, HANDLERS + '.__setitem__')
    touch(v, HANDLERS + '._create_resolver')
    g = ghost_of(v)
    # None, {}, a dict of one / two entries; "initial: Optional[Mapping]": a read-only Mapping that is not a dict, holding
    # two entries (4) or none (5: falsy like {}, so the defaults apply)
    k = v.choose(6, 'initial')
    if k <= 3:
        initial = None if k == 0 else dict(_entries(v, k - 1))
        given = initial
    else:
        given = dict(_entries(v, 2 if k == 4 else 0))
        initial = types.MappingProxyType(given)
    out = _construct(v, g, initial)
    v.check('no-exception', out.exc is None)
    if out.exc is not None:
        return
    h = out.value
    data = v.get(h, 'data')
    if k in (2, 3, 4):
        v.check('holds-exactly-the-given-handlers', same_items(data, given))
        v.check('does-not-alias-the-given-mapping', data is not initial and data is not given)
        v.cover('given')
    else:
        v.check('defaults-are-json-multipart-urlencoded',
                isinstance(data, dict) and sorted(data) == sorted(DEFAULTS) and all(_is_instance(v, data[t], DEFAULTS[t]) for t in DEFAULTS if t in data))
        v.cover('defaults')
    item_writes = [(o, op, st) for o, op, st in g.writes if o is h and op != 'self.data = ...']
    v.check('every-initial-entry-went-through-setitem', len(item_writes) == len(data) and all(any('Handlers.__setitem__' in fn for fn in st) for o, op, st in item_writes))
    check_coherent(v, g, h)


def _copy(v, g, h):
    if v.concrete:
        with patched(v, 'falcon.util.misc', '_lru_cache_for_simple_logic', concrete_lru(g)):
            return v.call(h, target=HANDLERS + '.copy')
    return v.call(h, target=HANDLERS + '.copy')


@harness(PROP, HANDLERS + '.copy', setup=_handlers_setup)
def handlers_copy(v):
    for fn in ('.__init__', '.__setitem__', '._create_resolver'):
        touch(v, HANDLERS + fn)
    g = ghost_of(v)
    entries = _entries(v)
    # "In the unlikely case we are dealing with a subclass, return the matching type": the object is a Handlers or an
    # instance of an application subclass that adds nothing
    sub = bool(v.choose(2, 'subclass?'))
    h, lru, e0 = mk_handlers(v, g, entries, subclass=sub)
    out = _copy(v, g, h)
    v.check('no-exception', out.exc is None)
    if out.exc is not None:
        return
    c = out.value
    v.check('copy-is-a-distinct-object-of-the-same-type', c is not h and (type(c) is type(h) if v.concrete else getattr(c, '_cls', None) is h._cls))
    if c is h:
        return
    # "The resulting copy contains the same keys and values, but it can be customized separately without affecting the original object."
    v.check('copy-contains-the-same-keys-and-values', same_items(v.get(c, 'data'), dict(entries)))
    v.check('copy-has-its-own-data-dict', v.get(c, 'data') is not v.get(h, 'data'))
    v.check('copy-has-its-own-resolver', v.get(c, '_resolve') is not lru)
    check_coherent(v, g, c, what='[copy]')
    v.check('original-unchanged', same_items(v.get(h, 'data'), dict(entries)) and g.epoch(h) == e0 and v.get(h, '_resolve') is lru)
    check_coherent(v, g, h, what='[original]')
    v.cover('copied')


# ---------------------------------------------------------------------------
# the inherited mutators (MutableMapping mixins, executed from the stdlib's source)


def _mixin_world(v):
    touch(v, HANDLERS + '.__setitem__')
    touch(v, HANDLERS + '.__delitem__')
    g = ghost_of(v)
    entries = _entries(v)
    h, lru, e0 = mk_handlers(v, g, entries)
    if not v.concrete:
        v.check('stdlib-source-text-is-the-loaded-byte-code', not v.registry.stdlib_mismatch)
    return g, entries, h, lru, e0


def _mixin_post(v, g, h, lru, e0, want, changed):
    v.check('mapping-content-as-documented-for-dict', same_items(v.get(h, 'data'), want))
    v.check('writes-data-only-through-setitem-and-delitem', writes_go_through_items(v, g, h))
    v.check('unchanged-mapping-is-not-written' if not changed else 'changed-mapping-was-written', (g.epoch(h) == e0) if not changed else (g.epoch(h) != e0))
    v.check('keeps-its-resolver', v.get(h, '_resolve') is lru)
    check_coherent(v, g, h)


@harness(PROP, HANDLERS + '.pop', setup=_handlers_setup)
def handlers_pop(v):
    g, entries, h, lru, e0 = _mixin_world(v)
    key, existed = _pick_key(v, entries)
    has_default = bool(v.choose(2, 'default-given'))
    default = Handler('default')
    out = method(v, h, 'pop', key, default) if has_default else method(v, h, 'pop', key)
    want = dict(entries)
    if existed:
        v.check('returns-the-removed-handler', out.exc is None and out.value is want[key])
        del want[key]
        v.cover('popped')
    elif has_default:
        v.check('missing-key-returns-the-default', out.exc is None and out.value is default)
    else:
        v.check('missing-key-raises-key-error', out.exc is not None and out.exc.isa(KeyError))
    _mixin_post(v, g, h, lru, e0, want, existed)


@harness(PROP, HANDLERS + '.popitem', setup=_handlers_setup)
def handlers_popitem(v):
    g, entries, h, lru, e0 = _mixin_world(v)
    out = method(v, h, 'popitem')
    want = dict(entries)
    if entries:
        ok = out.exc is None and isinstance(out.value, tuple) and len(out.value) == 2 and out.value[0] in want and out.value[1] is want[out.value[0]]
        v.check('returns-a-pair-of-the-mapping', ok)
        if not ok:
            return
        del want[out.value[0]]
        v.cover('popped')
    else:
        v.check('empty-mapping-raises-key-error', out.exc is not None and out.exc.isa(KeyError))
    _mixin_post(v, g, h, lru, e0, want, bool(entries))


@harness(PROP, HANDLERS + '.clear', setup=_handlers_setup)
def handlers_clear(v):
    g, entries, h, lru, e0 = _mixin_world(v)
    out = method(v, h, 'clear')
    v.check('no-exception', out.exc is None)
    _mixin_post(v, g, h, lru, e0, {}, bool(entries))
    v.cover('cleared')


@harness(PROP, HANDLERS + '.update', setup=_handlers_setup)
def handlers_update(v):
    g, entries, h, lru, e0 = _mixin_world(v)
    shape = v.choose(4, 'other')  # a dict, a list of pairs, keyword arguments, another Handlers-like mapping with keys()
    n = v.choose(3, 'other-size')
    first = v.choose(2, 'other-overlaps') if entries and n else 0
    keys = ([KEYS[0]] if first else []) + [k for k in reversed(KEYS) if k not in [e[0] for e in entries]]
    pairs = [(keys[i], Handler('upd%d' % i)) for i in range(min(n, len(keys)))]
    if shape == 0:
        out = method(v, h, 'update', dict(pairs))
    elif shape == 1:
        out = method(v, h, 'update', list(pairs))
    elif shape == 2:
        kw = {'kw%d' % i: p[1] for i, p in enumerate(pairs)}
        pairs = list(kw.items())
        out = method(v, h, 'update', **kw)
    else:
        out = method(v, h, 'update', KeysOnly(dict(pairs)))
    v.check('no-exception', out.exc is None)
    want = dict(entries)
    want.update(dict(pairs))
    _mixin_post(v, g, h, lru, e0, want, bool(pairs))
    v.cover('updated')


@stubclass
class KeysOnly:
    """Not a Mapping, but has keys() and item access (the second branch of MutableMapping.update)."""

    def __init__(self, d):
        self.d = d

    def keys(self):
        return list(self.d)

    def __getitem__(self, k):
        return self.d[k]

    def __pyvc_getitem__(self, k):
        return self.d[k]


@harness(PROP, HANDLERS + '.setdefault', setup=_handlers_setup)
def handlers_setdefault(v):
    g, entries, h, lru, e0 = _mixin_world(v)
    key, existed = _pick_key(v, entries)
    default = Handler('default')
    out = method(v, h, 'setdefault', key, default)
    want = dict(entries)
    if existed:
        v.check('existing-key-returns-its-handler', out.exc is None and out.value is want[key])
    else:
        want[key] = default
        v.check('missing-key-stores-and-returns-the-default', out.exc is None and out.value is default)
        v.cover('stored')
    _mixin_post(v, g, h, lru, e0, want, not existed)


def _stores_to_data(fnode):
    """Syntactic: does this method store to / delete from / rebind `<x>.data`, or call a mutator on it?"""
    hits = []
    for n in ast.walk(fnode):
        tgts = []
        if isinstance(n, ast.Assign):
            tgts = n.targets
        elif isinstance(n, (ast.AugAssign, ast.AnnAssign)):
            tgts = [n.target]
        elif isinstance(n, ast.Delete):
            tgts = n.targets
        for t in tgts:
            base = t.value if isinstance(t, ast.Subscript) else t
            if isinstance(base, ast.Attribute) and base.attr == 'data':
                hits.append(ast.unparse(t))
            if isinstance(t, ast.Subscript) and isinstance(t.slice, ast.Constant) and t.slice.value == 'data':
                hits.append(ast.unparse(t))
        if isinstance(n, ast.Call) and isinstance(n.func, ast.Attribute) and isinstance(n.func.value, ast.Attribute) and n.func.value.attr == 'data' \
                and n.func.attr in ('pop', 'popitem', 'clear', 'update', 'setdefault', '__setitem__', '__delitem__'):
            hits.append(ast.unparse(n.func))
    return hits


# methods of the UserDict / MutableMapping / Mapping family that touch `.data` directly, and why each is harmless or out of scope
DIRECT_WRITERS = {
    'UserDict.__init__': 'self.data = {} on a fresh object, then update() through __setitem__ (proved: Handlers.__init__)',
    'UserDict.__setitem__': 'only reached through Handlers.__setitem__ (super call), which clears the cache',
    'UserDict.__delitem__': 'only reached through Handlers.__delitem__ (super call), which clears the cache',
    'UserDict.__ior__': 'BOUNDARY: `handlers |= other` writes self.data directly and bypasses Handlers.__setitem__; `|=` is not in the operation list of the property',
    'UserDict.__copy__': 'copy.copy(handlers): builds a new object sharing _resolve with the original -- not in the operation list (Handlers.copy is)',
    'UserDict.copy': 'overridden by Handlers.copy',
}


@harness(PROP, HANDLERS + '.__ior__', name='userdict_direct_writers')
def userdict_direct_writers(v):
    """Syntactic scan of the running stdlib: which inherited methods write `.data` without going through self[key]."""
    import importlib

    found = {}
    for modname, clsname in (('collections', 'UserDict'), ('_collections_abc', 'MutableMapping'), ('_collections_abc', 'Mapping'),
                             ('_collections_abc', 'Collection'), ('_collections_abc', 'Sized'), ('_collections_abc', 'Iterable'), ('_collections_abc', 'Container')):
        mod = importlib.import_module(modname)
        with open(mod.__file__, encoding='utf-8') as f:
            tree = ast.parse(f.read())
        cnode = [n for n in tree.body if isinstance(n, ast.ClassDef) and n.name == clsname][-1]
        for fn in cnode.body:
            if isinstance(fn, ast.FunctionDef):
                hits = _stores_to_data(fn)
                if hits:
                    found['%s.%s' % (clsname, fn.name)] = hits
    real = v.real(HANDLERS)
    v.check('handlers-inherits-only-from-userdict', [c.__name__ for c in real.__mro__] == ['Handlers', 'UserDict', 'MutableMapping', 'Mapping', 'Collection', 'Sized', 'Iterable', 'Container', 'object'])
    v.check('direct-writers-of-data-in-the-stdlib-are-the-catalogued-ones', sorted(found) == sorted(DIRECT_WRITERS))
    v.check('handlers-overrides-the-two-item-writers-and-copy', all(n in real.__dict__ for n in ('__setitem__', '__delitem__', 'copy')))
    v.cover('scanned')


# ---------------------------------------------------------------------------
# resolve(media_type, default, raise_not_found): a function of its arguments and the *current* self.data


@stubclass
class BestMatchContract:
    """mediatypes.best_match(candidates, header) as proved above: '' or one of the candidates, or InvalidMediaType (a ValueError)."""

    def __init__(self, v, fixed=None):
        self.v = v
        self.calls = []
        self.result = None
        self.raised = None
        self.fixed = fixed

    def __call__(self, media_types, header):
        v = self.v
        self.calls.append((media_types, header))
        # anything but a list / tuple of candidates is a caller error (flagged by the caller's clause on `calls`)
        cands = list(media_types) if isinstance(media_types, (list, tuple)) else []
        if self.fixed is not None:
            self.result = self.fixed
            return self.result
        k = v.choose(len(cands) + 2, 'best_match-result')
        if k < len(cands):
            self.result = cands[k]
        elif k == len(cands):
            self.result = ''
        else:
            self.raised = mk_exc(v.real('falcon.errors:InvalidMediaType'), 'The media type value must contain type/subtype.')
            throw(v, self.raised)
        return self.result


def run_fn(v, fn, *args, **kwargs):
    """Run a contract-side callable that executes subject code (GhostLru.run / a resolver) -> Outcome."""
    try:
        return Outcome(value=fn(*args, **kwargs))
    except PyRaise as e:
        return Outcome(exc=e.exc)
    except Exception as e:  # noqa: BLE001
        if not v.concrete:
            raise
        return Outcome(exc=ExcVal(type(e), e.args, real=e))


def _make_resolver(v, g, h):
    if v.concrete:
        with patched(v, 'falcon.util.misc', '_lru_cache_for_simple_logic', concrete_lru(g)):
            return v.call(h, target=HANDLERS + '._create_resolver')
    return v.call(h, target=HANDLERS + '._create_resolver')


def handlers_resolve(v):
    touch(v, H_MOD + ':_best_match')
    H415 = v.real('falcon.errors:HTTPUnsupportedMediaType')
    g = ghost_of(v)
    h, lru0, e0 = mk_handlers(v, g, [])
    made = _make_resolver(v, g, h)
    ok = made.exc is None and isinstance(made.value, GhostLru)
    v.check('create-resolver-returns-an-lru-cached-function-of-this-object', ok and made.value.owner is h and made.value is not lru0)
    if not ok:
        return
    resolver = made.value
    # the mapping is filled only now: the resolver must read the mapping as it is when asked, not as it was when built
    n = v.choose(3, 'entries')
    entries = [(KEYS[i], Handler('handler%d' % i, ser=bool(v.choose(2, 'serialize-sync%d' % i)), de=bool(v.choose(2, 'deserialize-sync%d' % i)))) for i in range(n)]
    data = v.get(h, 'data')
    for k, hd in entries:
        data[k] = hd
    e1 = g.epoch(h)
    keys = [k for k, _ in entries]

    mt_kind = v.choose(2, 'media-type-given')
    media_type = v.str('media_type') if mt_kind else None
    default = v.str('default')
    rnf = v.choose(3, 'raise_not_found')  # omitted (True), True, False
    args = (media_type, default) + (() if rnf == 0 else (rnf == 1,))
    bm = BestMatchContract(v)
    with patched(v, MT_MOD, 'best_match', bm):
        out = run_fn(v, resolver.run, args, {})

    # ---- specification -----------------------------------------------------------------------
    # "falling back to the default type for a missing or */* type"
    missing = True if media_type is None else Or(media_type == '', media_type == '*/*')
    if missing:
        eff = default
        v.cover('fell-back-to-default')
    else:
        eff = media_type
    exact = [eff == k for k in keys]
    hit = Or(*exact)
    v.check('matcher-consulted-exactly-when-there-is-no-exact-key', Iff(hit, len(bm.calls) == 0) and len(bm.calls) <= 1)
    if hit:
        v.check('exact-key-designates-the-handler', out.exc is None and And(*[Implies(e, out.value[0] is hd) for e, (k, hd) in zip(exact, entries)]))
        chosen = out.value[0] if out.exc is None else None
        v.cover('exact')
    else:
        if len(bm.calls) != 1:
            return
        cands, header = bm.calls[0]
        v.check('matcher-sees-the-current-keys-and-the-effective-type', isinstance(cands, tuple) and list(cands) == keys and And(header == eff))
        if bm.raised is None and bm.result:
            want = dict(entries)[bm.result]
            v.check('matched-key-designates-the-handler', out.exc is None and out.value[0] is want)
            chosen = want
            v.cover('matched')
        else:
            chosen = None
            if rnf in (0, 1):
                v.check('no-designated-handler-is-a-415', out.exc is not None and out.exc.isa(H415))
                v.cover('415')
            else:
                v.check('no-designated-handler-yields-three-nones', out.exc is None and out.value == (None, None, None))
                v.cover('nothing')
    if chosen is not None and out.exc is None:
        v.check('returns-handler-with-its-sync-fast-paths',
                isinstance(out.value, tuple) and len(out.value) == 3 and out.value[1] is getattr(chosen, '_serialize_sync', None)
                and out.value[2] is getattr(chosen, '_deserialize_sync', None))
    # purity
    v.check('resolving-does-not-write-the-mapping', g.epoch(h) == e1 and same_items(v.get(h, 'data'), dict(entries)))
    v.check('resolving-does-not-touch-the-resolver-or-clear-its-cache', v.get(h, '_resolve') is lru0 and not g.clears)


# one variant per mapping size (the split only spreads the paths over the cores)
for _n in (0, 1, 2):
    harness(PROP, HANDLERS + '._create_resolver', name='resolve[entries=%d]' % _n, setup=_handlers_setup, fix={'entries': _n})(handlers_resolve)


@harness(PROP, H_MOD + ':_best_match', setup=_handlers_setup)
def handlers_best_match(v):
    media_type = v.str('media_type')
    keys = tuple(KEYS[: v.choose(3, 'entries')])
    bm = BestMatchContract(v)
    with patched(v, MT_MOD, 'best_match', bm):
        out = v.call(media_type, keys)
    v.check('no-exception', out.exc is None)
    v.check('asks-best-match-once-with-the-keys-as-candidates-and-the-type-as-header',
            len(bm.calls) == 1 and bm.calls[0][0] is keys and And(bm.calls[0][1] == media_type))
    if out.exc is not None:
        return
    if bm.raised is not None:
        v.check('unparsable-type-designates-nothing', out.value is None)
        v.cover('unparsable')
    else:
        v.check('returns-what-best-match-chose', out.value is bm.result)
        v.cover('chosen')


# ---------------------------------------------------------------------------
# a history, end to end on the real code with a memoising cache: never a stale handler

HISTORY_OPS = ['replace', 'delete', 'pop', 'clear', 'update', 'popitem-all', 'setdefault-after-delete', 'customise-the-copy']


@harness(PROP, HANDLERS + '.__init__', name='history_never_stale', setup=_handlers_setup)
def history_never_stale(v):
    for fn in ('.__setitem__', '.__delitem__', '.copy', '._create_resolver'):
        touch(v, HANDLERS + fn)
    touch(v, H_MOD + ':_best_match')
    g = ghost_of(v)
    A, B, N = Handler('A'), Handler('B'), Handler('N')
    K0, K1 = KEYS[0], KEYS[1]
    made = _construct(v, g, {K0: A, K1: B})
    if made.exc is not None:
        v.check('no-exception', False)
        return
    h = made.value
    bm = BestMatchContract(v, fixed='')  # nothing but an exact key matches in this history
    H415 = v.real('falcon.errors:HTTPUnsupportedMediaType')
    # the resolution that is repeated along the history: by exact type, by a missing type that falls back to the default,
    # or with raise_not_found left at its default (a type that is no longer designated is then a 415, which is never memoised)
    ask_kind = v.choose(3, 'resolution')
    ask = [(K0, 'application/octet-stream', False), (None, K0, False), (K0, 'application/octet-stream')][ask_kind]

    def resolve(o):
        r = v.get(o, '_resolve')
        return run_fn(v, r, *ask)

    def designates(r, cur):
        if cur is not None:
            return r.exc is None and r.value[0] is cur
        if ask_kind == 2:
            return r.exc is not None and r.exc.isa(H415)
        return r.exc is None and r.value[0] is None

    with patched(v, MT_MOD, 'best_match', bm):
        r1 = resolve(h)
        r1b = resolve(h)  # answered from the cache
        v.check('first-resolution-designates-the-initial-handler', r1.exc is None and r1.value[0] is A and r1b.exc is None and r1b.value[0] is A)
        lru = v.get(h, '_resolve')
        v.check('second-identical-resolution-is-a-cache-hit', isinstance(lru, GhostLru) and lru.hits == 1)
        op = HISTORY_OPS[v.choose(len(HISTORY_OPS), 'operation')]
        target = h
        if op == 'replace':
            o = method(v, h, '__setitem__', K0, N)
        elif op == 'delete':
            o = method(v, h, '__delitem__', K0)
        elif op == 'pop':
            o = method(v, h, 'pop', K0)
        elif op == 'clear':
            o = method(v, h, 'clear')
        elif op == 'update':
            o = method(v, h, 'update', {K0: N})
        elif op == 'popitem-all':
            o = method(v, h, 'popitem')
            o = method(v, h, 'popitem') if o.exc is None else o
        elif op == 'setdefault-after-delete':
            o = method(v, h, '__delitem__', K0)
            r_mid = resolve(h)
            v.check('after-delete-nothing-is-designated', designates(r_mid, None))
            o = method(v, h, 'setdefault', K0, N) if o.exc is None else o
        else:
            o = _copy(v, g, h)
            if o.exc is None:
                target = o.value
                o = method(v, target, '__setitem__', K0, N)
        v.check('no-exception', o.exc is None)
        if o.exc is not None:
            return
        r2 = resolve(target)
        cur = v.get(target, 'data').get(K0)
        # "returns the handler that the current mapping designates ... never a stale handler"
        v.check('never-a-stale-handler', designates(r2, cur))
        if target is not h:
            r3 = resolve(h)
            v.check('customising-the-copy-does-not-affect-the-original', r3.exc is None and r3.value[0] is A and same_items(v.get(h, 'data'), {K0: A, K1: B}))
        check_coherent(v, g, target)
    v.cover('history')


# ---------------------------------------------------------------------------
# Request.client_accepts / client_prefers


AREQ = 'falcon.asgi.request:Request'


@stubclass
class _HeaderBytes:
    """A raw ASGI header value: bytes whose latin-1 decoding (total, one character per byte) is the given text."""

    def __init__(self, text):
        self.text = text

    def decode(self, encoding='utf-8', errors='strict'):
        if not isinstance(encoding, str) or encoding.lower().replace('-', '').replace('_', '') not in ('latin1', 'iso88591'):
            raise Unreached('ASGI header bytes decoded as %r' % (encoding,))
        return self.text


def _accept_request(v):
    """A WSGI or an ASGI request (the ASGI class overrides the `accept` property that both methods read) whose Accept
    header is missing, empty, or an arbitrary non-empty string -> (request, header text or None)."""
    asgi = v.choose(2, 'asgi-request?')
    k = v.choose(3, 'accept-header')  # missing, empty, present
    if k == 0:
        a = None
    elif k == 1:
        a = ''
    else:
        a = v.str('accept')
        v.assume(a != '')
    if asgi:
        return v.obj(AREQ, _asgi_headers=({} if a is None else {b'accept': _HeaderBytes(a)})), a
    return v.obj(REQ, env=({} if a is None else {'HTTP_ACCEPT': a})), a


@harness(PROP, REQ + '.client_accepts', inline=[REQ + '.accept', AREQ + '.accept'], setup=_mediatypes_setup)
def client_accepts(v):
    touch(v, REQ + '.accept')
    touch(v, AREQ + '.accept')
    InvalidMediaType = v.real('falcon.errors:InvalidMediaType')
    InvalidMediaRange = v.real('falcon.errors:InvalidMediaRange')
    req, accept = _accept_request(v)
    media_type = v.str('media_type')
    k = v.choose(3, 'quality-outcome')
    q = mkq(v, 'q') if k == 0 else None
    err = None if k == 0 else (mk_exc(InvalidMediaType, 'bad type') if k == 1 else mk_exc(InvalidMediaRange, 'bad range'))

    def quality(mt, hdr):
        if err is not None:
            throw(v, err)
        return q

    qstub = Opaque(v, quality)
    with patched(v, MT_MOD, 'quality', qstub):
        out = v.call(req, media_type)
    v.check('never-raises', out.exc is None)
    if out.exc is not None:
        return
    got = out.value
    if accept is None or accept == '':
        # "Per RFC, a missing accept header is equivalent to '*/*'"
        v.check('missing-or-empty-accept-header-accepts-everything', got is True)
        v.cover('no-accept-header')
        return
    trivially = Or(accept == '*/*', accept == media_type)
    if trivially:
        v.check('star-star-or-the-identical-value-accepts', got is True)
        v.cover('fast-path')
        return
    v.check('asks-quality-of-the-type-against-the-header', len(qstub.calls) == 1 and And(qstub.calls[0][0] == media_type, qstub.calls[0][1] == accept))
    if err is not None:
        v.check('malformed-header-or-type-means-not-accepted', got is False)
        v.cover('malformed')
    else:
        v.check('accepted-iff-quality-is-not-zero', Iff(got, q > 0.0))
        v.cover('by-quality')


@harness(PROP, REQ + '.client_prefers', inline=[REQ + '.accept', AREQ + '.accept'], setup=_mediatypes_setup)
def client_prefers(v):
    touch(v, REQ + '.accept')
    touch(v, AREQ + '.accept')
    InvalidMediaType = v.real('falcon.errors:InvalidMediaType')
    req, accept = _accept_request(v)
    cands = list(CANDS[: 1 + v.choose(3, 'candidates')])
    bm = BestMatchContract(v)
    with patched(v, MT_MOD, 'best_match', bm):
        out = v.call(req, cands)
    v.check('never-raises', out.exc is None)
    if out.exc is not None:
        return
    eff = '*/*' if (accept is None or accept == '') else accept
    v.check('asks-best-match-of-the-candidates-against-the-accept-header-or-star-star',
            len(bm.calls) == 1 and bm.calls[0][0] is cands and And(bm.calls[0][1] == eff))
    if bm.raised is not None or not bm.result:
        v.check('nothing-acceptable-or-malformed-header-yields-none', out.value is None)
        v.cover('none')
    else:
        v.check('returns-the-best-match', out.value is bm.result)
        v.cover('preferred')


# ---------------------------------------------------------------------------
# bounded stand-in (NOT a proof): text level.  parse_header / _parse_media_type_header / header.split(',') are string
# scanners out of reach of the executor; here headers are *generated from structure* (so the expected result is computed from
# the structure with the specification above, never by re-parsing) and compared with quality / best_match on the text.


def _ref_score(rng, typ):
    (rm, rs, rp, rq), (tm, ts, tp) = rng, typ
    if rm != '*' and tm != '*' and rm != tm:
        return None
    if rs != '*' and ts != '*' and rs != ts:
        return None
    shared = set(rp) & set(tp)
    if any(rp[k] != tp[k] for k in shared):
        return None
    return (int(rm != '*' and tm != '*'), int(rs != '*' and ts != '*'), int(set(rp) == set(tp)), len(shared), rq)


def _ref_quality(typ, ranges):
    scores = [s for s in (_ref_score(r, typ) for r in ranges) if s is not None]
    return max(scores)[-1] if scores else 0.0


def _gen_token(rnd):
    return rnd.choice(['text', 'application', 'image', 'x-a', 'b.c+json', 'plain', 'html', 'json', 'v1'])


def _gen_ws(rnd):
    return rnd.choice(['', '', '', ' ', '  ', '\t'])


def _gen_value(rnd):
    """(text, value): a token, or a quoted string (no comma inside: see NOT_DECIDED)."""
    if rnd.random() < 0.6:
        val = rnd.choice(['utf-8', '1', '2', 'a', 'UTF-8', 'x.y'])
        return val, val
    # (an escaped quote FOLLOWED by ';' inside the quoted string: the splitter must discount escaped quotes when it looks for the closing quote)
    val = rnd.choice(['a b', 'x;y', 'k=v', 'say "hi"', 'back\\slash', '', 'plain', 'q=0.1', 'a";q=0.1;b', 'say "hi"; then', '";q=0', 'x\\";y'])
    return '"' + val.replace('\\', '\\\\').replace('"', '\\"') + '"', val


def _gen_params(rnd, names):
    text, params = '', {}
    for name in rnd.sample(names, rnd.choice([0, 0, 1, 1, 2])):
        vt, val = _gen_value(rnd)
        shown = rnd.choice([name, name.upper(), name.capitalize()])
        text += '%s;%s%s%s=%s%s' % (_gen_ws(rnd), _gen_ws(rnd), shown, '', vt, '')
        params[name] = val
    return text, params


Q_FORMS = [('0', 0.0), ('1', 1.0), ('0.5', 0.5), ('0.25', 0.25), ('0.125', 0.125), ('1.0', 1.0), ('1.000', 1.0), ('0.', 0.0), ('0.3333', 0.3333),
           ('0.001', 0.001), ('0.000', 0.0), ('.7', 0.7), ('1e-1', 0.1)]
Q_BAD = ['1.5', '-0.1', 'abc', '', 'nan', 'inf', '-inf', '2', '1.0001', '0,5']


def _gen_range(rnd):
    """(text, (main, sub, params, q)) or (text, None) for a member that must be rejected."""
    r = rnd.random()
    if r < 0.08:
        return rnd.choice(['garbage', 'text', '', ' ', 'text;q=0.5']), None
    main = '*' if rnd.random() < 0.25 else _gen_token(rnd)
    sub = '*' if (main == '*' or rnd.random() < 0.3) else _gen_token(rnd)
    if main == '*' and rnd.random() < 0.2:
        text = '*'
    else:
        text = main + '/' + sub
    ptext, params = _gen_params(rnd, ['charset', 'version', 'profile'])
    text += ptext
    q = 1.0
    if rnd.random() < 0.6:
        if rnd.random() < 0.1:
            bad = rnd.choice(Q_BAD)
            if ',' in bad:
                return text + ';q=' + bad, None
            return text + '%s;%sq=%s' % (_gen_ws(rnd), _gen_ws(rnd), bad), None
        qt, q = rnd.choice(Q_FORMS)
        text += '%s;%s%s=%s' % (_gen_ws(rnd), _gen_ws(rnd), rnd.choice(['q', 'Q']), qt)
        if rnd.random() < 0.2:  # a parameter after q (an "accept-ext" in RFC 7231 terms): an ordinary parameter for this code
            vt, val = _gen_value(rnd)
            text += ';ext=' + vt
            params['ext'] = val
    return _gen_ws(rnd) + text + _gen_ws(rnd), (main, sub, params, q)


def _gen_type(rnd):
    if rnd.random() < 0.05:
        return rnd.choice(['nonsense', '', 'text']), None
    main, sub = _gen_token(rnd), _gen_token(rnd)
    if rnd.random() < 0.08:
        sub = '*'
        if rnd.random() < 0.5:
            main = '*'
    ptext, params = _gen_params(rnd, ['charset', 'version', 'profile'])
    return main + '/' + sub + ptext, (main, sub, params)


def bounded(tier, seed, overlay_dir):
    import random
    import importlib

    mt = importlib.import_module(MT_MOD)
    errors = importlib.import_module('falcon.errors')
    rnd = random.Random(1105 + int(seed or 0))
    n = 40000 if tier == 'thorough' else 6000
    failures = []

    def run(fn, *a):
        try:
            return ('value', fn(*a))
        except Exception as e:  # noqa: BLE001
            return ('raise', type(e))

    for case in range(n):
        members = [_gen_range(rnd) for _ in range(rnd.choice([1, 1, 2, 3, 4, 6]))]
        if rnd.random() < 0.15:
            members.append(rnd.choice(members))  # duplicates
        header = ','.join(t for t, _ in members)
        ranges = [r for _, r in members]
        cands = [_gen_type(rnd) for _ in range(rnd.choice([1, 2, 3, 4]))]
        # quality
        ttext, typ = cands[0]
        if typ is None:
            want = ('raise', errors.InvalidMediaType)
        elif any(r is None for r in ranges):
            want = ('raise', errors.InvalidMediaRange)
        else:
            want = ('value', _ref_quality(typ, ranges))
        got = run(mt.quality, ttext, header)
        if got != want:
            failures.append({'obligation': 'bounded:quality-on-text-equals-specification', 'media_type': ttext, 'header': header, 'want': repr(want), 'got': repr(got)})
        # best_match
        want_b = None
        for ct, c in cands:
            if c is None:
                want_b = ('raise', errors.InvalidMediaType)
                break
            if any(r is None for r in ranges):
                want_b = ('raise', errors.InvalidMediaRange)
                break
        if want_b is None:
            best, best_q = '', 0.0
            for ct, c in cands:
                q = _ref_quality(c, ranges)
                if q > best_q:
                    best, best_q = ct, q
            want_b = ('value', best)
        got_b = run(mt.best_match, [ct for ct, _ in cands], header)
        if got_b != want_b:
            failures.append({'obligation': 'bounded:best_match-on-text-equals-specification', 'media_types': [ct for ct, _ in cands], 'header': header,
                             'want': repr(want_b), 'got': repr(got_b)})
        if len(failures) >= 20:
            break
    return [{'name': 'C11 text level: quality / best_match on generated Accept headers vs the specification computed from the generating structure',
             'bound': '%d random headers (1-7 ranges; wildcards, parameters in any case, quoted values without commas, q with 0-4 digits, duplicates, '
                      'optional whitespace, invalid members) x 1-4 candidates, seed %d' % (n, 1105 + int(seed or 0)),
             'cases': n, 'failures': failures[:20]}]


# ---------------------------------------------------------------------------

KILLS = [
    # a "PERF" shortcut in front of the matching rule: on an exact-key miss the bare type/subtype is looked up first (seed C11-resolver-bare-type-shortcut;
    # it verified until dict.get with a symbolic key was decided against the existing keys -- this kill guards that engine repair)
    ('falcon/media/handlers.py', "            except KeyError:\n                handler = None\n",
     "            except KeyError:\n                handler = self.data.get(media_type.partition(';')[0].rstrip())\n",
     'Handlers._create_resolver#matcher-consulted-exactly-when-there-is-no-exact-key'),
    # the 5-tuple: type and subtype components swapped
    ('falcon/util/mediatypes.py', "        return (main_matches, sub_matches, exact_match, len(matching), self.quality)\n",
     "        return (sub_matches, main_matches, exact_match, len(matching), self.quality)\n", '_MediaRange.match_score#component-1-main-type-exact-not-wildcard'),
    # cache_clear() removed from __setitem__
    ('falcon/media/handlers.py',
     "        super().__setitem__(key, value)\n\n        # NOTE(kgriffs): When the mapping changes, we do not want to use a\n        #   cached handler from the previous mapping, in case it was\n"
     "        #   replaced.\n        self._resolve.cache_clear()  # type: ignore[attr-defined]\n",
     "        super().__setitem__(key, value)\n", 'Handlers.__setitem__#resolver-cache-cleared-after-the-write'),
    # a q=0 candidate can win
    ('falcon/util/mediatypes.py', "        if best_quality > 0.0:\n", "        if best_quality >= 0.0:\n", 'mediatypes:best_match#empty-string-iff-no-candidate-has-positive-quality'),
    # exact parameter match: polarity flipped
    ('falcon/util/mediatypes.py', "        exact_match = 0 if mr_pnames ^ mt_pnames else 1\n", "        exact_match = 1 if mr_pnames ^ mt_pnames else 0\n",
     '_MediaRange.match_score#component-3-parameter-names-match-exactly'),
    # a wildcard on the media type side is no longer honoured
    ('falcon/util/mediatypes.py', "        if self.main_type == '*' or media_type.main_type == '*':\n", "        if self.main_type == '*':\n",
     '_MediaRange.match_score#no-match-iff-types-or-subtypes-differ-without-wildcard-or-a-shared-parameter-differs'),
    # values of shared parameters are no longer compared
    ('falcon/util/mediatypes.py', "        for pname in matching:\n            if self.params[pname] != media_type.params[pname]:\n                return self._NOT_MATCHING\n", "",
     '_MediaRange.match_score#no-match-iff-types-or-subtypes-differ-without-wildcard-or-a-shared-parameter-differs'),
    # number of matching parameters ranked above the exact parameter match
    ('falcon/util/mediatypes.py', "        return (main_matches, sub_matches, exact_match, len(matching), self.quality)\n",
     "        return (main_matches, sub_matches, len(matching), exact_match, self.quality)\n", '_MediaRange.match_score#component-3-parameter-names-match-exactly'),
    # q upper bound dropped
    ('falcon/util/mediatypes.py', "        if not (0.0 <= q <= 1.0) or not math.isfinite(q):\n", "        if not (0.0 <= q) or not math.isfinite(q):\n",
     '_MediaRange.parse#invalid-media-range-iff-q-is-not-a-real-number-in-0..1'),
    # q validated but not used
    ('falcon/util/mediatypes.py', "        return cls(main_type, subtype, q, params)\n", "        return cls(main_type, subtype, 1.0, params)\n", '_MediaRange.parse#quality-is-the-given-q'),
    # the least specific range wins
    ('falcon/util/mediatypes.py', "    most_specific = max(\n", "    most_specific = min(\n", 'mediatypes:quality#quality-is-q-of-the-most-specific-matching-range-highest-q-among-equals'),
    # InvalidMediaType swallowed by best_match
    ('falcon/util/mediatypes.py',
     "    except errors.InvalidMediaType:\n        # NOTE(vytas): Do not swallow instances of InvalidMediaType\n        #   (it a subclass of ValueError).\n        raise\n", "",
     'mediatypes:best_match#malformed-input-surfaces-as-the-documented-value-error'),
    # cache_clear() removed from __delitem__
    ('falcon/media/handlers.py',
     "        super().__delitem__(key)\n\n        # NOTE(kgriffs): Similar to __setitem__(), we need to avoid resolving\n        #   to a cached handler that was removed.\n"
     "        self._resolve.cache_clear()  # type: ignore[attr-defined]\n",
     "        super().__delitem__(key)\n", 'Handlers.__delitem__#resolver-cache-cleared-after-the-write'),
    # cache cleared before the write instead of after it
    ('falcon/media/handlers.py',
     "        super().__delitem__(key)\n\n        # NOTE(kgriffs): Similar to __setitem__(), we need to avoid resolving\n        #   to a cached handler that was removed.\n"
     "        self._resolve.cache_clear()  # type: ignore[attr-defined]\n",
     "        self._resolve.cache_clear()\n        super().__delitem__(key)\n", 'Handlers.pop#cache-epoch-equals-data-epoch'),
    # the copy shares the original's resolver (and its cache)
    ('falcon/media/handlers.py', "        handlers = handlers_cls(self.data)\n", "        handlers = handlers_cls(self.data)\n        handlers._resolve = self._resolve\n",
     'Handlers.copy#copy-has-its-own-resolver'),
    # */* no longer falls back to the default type
    ('falcon/media/handlers.py', "            if media_type == '*/*' or not media_type:\n", "            if not media_type:\n",
     'Handlers._create_resolver#matcher-consulted-exactly-when-there-is-no-exact-key'),
    # (None, None, None) instead of the 415 that was asked for
    ('falcon/media/handlers.py', "                    if raise_not_found:\n", "                    if not raise_not_found:\n", 'Handlers._create_resolver#no-designated-handler-is-a-415'),
    # candidates and header swapped
    ('falcon/media/handlers.py', "        result = mediatypes.best_match(all_media_types, media_type)\n", "        result = mediatypes.best_match(media_type, all_media_types)\n",
     'handlers:_best_match#asks-best-match-once-with-the-keys-as-candidates-and-the-type-as-header'),
    # a malformed Accept header counts as accepting
    ('falcon/request.py', "            return mediatypes.quality(media_type, accept) != 0.0\n        except ValueError:\n            return False\n",
     "            return mediatypes.quality(media_type, accept) != 0.0\n        except ValueError:\n            return True\n",
     'Request.client_accepts#malformed-header-or-type-means-not-accepted'),
    # --- inputs that used to be fixed in the harnesses (audit of constants: each bug needs the newly covered value) ---
    # three shared parameter names (parameter sets stopped at two names)
    ('falcon/util/mediatypes.py', "        return (main_matches, sub_matches, exact_match, len(matching), self.quality)\n",
     "        return (main_matches, sub_matches, exact_match, min(len(matching), 2), self.quality)\n", '_MediaRange.match_score#component-4-number-of-matching-parameters'),
    # candidates given as a one-shot iterator (only list / tuple were tried): a two-pass rewrite finds nothing on the second pass
    ('falcon/util/mediatypes.py', "            ((media_type, quality(media_type, header)) for media_type in media_types),\n",
     "            zip(media_types, [quality(media_type, header) for media_type in media_types]),\n", 'mediatypes:best_match#empty-string-iff-no-candidate-has-positive-quality'),
    # Handlers(initial) with a Mapping that is not a dict
    ('falcon/media/handlers.py', "        handlers: Mapping[str, BaseHandler] = initial or {\n", "        handlers: Mapping[str, BaseHandler] = (isinstance(initial, dict) and initial) or {\n",
     'Handlers.__init__#holds-exactly-the-given-handlers'),
    # copy() of an instance of a subclass
    ('falcon/media/handlers.py', "        handlers_cls = type(self)\n", "        handlers_cls = Handlers\n", 'Handlers.copy#copy-is-a-distinct-object-of-the-same-type'),
    # a handler that offers only one of the two synchronous fast paths (they were always given together)
    ('falcon/media/handlers.py', "                getattr(handler, '_deserialize_sync', None),\n",
     "                getattr(handler, '_deserialize_sync', None) if hasattr(handler, '_serialize_sync') else None,\n", 'Handlers._create_resolver#returns-handler-with-its-sync-fast-paths'),
    # the resolution repeated along a history was always by exact type: a memo of the default fallback that no mapping change resets
    ('falcon/media/handlers.py',
     "            media_type: Optional[str], default: str, raise_not_found: bool = True\n        ) -> Union[Tuple[None, None, None], _ResolverMethodReturnTuple]:\n"
     "            if media_type == '*/*' or not media_type:\n",
     "            media_type: Optional[str], default: str, raise_not_found: bool = True, _fallbacks: list = []\n        ) -> Union[Tuple[None, None, None], _ResolverMethodReturnTuple]:\n"
     "            if media_type is None:\n                if not _fallbacks:\n                    _fallbacks.append(resolve(default, default, raise_not_found))\n                return _fallbacks[0]\n"
     "            if media_type == '*/*' or not media_type:\n", 'Handlers.__init__#never-a-stale-handler'),
    # the ASGI request class (its own `accept` property) was "by reading"
    ('falcon/asgi/request.py', "            return self._asgi_headers[b'accept'].decode('latin1') or '*/*'\n", "            return self._asgi_headers[b'accept'].decode('latin1')\n",
     'Request.client_accepts#missing-or-empty-accept-header-accepts-everything'),
]
HARMLESS = [
    # handler objects are truthy (type invariant, see ASSUMPTIONS): a "defensive" truth re-check after the matcher changes nothing
    ('falcon/media/handlers.py', "                handler = self.data[matched_type]\n",
     "                handler = self.data[matched_type]\n                if not handler:\n                    return None, None, None\n"),
    ('falcon/util/mediatypes.py',
     "        matching = mr_pnames & mt_pnames\n        for pname in matching:\n            if self.params[pname] != media_type.params[pname]:\n                return self._NOT_MATCHING\n\n"
     "        return (main_matches, sub_matches, exact_match, len(matching), self.quality)\n",
     "        shared = mt_pnames & mr_pnames\n        for name in shared:\n            if media_type.params[name] != self.params[name]:\n                return self._NOT_MATCHING\n\n"
     "        return (main_matches, sub_matches, exact_match, len(shared), self.quality)\n"),
    ('falcon/media/handlers.py', "        handlers_cls = type(self)\n        handlers = handlers_cls(self.data)\n", "        handlers = type(self)(self.data)\n"),
    ('falcon/util/mediatypes.py', "        if best_quality > 0.0:\n            return matching\n", "        if not best_quality <= 0.0:\n            return matching\n"),
]

ASSUMPTIONS = [
    'q values: the code only orders q values (==, !=, <, <=, >, >= among themselves and against 0.0 / 1.0) and passes them through, so a q is an integer number of '
    'thousandths (symbolic, 0..1000 after validation; any integer before it); every order type of finitely many reals in [0, 1] is realised. float() results nan / +inf / -inf '
    'are separate values with IEEE comparison semantics (class QV)',
    'float(text) denotes the number written in the text or raises ValueError; which of {no number, finite n/1000, nan, +inf, -inf} a q text denotes is chosen by the harness '
    '(all explored); TypeError cannot occur (parameter values are str)',
    'parameter maps: every subset of the three names {charset, version, profile} on each side independently (64 shapes, up to three shared names), symbolic values; '
    'match_score treats names uniformly (frozenset algebra), so parameter sets with more than three names are not covered by the proof, only by the bounded stand-in',
    'header.split(",") returns at least one member (str.split contract), so quality() never sees an empty range tuple (max() of nothing would raise a bare ValueError)',
    'callee contracts used at call sites are the ones proved here: match_score (sentinel below every match, quality 0.0), quality (q in 0..1 or InvalidMediaType/InvalidMediaRange), '
    'best_match ("" or a candidate or InvalidMediaType)',
    'functools.lru_cache (CPython: falcon.util.misc._lru_cache_for_simple_logic IS functools.lru_cache): the wrapper memoises results per argument tuple until cache_clear(), '
    'does not memoise exceptions, and calls the wrapped function otherwise (class GhostLru). On PyPy the decorator is a no-op cache, trivially coherent',
    'stdlib: the source files next to the running collections / _collections_abc modules are the code that runs -- checked per method by recompiling the file and comparing '
    'byte code, names and constants with the loaded function (clause stdlib-source-text-is-the-loaded-byte-code). The check interpreter is python3-vt 3.11; '
    'the direct-writer scan must be re-run under the deployment interpreter',
    'dict keys: three distinct concrete media-type names; a mapping distinguishes keys only by equality (existing key / new key explored). Handler objects are opaque; the two sync fast-path '
    'attributes are present or absent independently',
    'handler objects are truthy: BaseHandler defines neither __bool__ nor __len__; `if not handler` in _create_resolver relies on it (type invariant of the input -- the '
    'quantifier ranges over registries of handler objects; a handler class with a falsy __bool__ / __len__ is outside it: with such an object stored under the exact key '
    'resolve() falls through to the matcher, e.g. Handlers({"application/json; charset=utf-8": A, "application/json": P_falsy})._resolve("application/json", "x")[0] is A)',
    # inputs deliberately left fixed (audit of harness constants), with the reason
    'media_range_parse: besides q the parsed parameter map holds no or one other parameter, always named charset: parse only tests / pops the key "q" and passes the rest through; '
    'an upper-case "Q" cannot arrive (parse_header lower-cases names: tokeniser, bounded stand-in)',
    'quality / best_match / parse: the media type, header and range texts are fixed strings -- they only travel to the opaque parser stubs, which ignore them; the malformed outcomes '
    'of the quality harness are explored for one range only because a raising parser stub returns no ranges at all',
    'falcon.constants.PYPY is False (CPython): under PyPy _lru_cache_for_simple_logic is a no-op decorator with a dummy cache_clear (trivially coherent) and _best_match is wrapped in an lru_cache of its own',
    'history_never_stale: the initial mapping is {K0: A, K1: B}, one operation per history and the matcher contract fixed to "no match": it is an end-to-end sanity run on the real '
    'memoising wrapper; the inductive argument over ALL histories is the per-operation epoch invariant. The repeated resolution is varied (exact type / missing type -> default / raise_not_found omitted)',
    'Handlers.copy: the subclass tried adds nothing to Handlers (a subclass overriding __init__ with another signature is outside what copy() can promise)',
    'MutableMapping.setdefault(key) without a default (would store None as a handler) is not explored: the argument is read by stdlib code only',
    'BOUNDARY (not counted as a violation): `handlers |= other` (UserDict.__ior__) and copy.copy(handlers) (UserDict.__copy__) write / share state without going through '
    'Handlers.__setitem__; neither is in the operation list of the property (set/delete/update/pop/clear/copy). After `handlers |= {...}` the resolver cache IS stale',
    'direct mutation of handlers.data, or replacing handlers._resolve, from outside the class is outside the public interface',
]
NOT_DECIDED = [
    'parse_header / _parse_media_type_header / _parse_media_ranges tokenisation (string scanning, split on ";" "," "="): bounded stand-in only (6000 / 40000 generated headers, text vs structure)',
    'quality: range lists of length 1..3 unrolled (4 in the thorough tier); best_match: candidate lists of length 0..3 unrolled; no invariant over max()',
    'match_score: parameter-name sets of size <= 3 over three names unrolled (the loop over shared names is unrolled, not cut by an invariant)',
    'known deviations of the tokeniser from the RFC 9110 grammar, seen while probing, outside the documented contract: a comma inside a quoted parameter value splits the member '
    '(quality("text/plain", \'text/plain;a="x,y"\') raises InvalidMediaRange); empty list members ("a/b, ,c/d" or a trailing comma) raise InvalidMediaRange; type and subtype '
    'are compared case-sensitively ("TEXT/plain" does not match "text/plain"); float() accepts q=1e-1 and q=0_1',
    'UserDict / MutableMapping methods that write .data directly are found by a syntactic scan (ast walk for stores to <x>.data / __dict__["data"] / mutator calls on <x>.data); '
    'the mixins pop / popitem / clear / update / setdefault are executed from source, the rest of the family is only scanned',
    'Request.client_accepts_json / _xml / _msgpack (one-line wrappers of client_accepts); the ASGI Request inherits client_accepts / client_prefers and overrides the `accept` '
    'property: both are run on a WSGI and on an ASGI request object (raw ASGI header bytes are a stub whose latin-1 decoding is the header text)',
    'options.media_handlers wiring in App / Request / Response (which Handlers object is consulted) -- C12 stubs Handlers._resolve with the contract proved here',
    'termination',
]
TRUSTED = [
    'ghost instrumentation in contracts/C11_negotiation.py: Ghost, GDict (a dict subclass that counts every mutation), WatchedFields / watched_class (rebinding of .data), GhostLru',
    'model of dataclass-generated __init__ (assigns the fields in order) for _MediaRange / _MediaType',
    'stdlib_function: private-name mangling applied to the stdlib AST (self.__marker -> self._MutableMapping__marker), default values taken from the loaded function object',
    'stubs: ParseHeaderStub, RangeModel, Opaque, BestMatchContract, Handler, KeysOnly, _HeaderBytes; opaque dependencies are rebound at module level while the subject runs (class patched)',
    'pyvc models: max() returns the first maximal item (with and without key=), frozenset algebra on concrete names, math.isfinite, float (see ASSUMPTIONS)',
]
