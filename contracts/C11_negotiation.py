"""C11 -- content negotiation and media-handler resolution follow the documented precedence.

Decided here, on the current source of
    falcon/util/mediatypes.py   _MediaRange.match_score, _MediaRange.parse, quality, best_match
    falcon/media/handlers.py    Handlers.__init__/__setitem__/__delitem__/copy/_create_resolver(.resolve), _best_match
    falcon/request.py           Request.client_accepts, Request.client_prefers
    <stdlib of the running interpreter>  collections.UserDict.__init__/__setitem__/__delitem__/__getitem__/
                                __contains__/__iter__/__len__, MutableMapping.pop/popitem/clear/update/setdefault
                                (their real source, located next to the running modules and checked against
                                the byte code that is actually loaded)

Specification, written from the documentation (docstring of `quality`, `best_match`, `Handlers.copy`,
the error message of `_MediaRange.parse`, the property statement):

    score(range, type) = NO MATCH                  if the main types differ and neither is '*',
                                                   or the subtypes differ and neither is '*',
                                                   or a parameter name present on both sides has different values
                       = (type exact, subtype exact, parameter names equal, |shared parameters|, q)   otherwise
    quality(type, header)   = q of the lexicographically maximal score over the header's ranges; 0.0 if none matches
    best_match(cands, hdr)  = the first candidate of maximal quality if that quality is > 0, '' otherwise

Cache coherence of `Handlers` is an epoch invariant over ghost state: `data_epoch` counts every write to
`self.data` (item store / delete, any dict mutator, rebinding the attribute); the resolver's `cache_epoch`
is set to the owner's `data_epoch` when the cache is created or `cache_clear()`-ed.  Invariant assumed at entry
and proved at exit of every public operation: the object's resolver is its own and cache_epoch == data_epoch.
Together with `resolve` being a function of (arguments, current self.data) -- proved separately -- a cached
answer always equals a fresh one.
"""
from __future__ import annotations

import ast
import builtins
import math
import os
import sys

from pyvc.core import And, ExcVal, Iff, Implies, Not, Or, Outcome, PyRaise, SStr, Unreached
from pyvc.harness import harness, native, stubclass
from pyvc.interp import Closure

PROP = 'C11'
MT_MOD = 'falcon.util.mediatypes'
MR = MT_MOD + ':_MediaRange'
MT = MT_MOD + ':_MediaType'
H_MOD = 'falcon.media.handlers'
HANDLERS = H_MOD + ':Handlers'
REQ = 'falcon.request:Request'


# ---------------------------------------------------------------------------
# helpers that work in both modes (symbolic exploration / concrete replay)


class patched:
    """Rebind a module-level name of the (overlay) module while the subject runs: an opaque dependency."""

    def __init__(self, v, module, name, value):
        self.mod = v.real(module)
        self.name = name
        self.value = value

    def __enter__(self):
        self.saved = self.mod.__dict__[self.name]
        setattr(self.mod, self.name, self.value)
        return self.value

    def __exit__(self, *a):
        setattr(self.mod, self.name, self.saved)
        return False


def mk_exc(cls, *args):
    """An exception value of the interpreted program whose identity the contract can observe."""
    return ExcVal(cls, args, real=cls(*args))


def throw(v, e):
    if v.concrete:
        raise e.real
    raise PyRaise(e)


def ident(x):
    return x.real if isinstance(x, ExcVal) and x.real is not None else x


def same_exc(a, b):
    return a is not None and b is not None and ident(a) is ident(b)


def touch(v, target):
    """Record a subject's source span in the evidence when it is reached without v.call."""
    if not v.concrete:
        v.closure(target)


# ---------------------------------------------------------------------------
# q values.  The negotiation code only *orders* q values (==, <, >, also against the literals 0.0 / 1.0)
# and passes them through, so a q is modelled as an integer number of thousandths (RFC 9110 qvalue has at
# most three decimals); `float()` can in addition produce nan / +inf / -inf, which _MediaRange.parse must reject.


class QV:
    """A float as this code sees it: a finite multiple of 1/1000 (symbolic), or nan / +inf / -inf."""

    __pyvc_symbolic__ = True
    __pyvc_stub__ = True

    def __init__(self, milli, kind='fin'):
        self.m = milli
        self.kind = kind

    @staticmethod
    def lift(o):
        if isinstance(o, QV):
            return o
        if isinstance(o, bool) or not isinstance(o, (int, float)):
            return None
        if o != o:
            return QV(0, 'nan')
        if o == math.inf:
            return QV(0, '+inf')
        if o == -math.inf:
            return QV(0, '-inf')
        m = o * 1000
        if m != int(m):
            raise Unreached('comparison of a q value with %r (not a multiple of 1/1000)' % (o,))
        return QV(int(m))

    def _cmp(self, o, op):
        o = QV.lift(o)
        if o is None:
            return NotImplemented
        a, b = self, o
        if a.kind == 'nan' or b.kind == 'nan':
            return op == 'ne'
        rank = {'-inf': -1, 'fin': 0, '+inf': 1}
        ra, rb = rank[a.kind], rank[b.kind]
        if ra != rb or ra != 0:
            x, y = ra, rb
        else:
            x, y = a.m, b.m
        if op == 'eq':
            return x == y
        if op == 'ne':
            return x != y
        if op == 'lt':
            return x < y
        if op == 'le':
            return x <= y
        if op == 'gt':
            return x > y
        return x >= y

    def __eq__(self, o):
        return self._cmp(o, 'eq')

    def __ne__(self, o):
        return self._cmp(o, 'ne')

    def __lt__(self, o):
        return self._cmp(o, 'lt')

    def __le__(self, o):
        return self._cmp(o, 'le')

    def __gt__(self, o):
        return self._cmp(o, 'gt')

    def __ge__(self, o):
        return self._cmp(o, 'ge')

    __hash__ = object.__hash__

    def __repr__(self):
        return '<QV %s %s>' % (self.kind, self.m)


def mkq(v, name, lo=0, hi=1000):
    """A q value in [lo/1000, hi/1000] (None: unbounded on that side)."""
    n = v.int(name, lo, hi)
    return n / 1000.0 if v.concrete else QV(n)


def lex_gt(a, b):
    """a > b in the lexicographic order of equally long tuples (non-forking)."""
    res = False
    eq_prefix = True
    for x, y in zip(a, b):
        res = Or(res, And(eq_prefix, x > y))
        eq_prefix = And(eq_prefix, x == y)
    return res


def _dataclass_init(*names):
    """Model of a dataclass-generated __init__: assigns the fields in declaration order."""

    def init(I, self, *args, **kwargs):
        vals = dict(zip(names, args))
        vals.update(kwargs)
        if sorted(vals) != sorted(names):
            I.ctx.raise_py(TypeError, '__init__() arguments do not match the dataclass fields')
        for n in names:
            I.setattr(self, n, vals[n])
        return None

    return init


def _mediatypes_setup(reg, ex):
    import importlib

    m = importlib.import_module(MT_MOD)
    reg.add_model(m._MediaRange.__init__, _dataclass_init('main_type', 'subtype', 'quality', 'params'))
    reg.add_model(m._MediaType.__init__, _dataclass_init('main_type', 'subtype', 'params'))
    reg.add_model(math.isfinite, lambda I, x: (x.kind == 'fin') if isinstance(x, QV) else math.isfinite(x))
    reg.add_model(builtins.float, _float_model)


# ---------------------------------------------------------------------------
# _MediaRange.match_score == the documented specificity score

PKEYS = ('charset', 'version', 'profile')
# parameter-name sets with at most two names out of three
PSETS = [(), ('charset',), ('version',), ('profile',), ('charset', 'version'), ('charset', 'profile'), ('version', 'profile')]


def _params(v, side, names):
    return {k: v.str('%s_%s' % (side, k)) for k in names}


def match_score_spec(v):
    r_names = PSETS[v.choose(len(PSETS), 'range-params')]
    t_names = PSETS[v.choose(len(PSETS), 'type-params')]
    r_main, r_sub = v.str('r_main'), v.str('r_sub')
    t_main, t_sub = v.str('t_main'), v.str('t_sub')
    r_params, t_params = _params(v, 'r', r_names), _params(v, 't', t_names)
    q = mkq(v, 'q_milli')
    rng = v.obj(MR, main_type=r_main, subtype=r_sub, quality=q, params=r_params)
    typ = v.obj(MT, main_type=t_main, subtype=t_sub, params=t_params)

    out = v.call(rng, typ)
    v.check('no-exception', out.exc is None)
    if out.exc is not None:
        return

    # ---- the documentation, sentence by sentence ------------------------------------------------
    shared = [k for k in r_names if k in t_names]
    main_wild = Or(r_main == '*', t_main == '*')
    sub_wild = Or(r_sub == '*', t_sub == '*')
    main_clash = And(Not(main_wild), r_main != t_main)  # "The types must either match exactly, or as wildcard"
    sub_clash = And(Not(sub_wild), r_sub != t_sub)
    param_clash = Or(*[r_params[k] != t_params[k] for k in shared])  # "if parameter names match, the values must also be equal"
    no_match = Or(main_clash, sub_clash, param_clash)

    sentinel = v.real(MR)._NOT_MATCHING
    score = out.value
    v.check('score-is-a-5-tuple', isinstance(score, tuple) and len(score) == 5)
    if not (isinstance(score, tuple) and len(score) == 5):
        return
    is_sentinel = score is sentinel
    v.check('no-match-iff-types-or-subtypes-differ-without-wildcard-or-a-shared-parameter-differs', Iff(is_sentinel, no_match))
    if is_sentinel:
        # what `quality` relies on: the "no match" score sorts below every match and carries quality 0.0
        v.check('no-match-score-sorts-below-every-match', score[0] < 0)
        v.check('no-match-score-carries-quality-zero', score[4] == 0.0 and isinstance(score[4], float))
        v.cover('no-match')
        return
    v.check('component-1-main-type-exact-not-wildcard', score[0] == Ite01(Not(main_wild)))
    v.check('component-2-subtype-exact-not-wildcard', score[1] == Ite01(Not(sub_wild)))
    v.check('component-3-parameter-names-match-exactly', score[2] == (1 if set(r_names) == set(t_names) else 0))
    v.check('component-4-number-of-matching-parameters', score[3] == len(shared))
    v.check('component-5-is-the-quality-of-the-range', score[4] == q)
    v.cover('match')


def Ite01(c):
    from pyvc.core import Ite

    return Ite(c, 1, 0)


for _i, _names in enumerate(PSETS):
    harness(PROP, MR + '.match_score', name='match_score[range-params=%s]' % ('+'.join(_names) or 'none'), fix={'range-params': _i},
            setup=_mediatypes_setup)(match_score_spec)


# ---------------------------------------------------------------------------
# _MediaRange.parse: q validation


def _float_model(I, x=0.0):
    """float(text): the number the text denotes (the harness fixes the denotation), ValueError when it denotes none."""
    den = I.ctx.ghost.get('float-denotation', {}).get(id(x))
    if den is None:
        if isinstance(x, (int, float, str)) and not isinstance(x, SStr):
            try:
                return float(x)
            except ValueError as e:
                raise PyRaise(ExcVal(ValueError, e.args, real=e))
        raise Unreached('float() of %r: no denotation fixed by the harness' % (x,))
    kind, val = den
    if kind == 'not-a-number':
        I.ctx.raise_py(ValueError, 'could not convert string to float')
    return val


@stubclass
class ParseHeaderStub:
    """_parse_media_type_header(text): (main type, subtype, params) or InvalidMediaType -- tokenisation is opaque here."""

    def __init__(self, v, result=None, raised=None):
        self.v = v
        self.result = result
        self.raised = raised
        self.calls = []

    def __call__(self, text):
        self.calls.append(text)
        if self.raised is not None:
            throw(self.v, self.raised)
        return self.result


Q_KINDS = ['absent', 'not-a-number', 'finite', 'nan', '+inf', '-inf']


def q_text(v):
    """The text of a q parameter together with what float() makes of it."""
    kind = Q_KINDS[v.choose(len(Q_KINDS), 'q-text')]
    if kind == 'absent':
        return kind, None, None
    if kind == 'finite':
        n = v.int('q_milli')  # any finite value, negative and > 1 included
        val = n / 1000.0 if v.concrete else QV(n)
        text = repr(n / 1000.0) if v.concrete else None
    elif kind == 'not-a-number':
        val, text = None, 'high'
    else:
        val = float(kind.replace('+', '')) if v.concrete else QV(0, kind)
        text = kind.replace('+', '')
    if not v.concrete:
        text = v.str('q_text')
        v.ctx.ghost.setdefault('float-denotation', {})[id(text)] = (kind, val)
        v.ctx.ghost.setdefault('keep', []).append(text)
    return kind, text, val


@harness(PROP, MR + '.parse', setup=_mediatypes_setup)
def media_range_parse(v):
    cls = v.real(MR)
    InvalidMediaType = v.real('falcon.errors:InvalidMediaType')
    InvalidMediaRange = v.real('falcon.errors:InvalidMediaRange')
    text = 'the media range text'
    if v.choose(2, 'type/subtype?') == 0:
        stub = ParseHeaderStub(v, raised=mk_exc(InvalidMediaType, 'The media type value must contain type/subtype.'))
        with patched(v, MT_MOD, '_parse_media_type_header', stub):
            out = v.call(cls, text)
        v.check('range-without-type/subtype-raises-invalid-media-range', out.exc is not None and out.exc.isa(InvalidMediaRange))
        v.cover('not-a-media-type')
        return
    main, sub = v.str('main_type'), v.str('subtype')
    kind, qt, qval = q_text(v)
    other = v.str('charset_value') if v.choose(2, 'other-param?') else None
    params = {}
    if other is not None:
        params['charset'] = other
    if kind != 'absent':
        params['q'] = qt
    stub = ParseHeaderStub(v, result=(main, sub, params))
    with patched(v, MT_MOD, '_parse_media_type_header', stub):
        out = v.call(cls, text)
    v.check('header-parsed-exactly-once-from-the-given-text', len(stub.calls) == 1 and stub.calls[0] is text)

    # "If provided, the q parameter must be a real number in the range 0 through 1."
    if kind == 'absent':
        valid = True
    elif kind == 'finite':
        valid = And(qval >= 0.0, qval <= 1.0)
    else:
        valid = False
    v.check('invalid-media-range-iff-q-is-not-a-real-number-in-0..1', Iff(out.exc is not None, Not(valid)))
    if out.exc is not None:
        v.check('only-invalid-media-range-escapes', out.exc.isa(InvalidMediaRange) and out.exc.isa(ValueError))
        v.cover('q-rejected')
        return
    r = out.value
    is_range = isinstance(r, cls) or getattr(r, '_cls', None) is cls
    v.check('returns-a-media-range', is_range)
    if not is_range:
        return
    v.check('type-and-subtype-as-parsed', And(v.get(r, 'main_type') == main, v.get(r, 'subtype') == sub))
    got_q = v.get(r, 'quality')
    if kind == 'absent':
        v.check('absent-q-means-quality-1', got_q == 1.0)
        v.cover('q-absent')
    else:
        v.check('quality-is-the-given-q', got_q == qval)
        v.check('accepted-quality-is-within-0..1', And(got_q >= 0.0, got_q <= 1.0))
        v.cover('q-accepted')
    got_p = v.get(r, 'params')
    want = {'charset': other} if other is not None else {}
    v.check('q-is-not-a-media-type-parameter-and-the-others-are-kept',
            isinstance(got_p, dict) and sorted(got_p) == sorted(want) and And(*[got_p[k] == want[k] for k in want if k in got_p]))


# ---------------------------------------------------------------------------
# quality(media_type, header): q of the most specific matching range


@stubclass
class Parsed:
    """An opaque parsed media type (what _parse_media_type returns)."""

    def __init__(self, what):
        self.what = what


@stubclass
class RangeModel:
    """A parsed media range, observed through match_score only; its score is any value match_score's contract allows."""

    def __init__(self, v, i, sentinel):
        self.i = i
        self.asked = []
        self.matched = bool(v.choose(2, 'range%d-matches' % i))
        if self.matched:
            self.q = mkq(v, 'q%d' % i)
            self.score = (v.int('main%d' % i, 0, 1), v.int('sub%d' % i, 0, 1), v.int('exact%d' % i, 0, 1), v.int('nparams%d' % i, 0), self.q)
        else:
            self.q = None
            self.score = sentinel  # proved above: the class sentinel, below every match, quality component 0.0

    def match_score(self, media_type):
        self.asked.append(media_type)
        return self.score


@stubclass
class Opaque:
    """A module-level callable replaced by its contract: fixed result or fixed exception, calls recorded."""

    def __init__(self, v, fn):
        self.v = v
        self.fn = fn
        self.calls = []

    def __call__(self, *args):
        self.calls.append(args)
        return self.fn(*args)


def _quality_n(n):
    def quality_spec(v):
        InvalidMediaType = v.real('falcon.errors:InvalidMediaType')
        InvalidMediaRange = v.real('falcon.errors:InvalidMediaRange')
        sentinel = v.real(MR)._NOT_MATCHING
        media_type, header = 'the media type text', 'the header text'
        parsed = Parsed('media type')
        bad = v.choose(3, 'malformed') if n == 1 else 0  # 1: the media type, 2: the header
        e_type = mk_exc(InvalidMediaType, 'The media type value must contain type/subtype.')
        e_range = mk_exc(InvalidMediaRange, 'The media range value must contain type/subtype.')
        ranges = tuple(RangeModel(v, i, sentinel) for i in range(n)) if not bad else ()

        def parse_type(text):
            if bad == 1:
                throw(v, e_type)
            return parsed

        def parse_ranges(text):
            if bad == 2:
                throw(v, e_range)
            return ranges

        p_type, p_ranges = Opaque(v, parse_type), Opaque(v, parse_ranges)
        if v.concrete:
            v.real(MT_MOD + ':quality').cache_clear()
        with patched(v, MT_MOD, '_parse_media_type', p_type), patched(v, MT_MOD, '_parse_media_ranges', p_ranges):
            out = v.call(media_type, header)

        if bad:
            v.check('malformed-input-surfaces-as-the-documented-value-error', same_exc(out.exc, e_type if bad == 1 else e_range))
            v.cover('malformed')
            return
        v.check('no-exception', out.exc is None)
        if out.exc is not None:
            return
        v.check('parses-the-given-type-and-header', p_type.calls == [(media_type,)] and p_ranges.calls == [(header,)])
        v.check('every-range-is-scored-against-the-parsed-type', all(len(r.asked) == 1 and r.asked[0] is parsed for r in ranges))
        got = out.value
        matching = [r for r in ranges if r.matched]
        if not matching:
            v.check('no-matching-range-yields-quality-zero', got == 0.0)
            v.cover('nothing-matches')
            return
        # "Quality of the most specific media range matching the provided media_type"; criteria 1-4 in decreasing priority,
        # "(5) if two or more best matches are equally fit according to (1) through (4), the highest quality of these is returned"
        v.check('quality-is-q-of-the-most-specific-matching-range-highest-q-among-equals',
                Or(*[And(got == r.q, *[Not(lex_gt(o.score, r.score)) for o in matching]) for r in matching]))
        v.check('quality-is-within-0..1', And(got >= 0.0, got <= 1.0))
        v.cover('some-range-matches')

    return quality_spec


for _n in (1, 2, 3):
    harness(PROP, MT_MOD + ':quality', name='quality[ranges=%d]' % _n, setup=_mediatypes_setup)(_quality_n(_n))
harness(PROP, MT_MOD + ':quality', name='quality[ranges=4]', setup=_mediatypes_setup, tier='thorough', max_paths=100000)(_quality_n(4))


# ---------------------------------------------------------------------------
# best_match(media_types, header)

CANDS = ['application/x.cand0', 'application/x.cand1', 'application/x.cand2']


def _best_match_n(n):
    def best_match_spec(v):
        InvalidMediaType = v.real('falcon.errors:InvalidMediaType')
        InvalidMediaRange = v.real('falcon.errors:InvalidMediaRange')
        header = 'the header text'
        cands = CANDS[:n]
        # contract of quality (proved above): a q within 0..1, or InvalidMediaType (a bad candidate) / InvalidMediaRange (a bad header)
        outcome = []
        for i in range(n):
            k = v.choose(3, 'quality%d' % i)
            if k == 0:
                outcome.append(mkq(v, 'q%d' % i))
            else:
                outcome.append(mk_exc(InvalidMediaType, 'bad type') if k == 1 else mk_exc(InvalidMediaRange, 'bad range'))

        def quality(media_type, hdr):
            r = outcome[cands.index(media_type)]
            if isinstance(r, ExcVal):
                throw(v, r)
            return r

        qstub = Opaque(v, quality)
        as_tuple = bool(v.choose(2, 'candidates-as-tuple'))
        arg = tuple(cands) if as_tuple else list(cands)
        with patched(v, MT_MOD, 'quality', qstub):
            out = v.call(arg, header)

        v.check('quality-asked-only-for-the-given-candidates-and-header', all(len(c) == 2 and c[0] in cands and c[1] is header for c in qstub.calls))
        errs = [r for r in outcome if isinstance(r, ExcVal)]
        if errs:
            # "malformed ranges surface only as the documented value errors": the first failure propagates unchanged
            v.check('malformed-input-surfaces-as-the-documented-value-error', same_exc(out.exc, errs[0]))
            v.check('only-invalid-media-type-or-range-escapes', out.exc is not None and out.exc.isa(InvalidMediaType) and out.exc.isa(ValueError))
            v.cover('malformed')
            return
        v.check('no-exception', out.exc is None)
        if out.exc is not None:
            return
        got = out.value
        if n == 0:
            v.check('no-candidates-yields-empty-string', isinstance(got, str) and got == '')
            v.cover('no-candidates')
            return
        qs = outcome
        idx = [i for i in range(n) if isinstance(got, str) and got == cands[i]]
        v.check('returns-a-candidate-or-the-empty-string', bool(idx) or (isinstance(got, str) and got == ''))
        any_positive = Or(*[q > 0.0 for q in qs])
        # "an empty string if the provided header value does not match any of the given types"
        v.check('empty-string-iff-no-candidate-has-positive-quality', Iff(not idx, Not(any_positive)))
        if not idx:
            v.cover('nothing-acceptable')
            return
        c = idx[0]
        # "a candidate whose best range has q=0 or no matching range is never chosen"
        v.check('chosen-candidate-has-positive-quality', qs[c] > 0.0)
        # "Choose media type with the highest quality from a list of candidates"
        v.check('chosen-candidate-has-the-highest-quality', And(*[qs[j] <= qs[c] for j in range(n)]))
        v.check('ties-go-to-the-earlier-candidate', And(*[qs[j] < qs[c] for j in range(c)]))
        v.cover('chosen')

    return best_match_spec


for _n in (0, 1, 2, 3):
    harness(PROP, MT_MOD + ':best_match', name='best_match[candidates=%d]' % _n, setup=_mediatypes_setup)(_best_match_n(_n))
