"""C12 -- request media is parsed at most once; media (de)serialisation plumbing.

Decided here, on the current source of
    falcon/request.py        Request.get_media, Request.media, Request.__init__ (base case: FRESH)
    falcon/asgi/request.py   Request.get_media, Request.media, Request.__init__ (base case: FRESH)
    falcon/media/json.py     JSONHandler.__init__/_deserialize/deserialize/deserialize_async/
                             _serialize_s/_serialize_b/_serialize_async_s/_serialize_async_b
    falcon/media/urlencoded.py  URLEncodedFormHandler._deserialize/deserialize/deserialize_async/serialize
    falcon/media/base.py     BaseHandler.deserialize_async / serialize_async (sync<->async bridges)
    falcon/response.py       Response.render_body (media branch), Response.media getter/setter
    falcon/asgi/response.py  Response.render_body (media branch)

Spec of get_media = class-invariant automaton over (_media, _media_error):

    FRESH  (_media is _UNSET, _media_error is None)
    VALUE  (_media set)
    ERROR  (_media_error set)

with a ghost trace of every interaction with the environment (handler registry,
handler, body stream).  `parses` = number of deserialize* calls ever made for
this request.  Invariant, assumed before and proved after every call:

    parses <= 1   and   (parses == 1  ==>  state is not FRESH)   and   not (VALUE and ERROR)

so any history of get_media()/media accesses parses at most once (induction on
the history; the base case is Request.__init__, which sets FRESH, parses = 0).
The handler, the registry and the stream are opaque stubs; every result they
may produce (a document, None, MediaNotFoundError, MediaMalformedError, another
exception, 415 from the registry) is explored.

Frames (what each step must leave alone; each has a mutation in KILLS that this clause refutes):
    get_media / media      on the request only _media / _media_error are written (the stream reference stays: a dropped
                           stream would be re-created and re-read); the raw headers / environ, the options shared by all
                           requests and the handler are only read -- in all three states
    JSON / form handlers   one handler object serves every request: parsing, serializing and the sync<->async bridges
                           leave no field on it; constructors set exactly the documented attributes (form handler: the
                           two parser options as given); every empty form is a new dict
    Response               render_body writes the rendering cache and (first rendering) the content type, nothing when
                           there is nothing to do; resp.media = x writes _media and the cache and keeps text / data;
                           reading resp.media writes nothing; options and handler are only read
Every harness declares its covers with v.expect_covers(...), so an outcome whose v.cover is never executed is reported too.
"""
from __future__ import annotations

import z3

from pyvc.core import And, ExcVal, Iff, Len, Outcome, PyRaise, SStr, mk_bool
from pyvc.harness import Ready, harness, native, stubclass

PROP = 'C12'
WREQ = 'falcon.request:Request'
AREQ = 'falcon.asgi.request:Request'
JSONH = 'falcon.media.json:JSONHandler'
URLH = 'falcon.media.urlencoded:URLEncodedFormHandler'
BASEH = 'falcon.media.base:BaseHandler'
WRESP = 'falcon.response:Response'
ARESP = 'falcon.asgi.response:Response'

DEFAULT_MEDIA_TYPE = 'application/json'


# ---------------------------------------------------------------------------
# helpers that work in both modes (symbolic exploration / concrete replay)


@stubclass
class Doc:
    """An opaque object (a deserialised document, a caller's default, ...)."""

    def __init__(self, what):
        self.what = what

    def __repr__(self):
        return '<Doc %s>' % self.what


def mk_exc(cls, *args):
    """An exception value of the interpreted program whose identity the contract can observe."""
    return ExcVal(cls, args, real=cls(*args))


def throw(v, e):
    """Raise `e` (made by mk_exc) into the subject."""
    if v.concrete:
        raise e.real
    raise PyRaise(e)


def ident(x):
    return x.real if isinstance(x, ExcVal) and x.real is not None else x


def same_exc(a, b):
    """Identity of two exception values (ExcVal wrapper or the real exception object)."""
    return a is not None and b is not None and ident(a) is ident(b)


def status_code(exc):
    """HTTP status code carried by an HTTPError value (None if it is not one)."""
    r = ident(exc)
    return getattr(r, 'status_code', None)


def unset(v):
    return v.real('falcon._typing:_UNSET')


def touch(v, target=None):
    """Record the subject's source span in the evidence when it is reached through attribute lookup."""
    if not v.concrete:
        v.closure(target or v.hdef.target)


def _finish(r):
    from pyvc.harness import _run_coro

    if hasattr(r, '__await__'):
        return _run_coro(r)
    return r


def get_attr(v, o, name):
    """`o.name` through the real attribute lookup (properties included) -> Outcome."""
    if v.concrete:
        try:
            return Outcome(value=_finish(getattr(o, name)))
        except Exception as e:  # noqa: BLE001
            return Outcome(exc=ExcVal(type(e), e.args, real=e))
    try:
        return Outcome(value=v.interp.getattr(o, name))
    except PyRaise as e:
        return Outcome(exc=e.exc)


# --- frames: "what the function does not say it changes, it leaves alone" ------------------------


def snapshot(o):
    """All fields of an object as {name: value}: the field record of an interpreted object, the slots and __dict__ of a real one."""
    from pyvc.core import Obj

    if isinstance(o, Obj):
        return dict(o._fields)
    out = {}
    for c in type(o).__mro__:
        sl = c.__dict__.get('__slots__', ())
        for n in ((sl,) if isinstance(sl, str) else sl):
            try:
                out[n] = object.__getattribute__(o, n)
            except AttributeError:
                pass
    out.update(getattr(o, '__dict__', {}))
    return out


def same_fields(now, before, except_for=()):
    """No field added, none removed, every field (other than `except_for`) still bound to the very same object."""
    return set(now) == set(before) and all(now[k] is before[k] for k in before if k not in except_for)


def same_mapping(now, before):
    """A dict still has the same keys, in the same order, bound to the very same objects."""
    return list(now) == list(before) and all(now[k] is before[k] for k in before)


def seq_eq(got, want):
    """Exact equality of two event lists; objects by identity, strings/ints by value."""
    if len(got) != len(want):
        return False
    conj = []
    for g, w in zip(got, want):
        if len(g) != len(w):
            return False
        for a, b in zip(g, w):
            if isinstance(b, (str, bytes, int, SStr)) and not isinstance(b, bool) or isinstance(a, SStr):
                if type(a) in (str, bytes, int) and type(b) in (str, bytes, int):
                    if a != b:
                        return False
                else:
                    conj.append(a == b)
            elif a is not b:
                return False
    return And(*conj) if conj else True


# ---------------------------------------------------------------------------
# environment of Request.get_media: registry, handler, body stream


@stubclass
class MediaHandler:
    """Any media handler: deserialize/deserialize_async/_deserialize_sync with every possible result."""

    def __init__(self, v, trace, exhaust_stream):
        self.v = v
        self.trace = trace
        self.exhaust_stream = exhaust_stream
        self.result = None
        self.raised = None
        self.returned = False

    def _outcome(self):
        v = self.v
        k = v.choose(5, 'deserialize-outcome')
        if k in (0, 1):
            self.returned = True
            self.result = Doc('parsed document') if k == 0 else None  # JSON `null` deserialises to None
            return self.result
        if k == 2:
            self.raised = mk_exc(v.real('falcon.errors:MediaNotFoundError'), 'JSON')
        elif k == 3:
            self.raised = mk_exc(v.real('falcon.errors:MediaMalformedError'), 'JSON')
        else:
            self.raised = mk_exc(RuntimeError, 'handler failure')
        throw(v, self.raised)

    def deserialize(self, stream, content_type, content_length):
        self.trace.append(('deserialize', stream, content_type, content_length))
        return self._outcome()

    def deserialize_async(self, stream, content_type, content_length):
        self.trace.append(('deserialize_async', stream, content_type, content_length))
        return Ready(self._outcome())

    def deserialize_sync(self, data):
        self.trace.append(('deserialize_sync', data))
        return self._outcome()


@stubclass
class HandlerRegistry:
    """options.media_handlers: _resolve(media_type, default) -> (handler, serialize_sync, deserialize_sync) or 415."""

    def __init__(self, v, trace, handler, sync_path=False, may_fail=True):
        self.v = v
        self.trace = trace
        self.handler = handler
        self.sync_path = sync_path
        self.may_fail = may_fail
        self.raised = None

    def _resolve(self, media_type, default, raise_not_found=True):
        v = self.v
        self.trace.append(('resolve', media_type, default))
        if self.may_fail and v.choose(2, 'resolve-fails'):
            if not raise_not_found:
                return (None, None, None)  # (contract of C11: no handler, no exception, when asked not to raise)
            self.raised = mk_exc(v.real('falcon.errors:HTTPUnsupportedMediaType'))
            throw(v, self.raised)
        h = self.handler
        if self.sync_path:
            return (h, getattr(h, 'serialize_sync', None), getattr(h, 'deserialize_sync', None))
        return (h, None, None)


@stubclass
class Options:
    def __init__(self, registry, default_media_type=DEFAULT_MEDIA_TYPE):
        self.media_handlers = registry
        self.default_media_type = default_media_type


@stubclass
class WsgiBody:
    """req.bounded_stream (contract of C07): observed through the trace only."""

    def __init__(self, v, trace):
        self.trace = trace
        self.body = v.bytes('body')

    def read(self, size=None):
        self.trace.append(('read', size))
        return self.body

    def exhaust(self, chunk_size=65536):
        self.trace.append(('exhaust',))


@stubclass
class RawInput:
    """req.stream of a WSGI request: the server's raw wsgi.input (reading it is not bounded by the Content-Length)."""

    def __init__(self, trace):
        self.trace = trace

    def read(self, size=None):
        self.trace.append(('raw-read', size))
        return b''


@stubclass
class AsgiBody:
    """req.stream (ASGI, contract of C07): observed through the trace only."""

    def __pyvc_truth__(self):
        return True  # an ordinary object (no __bool__/__len__): always true, as for the real class

    def __init__(self, v, trace):
        self.trace = trace
        self.body = v.bytes('body')

    def read(self, size=None):
        self.trace.append(('read', size))
        return Ready(self.body)

    def exhaust(self):
        self.trace.append(('exhaust',))
        return Ready(None)


class World:
    """A request in one of the three automaton states plus its (stub) environment."""


def mk_world(v, asgi, with_default=True):
    w = World()
    w.asgi = asgi
    w.trace = []
    w.exhaust = v.bool('exhaust_stream')
    w.handler = MediaHandler(v, w.trace, w.exhaust)
    # (the registry hands out the handler's sync fast path or None -- to both stacks; only the ASGI request may use it)
    w.sync_path = bool(v.choose(2, 'deserialize_sync-offered'))
    w.registry = HandlerRegistry(v, w.trace, w.handler, sync_path=w.sync_path)
    # (req_options.default_media_type is configuration: App(media_type=...) / app.req_options.default_media_type = ...)
    w.dmt = v.str('default_media_type')
    w.options = Options(w.registry, w.dmt)
    w.ct = v.str('content_type') if v.choose(2, 'content-type?') else None  # any value, parameters and +json suffixes included
    # the Content-Length the client sent (the inlined content_length accessor reads it): absent / a number / empty (wsgiref sends
    # that for "no header") / not a number / negative -- the last two are refused by the accessor (C09) with a 400
    cl_raw = [None, '17', '', 'x1', '-1'][v.choose(5, 'content-length')]
    w.has_cl = cl_raw is not None
    w.cl = 17 if cl_raw == '17' else None
    w.cl_invalid = cl_raw in ('x1', '-1')
    UNSET = unset(v)
    w.state = v.choose(3, 'state')  # 0 FRESH, 1 VALUE, 2 ERROR
    w.m0 = UNSET
    w.e0 = None
    w.e0_not_found = False
    if w.state == 1:
        w.m0 = Doc('cached document') if v.choose(2, 'cached-kind') == 0 else None
    elif w.state == 2:
        k = v.choose(3, 'cached-error')
        cls = [v.real('falcon.errors:MediaNotFoundError'), v.real('falcon.errors:MediaMalformedError'), RuntimeError][k]
        w.e0 = mk_exc(cls, 'JSON')
        w.e0_not_found = k == 0
    # ghost: parse attempts made so far for this request
    w.parses0 = 0 if w.state == 0 else 1
    e0_field = (w.e0.real if v.concrete else w.e0) if w.e0 is not None else None
    if asgi:
        w.stream = AsgiBody(v, w.trace)
        hdrs = w.raw_headers = {b'content-length': cl_raw.encode()} if w.has_cl else {}
        w.req = v.obj(AREQ, _media=w.m0, _media_error=e0_field, options=w.options, content_type=w.ct, _asgi_headers=hdrs,
                      is_websocket=False, _stream=w.stream)
    else:
        w.stream = WsgiBody(v, w.trace)
        env = w.raw_headers = {'CONTENT_LENGTH': cl_raw} if w.has_cl else {}
        w.req = v.obj(WREQ, _media=w.m0, _media_error=e0_field, options=w.options, content_type=w.ct, env=env, _bounded_stream=w.stream,
                      stream=RawInput(w.trace))
    d = v.choose(3, 'default_when_empty') if with_default else 0
    w.default_given = d != 0
    w.default = Doc("caller's default") if d == 1 else None
    # what must come out of any call as it went in
    w.req0, w.raw_headers0, w.options0, w.handler0 = snapshot(w.req), dict(w.raw_headers), snapshot(w.options), snapshot(w.handler)
    names = ['state-VALUE', 'state-ERROR-reraise', 'fresh-success', 'fresh-error-raised', 'fresh-415', 'fresh-invalid-content-length']
    v.expect_covers(*(names + (['state-ERROR-default', 'fresh-not-found-default'] if with_default else [])))
    return w


def spec_get_media(v, w, out):
    """Post-condition of one get_media(default_when_empty=...) / media access, written from the statement."""
    UNSET = unset(v)
    req, trace, h = w.req, w.trace, w.handler
    m1 = v.get(req, '_media')
    e1 = v.get(req, '_media_error')
    parses = [e for e in trace if e[0].startswith('deserialize')]
    stream_ops = [e for e in trace if e[0] in ('read', 'exhaust')]
    resolves = [e for e in trace if e[0] == 'resolve']

    # ---- the invariant that makes every history parse at most once ------------------------
    # (stated last on every path: a failed clause ends its path, the specific sentence should be the one named)
    total = w.parses0 + len(parses)
    fresh_after = m1 is UNSET and e1 is None

    def invariant():
        # frame, in every state: get_media writes the two cache fields of the request and nothing else -- not the stream
        # reference (a dropped stream would be re-created, and re-read, by the next access), not the options shared by all
        # requests, not the raw headers / environ it reads the Content-Length from, not the handler
        v.check('writes-nothing-on-the-request-but-the-media-cache', same_fields(snapshot(req), w.req0, except_for=('_media', '_media_error')))
        v.check('request-headers-are-only-read', same_mapping(w.raw_headers, w.raw_headers0))
        v.check('options-and-handler-are-only-read', same_fields(snapshot(w.options), w.options0)
                and same_fields(snapshot(h), w.handler0, except_for=('result', 'raised', 'returned')))
        v.check('raw-server-input-is-never-read', len([e for e in trace if e[0] == 'raw-read']) == 0)
        v.check('parsed-at-most-once', total <= 1)
        v.check('after-a-parse-attempt-the-result-is-cached', not (total == 1 and fresh_after))
        v.check('never-both-value-and-error', m1 is UNSET or e1 is None)

    if w.state == 1:
        v.check('cached-value-returned-identical', out.exc is None and out.value is w.m0)
        v.check('cached-value-call-touches-neither-stream-nor-handler', len(trace) == 0)
        v.check('cached-value-kept', m1 is w.m0 and e1 is None)
        v.cover('state-VALUE')
        invariant()
        return
    if w.state == 2:
        if w.e0_not_found and w.default_given:
            v.check('cached-not-found-yields-callers-default', out.exc is None and out.value is w.default)
            v.cover('state-ERROR-default')
        else:
            v.check('cached-error-reraised-identical', out.exc is not None and same_exc(out.exc, w.e0))
            v.cover('state-ERROR-reraise')
        v.check('cached-error-call-touches-neither-stream-nor-handler', len(trace) == 0)
        v.check('cached-error-kept-and-default-not-cached', m1 is UNSET and same_exc(e1, w.e0))
        invariant()
        return

    # ---- FRESH ---------------------------------------------------------------------------
    v.check('exactly-one-handler-resolution', seq_eq(resolves, [('resolve', w.ct, w.dmt)]))
    if w.registry.raised is not None:
        v.check('unsupported-media-type-propagates', out.exc is not None and same_exc(out.exc, w.registry.raised))
        v.check('unsupported-media-type-neither-parses-nor-touches-stream', len(parses) == 0 and len(stream_ops) == 0)
        v.check('unsupported-media-type-leaves-request-fresh', fresh_after)
        v.cover('fresh-415')
        invariant()
        return
    # the sync fast path (handler._deserialize_sync applied to the bytes of ONE unsized read of the bounded body stream, C11):
    # what the ASGI request does whenever the registry offers it; the WSGI request does not use it today, but may
    fast = w.sync_path and (w.asgi or len([e for e in parses if e[0] == 'deserialize_sync']) > 0)
    if w.cl_invalid and not fast:
        # a Content-Length that is not a non-negative number: a 400 like any other undecodable input, no handler sees the
        # body, and -- "later calls re-raise the same error" -- the error is cached like a handler's (state ERROR)
        v.check('invalid-content-length-raises-a-400-class-error', out.exc is not None and out.exc.isa(v.real('falcon.errors:HTTPInvalidHeader')) and status_code(out.exc) == 400)
        v.check('invalid-content-length-is-never-handed-to-a-handler', len(parses) == 0)
        v.check('invalid-content-length-error-is-cached-for-later-calls', out.exc is not None and same_exc(e1, out.exc) and m1 is UNSET)
        n_exh = len([e for e in stream_ops if e[0] == 'exhaust'])
        v.check('stream-exhausted-exactly-once-iff-handler-asks', And(Iff(w.exhaust, n_exh == 1), n_exh <= 1))
        v.check('get_media-itself-reads-only-what-the-fast-path-needs', len([e for e in stream_ops if e[0] == 'read']) == 0)
        v.cover('fresh-invalid-content-length')
        invariant()
        return
    if fast:
        # (the fast path hands the handler the bytes only: the Content-Length is not consulted at all)
        want_parse = [('deserialize_sync', w.stream.body)]
        want_reads = [('read', None)]
    elif w.asgi:
        want_parse = [('deserialize_async', w.stream, w.ct, w.cl)]
        want_reads = []
    else:
        want_parse = [('deserialize', w.stream, w.ct, w.cl)]
        want_reads = []
    v.check('exactly-one-parse-of-the-body-stream', seq_eq(parses, want_parse))
    n_exh = len([e for e in stream_ops if e[0] == 'exhaust'])
    v.check('stream-exhausted-exactly-once-iff-handler-asks', And(Iff(w.exhaust, n_exh == 1), n_exh <= 1))
    v.check('get_media-itself-reads-only-what-the-fast-path-needs', seq_eq([e for e in stream_ops if e[0] == 'read'], want_reads))
    if n_exh:
        v.check('stream-exhausted-after-the-parse', trace[-1] == ('exhaust',) and trace[-2][0].startswith('deserialize'))
    if h.returned:
        v.check('parsed-value-returned', out.exc is None and out.value is h.result)
        v.check('parsed-value-cached', m1 is h.result and m1 is not UNSET and e1 is None)
        v.cover('fresh-success')
        invariant()
        return
    v.check('handler-error-cached-identical', same_exc(e1, h.raised))
    v.check('failed-parse-caches-no-value', m1 is UNSET)
    if h.raised.isa(v.real('falcon.errors:MediaNotFoundError')) and w.default_given:
        v.check('empty-body-yields-callers-default', out.exc is None and out.value is w.default)
        v.cover('fresh-not-found-default')
    else:
        v.check('handler-error-raised-identical', out.exc is not None and same_exc(out.exc, h.raised))
        v.cover('fresh-error-raised')
    invariant()


def _call_get_media(v, w):
    if w.default_given:
        return v.call(w.req, default_when_empty=w.default)
    return v.call(w.req)


@harness(PROP, WREQ + '.get_media', inline=[WREQ + '.content_length', WREQ + '.bounded_stream'])
def wsgi_get_media(v):
    w = mk_world(v, asgi=False)
    out = _call_get_media(v, w)
    spec_get_media(v, w, out)


@harness(PROP, AREQ + '.get_media', inline=[AREQ + '.content_length', AREQ + '.stream'])
def asgi_get_media(v):
    w = mk_world(v, asgi=True)
    out = _call_get_media(v, w)
    spec_get_media(v, w, out)


@harness(PROP, WREQ + '.media', inline=[WREQ + '.content_length', WREQ + '.bounded_stream'])
def wsgi_media_property(v):
    """req.media is get_media() without a default: same automaton, reached through the real attribute lookup."""
    cls = v.real(WREQ)
    p = cls.__dict__.get('media')
    v.check('media-is-a-property-over-get_media', isinstance(p, property) and p.fget is cls.__dict__['get_media'])
    touch(v, WREQ + '.get_media')
    w = mk_world(v, asgi=False, with_default=False)
    out = get_attr(v, w.req, 'media')
    spec_get_media(v, w, out)


@harness(PROP, AREQ + '.media', inline=[AREQ + '.content_length', AREQ + '.stream'])
def asgi_media_property(v):
    cls = v.real(AREQ)
    p = cls.__dict__.get('media')
    v.check('media-is-a-property-over-get_media', isinstance(p, property) and p.fget is cls.__dict__['get_media'])
    touch(v, AREQ + '.get_media')
    w = mk_world(v, asgi=True, with_default=False)
    out = get_attr(v, w.req, 'media')
    spec_get_media(v, w, out)


def _environ(v, body_type):
    from falcon import testing

    body = b'a=1&b=&c=x,y' if 'form' in body_type else b'{}'
    return testing.create_environ(path='/things', method='POST', query_string='q=1,2&r=', headers={'Content-Type': body_type}, body=body)


@harness(PROP, WREQ + '.__init__', inline=['falcon.*'])
def wsgi_request_starts_fresh(v):
    """Base case of the induction: a new request is FRESH (nothing parsed, nothing cached)."""
    v.expect_covers('constructed')
    UNSET = unset(v)
    ct = ['application/json', 'application/x-www-form-urlencoded'][v.choose(2, 'content-type')]
    trace = []
    opts = Options(HandlerRegistry(v, trace, MediaHandler(v, trace, False)))
    # every request option the constructor reads, both ways; with the (deprecated) auto_parse_form_urlencoded the constructor
    # itself consumes a form body into the query parameters -- the media cache must still start out FRESH
    opts.strip_url_path_trailing_slash = bool(v.choose(2, 'strip_url_path_trailing_slash'))
    opts._auto_parse_form_urlencoded = bool(v.choose(2, 'auto_parse_form_urlencoded'))
    opts.keep_blank_qs_values = bool(v.choose(2, 'keep_blank_qs_values'))
    opts.auto_parse_qs_csv = bool(v.choose(2, 'auto_parse_qs_csv'))
    req = v.obj(WREQ)
    out = v.call(req, _environ(v, ct), opts)
    v.check('no-exception', out.exc is None)
    if out.exc is not None:
        return
    v.check('new-request-is-fresh', v.get(req, '_media') is UNSET and v.get(req, '_media_error') is None)
    v.check('construction-neither-resolves-nor-parses', len(trace) == 0)
    v.cover('constructed')


@harness(PROP, AREQ + '.__init__', inline=['falcon.*'])
def asgi_request_starts_fresh(v):
    """ASGI: the two fields are class-level defaults; after construction the instance still reads FRESH."""
    from falcon import testing

    v.expect_covers('constructed')
    UNSET = unset(v)
    ct = ['application/json', 'application/x-www-form-urlencoded'][v.choose(2, 'content-type')]
    trace = []
    opts = Options(HandlerRegistry(v, trace, MediaHandler(v, trace, False)))
    opts.strip_url_path_trailing_slash = bool(v.choose(2, 'strip_url_path_trailing_slash'))
    opts._auto_parse_form_urlencoded = False  # (not read by the ASGI constructor: asgi.App refuses to start with it, lifespan check)
    opts.keep_blank_qs_values = bool(v.choose(2, 'keep_blank_qs_values'))
    opts.auto_parse_qs_csv = bool(v.choose(2, 'auto_parse_qs_csv'))
    scope = testing.create_scope(path='/things', method='POST', query_string='q=1,2&r=', headers={'Content-Type': ct})
    receive = Doc('receive callable')
    req = v.obj(AREQ)
    out = v.call(req, scope, receive, None, opts)
    v.check('no-exception', out.exc is None)
    if out.exc is not None:
        return
    m, e = get_attr(v, req, '_media'), get_attr(v, req, '_media_error')
    v.check('new-request-is-fresh', m.exc is None and e.exc is None and m.value is UNSET and e.value is None)
    v.check('construction-neither-resolves-nor-parses', len(trace) == 0)
    v.cover('constructed')


# ---------------------------------------------------------------------------
# codecs: bytes <-> str.  Byte strings are SMT strings over code points 0..255
# (latin-1 view); UTF-8 well-formedness is the exact regular language of RFC 3629.


def _R(a, b):
    return z3.Range(z3.StringVal(chr(a)), z3.StringVal(chr(b)))


_RE = {}


def _re(name):
    if not _RE:
        c = _R(0x80, 0xBF)
        _RE['utf8'] = z3.Star(z3.Union(
            _R(0x00, 0x7F),
            z3.Concat(_R(0xC2, 0xDF), c),
            z3.Concat(_R(0xE0, 0xE0), _R(0xA0, 0xBF), c),
            z3.Concat(_R(0xE1, 0xEC), c, c),
            z3.Concat(_R(0xED, 0xED), _R(0x80, 0x9F), c),
            z3.Concat(_R(0xEE, 0xEF), c, c),
            z3.Concat(_R(0xF0, 0xF0), _R(0x90, 0xBF), c, c),
            z3.Concat(_R(0xF1, 0xF3), c, c, c),
            z3.Concat(_R(0xF4, 0xF4), _R(0x80, 0x8F), c, c),
        ))
        _RE['ascii'] = z3.Star(_R(0x00, 0x7F))
        _RE['bytes'] = z3.Star(_R(0x00, 0xFF))
        # text that UTF-8 can encode: no surrogate code points (z3 characters end at U+2FFFF)
        _RE['scalar'] = z3.Star(z3.Union(_R(0x0000, 0xD7FF), _R(0xE000, 0x2FFFF)))
    return _RE[name]


def _UF(name):
    return z3.Function(name, z3.StringSort(), z3.StringSort())


def _norm_enc(enc):
    e = enc.lower().replace('_', '-')
    return {'utf8': 'utf-8', 'us-ascii': 'ascii', 'latin1': 'latin-1', 'iso-8859-1': 'latin-1'}.get(e, e)


def codec_model(ctx, direction, s, enc, errors):
    """bytes.decode / str.encode with errors='strict' for utf-8 and ascii (Python codec documentation)."""
    from pyvc.core import Unreached

    enc = _norm_enc(enc)
    if errors != 'strict':
        raise Unreached('codec error handler %r' % errors)
    if direction == 'decode' and enc == 'utf-8':
        if ctx.branch(z3.Not(z3.InRe(s.t, _re('utf8'))), label='utf8-undecodable'):
            raise PyRaise(ExcVal(UnicodeDecodeError, ('utf-8', b'', 0, 1, 'invalid start byte')))
        r = _UF('utf8.decode')(s.t)
        ctx.assume(mk_bool(z3.And(z3.Length(r) <= z3.Length(s.t), (z3.Length(r) == 0) == (z3.Length(s.t) == 0), z3.InRe(r, _re('scalar')))))
        return SStr(r, 'str')
    if direction == 'decode' and enc == 'ascii':
        if ctx.branch(z3.Not(z3.InRe(s.t, _re('ascii'))), label='ascii-undecodable'):
            raise PyRaise(ExcVal(UnicodeDecodeError, ('ascii', b'', 0, 1, 'ordinal not in range(128)')))
        return SStr(s.t, 'str')  # same code points
    if direction == 'encode' and enc == 'utf-8':
        if ctx.branch(z3.Not(z3.InRe(s.t, _re('scalar'))), label='utf8-unencodable'):
            raise PyRaise(ExcVal(UnicodeEncodeError, ('utf-8', '', 0, 1, 'surrogates not allowed')))
        r = _UF('utf8.encode')(s.t)
        ctx.assume(mk_bool(z3.And(
            z3.InRe(r, _re('utf8')),
            _UF('utf8.decode')(r) == s.t,
            z3.Length(r) >= z3.Length(s.t),
            (z3.Length(r) == 0) == (z3.Length(s.t) == 0),
            z3.Implies(z3.InRe(s.t, _re('ascii')), r == s.t),
        )))
        return SStr(r, 'bytes')
    if direction == 'encode' and enc == 'latin-1':
        if ctx.branch(z3.Not(z3.InRe(s.t, _re('bytes'))), label='latin1-unencodable'):
            raise PyRaise(ExcVal(UnicodeEncodeError, ('latin-1', '', 0, 1, 'ordinal not in range(256)')))
        return SStr(s.t, 'bytes')  # same code points
    raise Unreached('%s with codec %r has no model' % (direction, enc))


def _codecs(reg, ex):
    ex.codec_handler = codec_model


def in_re(v, x, name):
    """Spec-side membership (both modes)."""
    if isinstance(x, SStr):
        return mk_bool(z3.InRe(x.t, _re(name)))
    if name == 'utf8':
        try:
            x.decode('utf-8')
            return True
        except UnicodeDecodeError:
            return False
    if name == 'ascii':
        return all((c if isinstance(c, int) else ord(c)) < 128 for c in x)
    if name == 'scalar':
        return not any(0xD800 <= ord(c) <= 0xDFFF for c in x)
    if name == 'bytes':
        return True
    raise KeyError(name)


def utf8_encoded(x):
    return SStr(_UF('utf8.encode')(x.t), 'bytes') if isinstance(x, SStr) else x.encode('utf-8')


def utf8_decoded(x):
    return SStr(_UF('utf8.decode')(x.t), 'str') if isinstance(x, SStr) else x.decode('utf-8')


def in_bytes(v, name):
    b = v.bytes(name)
    v.assume(in_re(v, b, 'bytes'))
    return b


# ---------------------------------------------------------------------------
# JSONHandler


@stubclass
class Loads:
    """json.loads (or a drop-in): a document, or a ValueError of one of the three kinds seen in practice."""

    def __pyvc_truth__(self):
        return True  # a callable object: always true

    def __init__(self, v):
        self.v = v
        self.calls = []
        self.result = None
        self.returned = False
        self.raised = None

    def __call__(self, text):
        import json

        v = self.v
        self.calls.append(text)
        k = v.choose(5, 'loads-outcome')
        if k in (0, 1):
            self.returned = True
            self.result = Doc('loaded document') if k == 0 else None
            return self.result
        if k == 2:
            self.raised = mk_exc(ValueError, 'malformed document')
        elif k == 3:
            self.raised = mk_exc(json.JSONDecodeError, 'Expecting value', 'x', 0)
        else:
            self.raised = mk_exc(UnicodeDecodeError, 'utf-8', b'\xff', 0, 1, 'invalid start byte')
        throw(v, self.raised)


@stubclass
class Dumps:
    """json.dumps (or a drop-in such as orjson.dumps that returns bytes)."""

    def __pyvc_truth__(self):
        return True  # an ordinary object (no __bool__/__len__): always true, as for the real class

    def __init__(self, v, returns_bytes, json_text=False):
        self.v = v
        self.returns_bytes = returns_bytes
        self.json_text = json_text
        self.calls = []
        self.results = []

    def __call__(self, media):
        v = self.v
        self.calls.append(media)
        if self.returns_bytes:
            r = in_bytes(v, 'dumped_bytes')
        else:
            r = v.str('dumped_text')
            v.assume(in_re(v, r, 'scalar'))  # ASSUMPTIONS: the serialised text has no lone surrogates
        if self.json_text:
            v.assume(Len(r) > 0)  # ASSUMPTIONS: a JSON text is never empty
            if self.returns_bytes:
                v.assume(in_re(v, r, 'utf8'))  # ASSUMPTIONS: an encoder that returns bytes returns UTF-8
        self.results.append(r)
        return r


@stubclass
class ByteSource:
    """A body stream whose read() returns the whole declared body (C07); sync or async."""

    def __init__(self, body, is_async=False):
        self.body = body
        self.is_async = is_async
        self.reads = []

    def read(self, size=None):
        self.reads.append(size)
        return Ready(self.body) if self.is_async else self.body


def json_deserialize_post(v, data, loads, out, h=None, h0=None):
    """JSONHandler._deserialize(data), from the statement: empty -> not found; undecodable -> 400 malformed."""
    NotFound = v.real('falcon.errors:MediaNotFoundError')
    Malformed = v.real('falcon.errors:MediaMalformedError')
    v.expect_covers('empty', 'not-utf8', 'document', 'rejected-by-loads')
    if h is not None:
        # frame: one handler object serves every request of the app -- parsing a body leaves nothing of it on the handler
        v.check('parsing-leaves-the-handler-unchanged', same_fields(snapshot(h), h0))
    if Len(data) == 0:
        v.check('empty-body-raises-media-not-found', out.exc is not None and out.exc.isa(NotFound) and status_code(out.exc) == 400)
        v.check('empty-body-never-reaches-loads', len(loads.calls) == 0)
        v.cover('empty')
        return
    if not in_re(v, data, 'utf8'):
        v.check('bytes-that-are-not-utf8-raise-malformed-media-400', out.exc is not None and out.exc.isa(Malformed) and status_code(out.exc) == 400)
        v.check('undecodable-bytes-never-reach-loads', len(loads.calls) == 0)
        v.cover('not-utf8')
        return
    v.check('loads-called-exactly-once-with-the-utf8-decoded-body', And(len(loads.calls) == 1, loads.calls[0] == utf8_decoded(data)) if len(loads.calls) == 1 else False)
    if loads.returned:
        v.check('returns-the-document-loads-returned', out.exc is None and out.value is loads.result)
        v.cover('document')
    else:
        v.check('text-rejected-by-loads-raises-malformed-media-400', out.exc is not None and out.exc.isa(Malformed) and status_code(out.exc) == 400)
        v.cover('rejected-by-loads')


@harness(PROP, JSONH + '._deserialize', setup=_codecs)
def json__deserialize(v):
    data = in_bytes(v, 'data')
    loads = Loads(v)
    h = v.obj(JSONH, _loads=loads, _dumps=None)
    h0 = snapshot(h)
    out = v.call(h, data)
    json_deserialize_post(v, data, loads, out, h, h0)


@harness(PROP, JSONH + '.deserialize', setup=_codecs, inline=[JSONH + '._deserialize'])
def json_deserialize(v):
    """deserialize(stream, ...) == _deserialize(stream.read()): one unsized read of the whole body."""
    data = in_bytes(v, 'body')
    src = ByteSource(data)
    loads = Loads(v)
    h = v.obj(JSONH, _loads=loads, _dumps=None)
    cl = v.int('content_length', 0) if v.choose(2, 'content-length?') else None
    # the content type the request declared, as get_media passes it on: any value (parameters, +json suffixes ...) or none at all
    ct = v.str('content_type') if v.choose(2, 'content-type?') else None
    h0 = snapshot(h)
    out = v.call(h, src, ct, cl)
    v.check('reads-the-whole-body-with-one-unsized-read', src.reads == [None])
    json_deserialize_post(v, data, loads, out, h, h0)


@harness(PROP, JSONH + '.deserialize_async', setup=_codecs, inline=[JSONH + '._deserialize'])
def json_deserialize_async(v):
    data = in_bytes(v, 'body')
    src = ByteSource(data, is_async=True)
    loads = Loads(v)
    h = v.obj(JSONH, _loads=loads, _dumps=None)
    cl = v.int('content_length', 0) if v.choose(2, 'content-length?') else None
    # the content type the request declared, as get_media passes it on: any value (parameters, +json suffixes ...) or none at all
    ct = v.str('content_type') if v.choose(2, 'content-type?') else None
    h0 = snapshot(h)
    out = v.call(h, src, ct, cl)
    v.check('reads-the-whole-body-with-one-unsized-read', src.reads == [None])
    json_deserialize_post(v, data, loads, out, h, h0)


def _serialize_variant(v, async_, returns_bytes):
    v.expect_covers('serialized')
    dumps = Dumps(v, returns_bytes)
    h = v.obj(JSONH, _dumps=dumps, _loads=None)
    media = Doc('response media')
    h0 = snapshot(h)
    if async_ or v.choose(2, 'content-type-passed'):
        out = v.call(h, media, v.str('content_type'))  # (the response's content type: any value, e.g. with a charset parameter)
    else:
        out = v.call(h, media)  # Response.render_body shortcut: content_type is optional for the sync variants
    v.check('no-exception', out.exc is None)
    if out.exc is not None:
        return
    v.check('dumps-called-exactly-once-with-the-media-object', len(dumps.calls) == 1 and dumps.calls[0] is media)
    v.check('serializing-leaves-the-handler-unchanged', same_fields(snapshot(h), h0))  # (no rendering kept on the shared handler)
    if len(dumps.results) != 1:
        return
    if returns_bytes:
        v.check('returns-the-bytes-dumps-produced', out.value == dumps.results[0])
    else:
        v.check('returns-dumps-text-encoded-as-utf8', out.value == utf8_encoded(dumps.results[0]))
    v.cover('serialized')


@harness(PROP, JSONH + '._serialize_s', setup=_codecs)
def json_serialize_s(v):
    _serialize_variant(v, False, False)


@harness(PROP, JSONH + '._serialize_b', setup=_codecs)
def json_serialize_b(v):
    _serialize_variant(v, False, True)


@harness(PROP, JSONH + '._serialize_async_s', setup=_codecs)
def json_serialize_async_s(v):
    _serialize_variant(v, True, False)


@harness(PROP, JSONH + '._serialize_async_b', setup=_codecs)
def json_serialize_async_b(v):
    _serialize_variant(v, True, True)


def fn_name(m):
    """Name of the function behind a bound method (interpreted BoundMethod or real method)."""
    f = getattr(m, 'func', None)
    if f is not None and hasattr(f, 'qualname'):
        return f.qualname.split('.')[-1]
    f = getattr(m, '__func__', None)
    return getattr(f, '__name__', None)


def fn_self(m):
    return m.self_obj if hasattr(m, 'self_obj') else getattr(m, '__self__', None)


SAMPLE_DOCUMENTS = [{'message': 'Hello World'}, {'k': ['\u00e9\u4e16\U0001f600', 1, 2.5, True, None, {'n': -(2 ** 70)}], '"\\\n': ''}, [], 'x', 0, None]


@harness(PROP, JSONH + '.__init__', setup=_codecs)
def json_init(v):
    """The constructor picks the serializer by the type dumps returns and publishes the sync fast path (not for a subclass,
    whose overridden methods the fast path would bypass); omitted codecs default to the stdlib json functions."""
    import json

    v.expect_covers('constructed', 'constructed-with-default-codecs', 'constructed-subclass')
    cls = v.real(JSONH)
    subclassed = bool(v.choose(2, 'subclassed'))
    if subclassed:
        cls = type('AppJSONHandler', (cls,), {})
    dumps_given, loads_given = v.choose(2, 'dumps-given'), v.choose(2, 'loads-given')
    returns_bytes = bool(v.choose(2, 'dumps-returns-bytes')) if dumps_given else False
    dumps = Dumps(v, returns_bytes) if dumps_given else None
    loads = Loads(v) if loads_given else None
    h = v.obj(cls)
    if dumps_given and loads_given:
        out = v.call(h, dumps, loads)
    else:
        out = v.call(h, **dict(([('dumps', dumps)] if dumps_given else []) + ([('loads', loads)] if loads_given else [])))
    v.check('no-exception', out.exc is None)
    if out.exc is not None:
        return
    d, l = v.get(h, '_dumps'), v.get(h, '_loads')
    if dumps_given:
        v.check('uses-the-given-dumps-and-loads', d is dumps)
    else:
        # the default encoder produces JSON text which the stdlib decoder maps back to the document: checked on sample
        # documents (non-ASCII, astral, escape-worthy characters, a large int); the general statement is the json dependency contract
        texts = [d(m) for m in SAMPLE_DOCUMENTS] if callable(d) else [None]
        v.check('default-dumps-produces-json-text-that-decodes-back-to-the-document', all(isinstance(t, str) for t in texts)
                and all(json.loads(t) == m for t, m in zip(texts, SAMPLE_DOCUMENTS)))
    if loads_given:
        v.check('uses-the-given-dumps-and-loads', l is loads)
        v.check('probe-does-not-call-loads', len(loads.calls) == 0)
    else:
        v.check('default-loads-decodes-json-text-back-to-the-document', callable(l) and all(l(json.dumps(m)) == m and l(json.dumps(m, ensure_ascii=False)) == m for m in SAMPLE_DOCUMENTS))
    if not (dumps_given and loads_given):
        v.cover('constructed-with-default-codecs')
    ser, aser = v.get(h, 'serialize'), v.get(h, 'serialize_async')
    want = '_serialize_b' if returns_bytes else '_serialize_s'
    awant = '_serialize_async_b' if returns_bytes else '_serialize_async_s'
    v.check('serializer-encodes-iff-dumps-returns-text', fn_name(ser) == want and fn_self(ser) is h)
    v.check('async-serializer-encodes-iff-dumps-returns-text', fn_name(aser) == awant and fn_self(aser) is h)
    f = snapshot(h)
    if subclassed:
        # a subclass may override serialize / deserialize: the fast path (which calls _serialize_* / _deserialize directly)
        # must not be published for it, or request and response media would silently bypass the overrides
        v.check('subclass-does-not-publish-the-sync-fast-path', '_serialize_sync' not in f and '_deserialize_sync' not in f
                and getattr(cls, '_serialize_sync', None) is None and getattr(cls, '_deserialize_sync', None) is None)
        v.check('sets-exactly-the-codecs-and-entry-points', set(f) == {'_dumps', '_loads', 'serialize', 'serialize_async'})
        v.cover('constructed-subclass')
    else:
        ss, ds = v.get(h, '_serialize_sync'), v.get(h, '_deserialize_sync')
        v.check('sync-fast-path-is-the-same-serializer', fn_name(ss) == want and fn_self(ss) is h)
        v.check('sync-fast-path-deserializer-is-_deserialize', fn_name(ds) == '_deserialize' and fn_self(ds) is h)
        # frame: the constructor sets the two codecs and the four entry points, nothing else (the probe result is not kept)
        v.check('sets-exactly-the-codecs-and-entry-points', set(f) == {'_dumps', '_loads', 'serialize', 'serialize_async', '_serialize_sync', '_deserialize_sync'})
    v.cover('constructed')


@harness(PROP, JSONH + '.deserialize', name='json_round_trip_plumbing', setup=_codecs, inline=[JSONH + '._deserialize'])
def json_round_trip_plumbing(v):
    """deserialize(stream over serialize(m)) hands loads exactly the text dumps(m) produced.

    Hence deserialize(serialize(m)) == loads(dumps(m)); that this equals m is the assumed json contract.
    """
    v.expect_covers('round-trip', 'round-trip-rejected-by-loads', 'round-trip-of-a-bytes-encoder')
    # dumps returns text (stdlib json) or bytes (orjson-like: UTF-8 JSON): the constructor selects _serialize_s / _serialize_b
    returns_bytes = bool(v.choose(2, 'dumps-returns-bytes'))
    dumps = Dumps(v, returns_bytes, json_text=True)
    loads = Loads(v)
    h = v.obj(JSONH, _dumps=dumps, _loads=loads)
    media = Doc('response media')
    ct = v.str('content_type')  # "sent back as a request with the same content type": any one, on both sides
    h0 = snapshot(h)
    ser = v.call(h, media, ct, target=JSONH + ('._serialize_b' if returns_bytes else '._serialize_s'))
    if ser.exc is not None or len(dumps.results) != 1:
        v.check('serialize-does-not-raise', False)
        return
    text = dumps.results[0]  # (non-empty; UTF-8 when the encoder returns bytes: assumed where the stub produces it)
    body = ser.value
    is_async = bool(v.choose(2, 'asgi'))
    src = ByteSource(body, is_async=is_async)
    cl = v.int('content_length', 0) if v.choose(2, 'content-length?') else None  # (whatever the client declares)
    out = v.call(h, src, ct, cl, target=JSONH + ('.deserialize_async' if is_async else '.deserialize'))
    if returns_bytes:
        v.check('loads-receives-exactly-the-utf8-decoding-of-the-bytes-dumps-produced', And(len(loads.calls) == 1, loads.calls[0] == utf8_decoded(text)) if len(loads.calls) == 1 else False)
        v.cover('round-trip-of-a-bytes-encoder')
    else:
        v.check('loads-receives-exactly-the-text-dumps-produced', And(len(loads.calls) == 1, loads.calls[0] == text) if len(loads.calls) == 1 else False)
    v.check('round-trip-leaves-the-handler-unchanged', same_fields(snapshot(h), h0))
    v.check('round-trip-uses-each-codec-once', len(dumps.calls) == 1 and dumps.calls[0] is media and src.reads == [None])
    if loads.returned:
        v.check('round-trip-result-is-loads-of-dumps', out.exc is None and out.value is loads.result)
        v.cover('round-trip')
    else:
        v.check('round-trip-failure-only-if-loads-rejects-dumps-output', out.exc is not None and out.exc.isa(v.real('falcon.errors:MediaMalformedError')))
        v.cover('round-trip-rejected-by-loads')


# ---------------------------------------------------------------------------
# URLEncodedFormHandler


class patched:
    """Replace a module-level name of the (overlay) module while the subject runs: an opaque dependency."""

    def __init__(self, v, module, name, value):
        self.mod = v.real(module)
        self.name = name
        self.value = value

    def __enter__(self):
        self.saved = self.mod.__dict__[self.name]
        setattr(self.mod, self.name, self.value)
        return self.value

    def __exit__(self, *a):
        setattr(self.mod, self.name, self.saved)
        return False


@stubclass
class ParseQS:
    """falcon.util.uri.parse_query_string (contract of C08): a mapping, or any exception."""

    def __init__(self, v):
        self.v = v
        self.calls = []
        self.result = None
        self.returned = False
        self.raised = None

    def __call__(self, *args, **kwargs):
        v = self.v
        self.calls.append((args, kwargs))
        k = v.choose(3, 'parse-outcome')
        if k == 0:
            self.returned = True
            self.result = Doc('form mapping')
            return self.result
        self.raised = mk_exc(ValueError, 'bad form') if k == 1 else mk_exc(RuntimeError, 'unexpected parser failure')
        throw(v, self.raised)


def urlencoded_deserialize_post(v, body, pqs, keep_blank, csv, out, h=None, h0=None):
    Malformed = v.real('falcon.errors:MediaMalformedError')
    v.expect_covers('not-ascii', 'parsed', 'parser-raised')
    if h is not None:
        v.check('parsing-leaves-the-handler-unchanged', same_fields(snapshot(h), h0))
    if not in_re(v, body, 'ascii'):
        v.check('non-ascii-body-raises-malformed-media-400', out.exc is not None and out.exc.isa(Malformed) and status_code(out.exc) == 400)
        v.check('non-ascii-body-never-reaches-the-parser', len(pqs.calls) == 0)
        v.cover('not-ascii')
        return
    ok = len(pqs.calls) == 1
    v.check('parser-called-exactly-once', ok)
    if not ok:
        return
    args, kwargs = pqs.calls[0]
    v.check('parser-receives-the-ascii-decoded-body-and-the-handler-options',
            And(len(args) == 1 and sorted(kwargs) == ['csv', 'keep_blank'], args[0] == (SStr(body.t, 'str') if isinstance(body, SStr) else body.decode('ascii')),
                kwargs.get('keep_blank') is keep_blank, kwargs.get('csv') is csv))
    if pqs.returned:
        v.check('returns-the-mapping-the-parser-returned', out.exc is None and out.value is pqs.result)
        v.cover('parsed')
    else:
        v.check('any-parser-exception-raises-malformed-media-400', out.exc is not None and out.exc.isa(Malformed) and status_code(out.exc) == 400)
        v.cover('parser-raised')


def _urlencoded_world(v):
    body = in_bytes(v, 'body')
    keep_blank = bool(v.choose(2, 'keep_blank'))
    csv = bool(v.choose(2, 'csv'))
    h = v.obj(URLH, _keep_blank=keep_blank, _csv=csv)
    return body, keep_blank, csv, h, ParseQS(v)


def _declared(v):
    """What the request declares about its body, as get_media hands it to a handler: any content type (parameters such as a
    charset included) or none, any Content-Length (whatever the real length is) or none."""
    ct = v.str('content_type') if v.choose(2, 'content-type?') else None
    cl = v.int('content_length', 0) if v.choose(2, 'content-length?') else None
    return ct, cl


@harness(PROP, URLH + '._deserialize', setup=_codecs)
def urlencoded__deserialize(v):
    body, keep_blank, csv, h, pqs = _urlencoded_world(v)
    h0 = snapshot(h)
    with patched(v, 'falcon.media.urlencoded', 'parse_query_string', pqs):
        out = v.call(h, body)
    urlencoded_deserialize_post(v, body, pqs, keep_blank, csv, out, h, h0)


@harness(PROP, URLH + '.deserialize', setup=_codecs, inline=[URLH + '._deserialize'])
def urlencoded_deserialize(v):
    body, keep_blank, csv, h, pqs = _urlencoded_world(v)
    src = ByteSource(body)
    ct, cl = _declared(v)
    h0 = snapshot(h)
    with patched(v, 'falcon.media.urlencoded', 'parse_query_string', pqs):
        out = v.call(h, src, ct, cl)
    v.check('reads-the-whole-body-with-one-unsized-read', src.reads == [None])
    urlencoded_deserialize_post(v, body, pqs, keep_blank, csv, out, h, h0)


@harness(PROP, URLH + '.deserialize_async', setup=_codecs, inline=[URLH + '._deserialize'])
def urlencoded_deserialize_async(v):
    body, keep_blank, csv, h, pqs = _urlencoded_world(v)
    src = ByteSource(body, is_async=True)
    ct, cl = _declared(v)
    h0 = snapshot(h)
    with patched(v, 'falcon.media.urlencoded', 'parse_query_string', pqs):
        out = v.call(h, src, ct, cl)
    v.check('reads-the-whole-body-with-one-unsized-read', src.reads == [None])
    urlencoded_deserialize_post(v, body, pqs, keep_blank, csv, out, h, h0)


@harness(PROP, URLH + '._deserialize', name='urlencoded_empty_body', setup=_codecs, inline=['falcon.util.uri:parse_query_string'])
def urlencoded_empty_body(v):
    """An empty body yields what the handler documents: an empty dict (real parse_query_string, run on its source)."""
    v.expect_covers('empty-form')
    keep_blank = bool(v.choose(2, 'keep_blank'))
    csv = bool(v.choose(2, 'csv'))
    h = v.obj(URLH, _keep_blank=keep_blank, _csv=csv)
    out = v.call(h, b'')
    v.check('empty-body-is-an-empty-form', out.exc is None and isinstance(out.value, dict) and len(out.value) == 0)
    v.cover('empty-form')
    # frame across requests: the empty form is the request's media object and may be edited by the application; the next
    # empty request must get an empty form of its own
    if out.exc is None and isinstance(out.value, dict):
        out.value['added-by-the-application'] = 'x'
        out2 = v.call(h, b'')
        v.check('each-empty-form-is-a-new-empty-dict', out2.exc is None and isinstance(out2.value, dict) and out2.value is not out.value and len(out2.value) == 0)


@stubclass
class UrlEncode:
    """urllib.parse.urlencode: an ASCII query string."""

    def __init__(self, v):
        self.v = v
        self.calls = []
        self.results = []

    def __call__(self, *args, **kwargs):
        v = self.v
        self.calls.append((args, kwargs))
        r = v.str('urlencoded')
        v.assume(in_re(v, r, 'ascii'))
        self.results.append(r)
        return r


@harness(PROP, URLH + '.serialize', setup=_codecs)
def urlencoded_serialize(v):
    v.expect_covers('serialized')
    # (the two parser options of the handler, both ways: they configure parsing and must not leak into the encoding)
    h = v.obj(URLH, _keep_blank=bool(v.choose(2, 'keep_blank')), _csv=bool(v.choose(2, 'csv')))
    media = Doc('form mapping')
    ue = UrlEncode(v)
    h0 = snapshot(h)
    with patched(v, 'falcon.media.urlencoded', 'urlencode', ue):
        out = v.call(h, media, v.str('content_type')) if v.choose(2, 'content-type-passed') else v.call(h, media)
    v.check('no-exception', out.exc is None)
    if out.exc is not None:
        return
    ok = len(ue.calls) == 1
    v.check('urlencode-called-exactly-once', ok)
    if not ok:
        return
    args, kwargs = ue.calls[0]
    v.check('urlencode-receives-the-media-with-doseq', len(args) == 1 and args[0] is media and kwargs == {'doseq': True})
    v.check('serializing-leaves-the-handler-unchanged', same_fields(snapshot(h), h0))
    v.check('returns-the-query-string-as-bytes', And(out.value == utf8_encoded(ue.results[0]), out.value == (SStr(ue.results[0].t, 'bytes') if isinstance(ue.results[0], SStr) else ue.results[0].encode('ascii'))))
    v.cover('serialized')


@harness(PROP, URLH + '.__init__')
def urlencoded_init(v):
    v.expect_covers('constructed-with-arguments', 'constructed-with-defaults', 'constructed-subclass')
    keep_blank = bool(v.choose(2, 'keep_blank'))
    csv = bool(v.choose(2, 'csv'))
    cls = v.real(URLH)
    subclassed = bool(v.choose(2, 'subclassed'))
    if subclassed:
        cls = type('AppFormHandler', (cls,), {})
    h = v.obj(cls)
    explicit = v.choose(2, 'explicit-args')
    out = v.call(h, keep_blank, csv) if explicit else v.call(h)
    v.check('no-exception', out.exc is None)
    if out.exc is not None:
        return
    f = snapshot(h)
    if subclassed:
        # a subclass may override serialize / deserialize: the fast path (which calls serialize / _deserialize of this class
        # directly) must not be published for it
        v.check('subclass-does-not-publish-the-sync-fast-path', '_serialize_sync' not in f and '_deserialize_sync' not in f
                and getattr(cls, '_serialize_sync', None) is None and getattr(cls, '_deserialize_sync', None) is None)
        v.check('sets-exactly-the-options-and-the-fast-path', set(f) == {'_keep_blank', '_csv'})
        v.cover('constructed-subclass')
    else:
        ss, ds = v.get(h, '_serialize_sync'), v.get(h, '_deserialize_sync')
        v.check('sync-fast-path-is-serialize-and-_deserialize', fn_name(ss) == 'serialize' and fn_self(ss) is h and fn_name(ds) == '_deserialize' and fn_self(ds) is h)
        v.check('sets-exactly-the-options-and-the-fast-path', set(f) == {'_keep_blank', '_csv', '_serialize_sync', '_deserialize_sync'})
    # the two parser options are what _deserialize hands to parse_query_string: stored as given, documented defaults otherwise
    v.check('parser-options-stored-as-given-or-documented-defaults', f.get('_keep_blank') is (keep_blank if explicit else True) and f.get('_csv') is (csv if explicit else False))
    v.cover('constructed-with-arguments' if explicit else 'constructed-with-defaults')


# ---------------------------------------------------------------------------
# BaseHandler: sync <-> async bridges used by handlers that implement one side only


@stubclass
class GhostBytesIO:
    def __init__(self, data):
        self.data = data

    def getvalue(self):
        return self.data


def _bridge_setup(reg, ex):
    import io

    reg.add_model(io.BytesIO, lambda I, data=b'': GhostBytesIO(data))


class Recorder:
    def __init__(self):
        self.calls = []
        self.result = None
        self.raised = None


def sync_only_handler(v, rec):
    """A handler class that implements only the synchronous half (contract-side, runs natively)."""
    Base = v.real(BASEH)

    class SyncOnly(Base):
        @native
        def deserialize(self, stream, content_type, content_length):
            rec.calls.append(('deserialize', self, stream, content_type, content_length))
            return _either(v, rec)

        @native
        def serialize(self, media, content_type):
            rec.calls.append(('serialize', self, media, content_type))
            return _either(v, rec)

    return SyncOnly


def _either(v, rec):
    if v.choose(2, 'sync-half-raises'):
        rec.raised = mk_exc(v.real('falcon.errors:MediaMalformedError'), 'X')
        throw(v, rec.raised)
    rec.result = Doc('result of the synchronous half')
    return rec.result


@harness(PROP, BASEH + '.deserialize_async', setup=_bridge_setup)
def base_deserialize_async(v):
    v.expect_covers('bridged', 'bridged-error')
    rec = Recorder()
    h = v.obj(sync_only_handler(v, rec))
    body = in_bytes(v, 'body')
    src = ByteSource(body, is_async=True)
    ct = v.str('content_type') if v.choose(2, 'content-type?') else None
    cl = v.int('content_length', 0) if v.choose(2, 'content-length?') else None
    h0 = snapshot(h)
    out = v.call(h, src, ct, cl)
    v.check('reads-the-whole-body-with-one-unsized-read', src.reads == [None])
    v.check('bridging-leaves-the-handler-unchanged', same_fields(snapshot(h), h0))
    ok = len(rec.calls) == 1
    v.check('delegates-to-deserialize-exactly-once', ok)
    if not ok:
        return
    _, self_, stream, ct1, cl1 = rec.calls[0]
    v.check('delegates-on-the-same-handler', self_ is h)
    content = stream.getvalue() if hasattr(stream, 'getvalue') else None
    v.check('sync-half-sees-a-stream-holding-exactly-the-body', content is not None and content == body)
    v.check('content-type-passed-through', (ct1 is None) if ct is None else (ct1 == ct))
    v.check('content-length-is-the-actual-body-length', cl1 == Len(body))
    if rec.raised is not None:
        v.check('error-of-the-sync-half-propagates-identical', out.exc is not None and same_exc(out.exc, rec.raised))
        v.cover('bridged-error')
    else:
        v.check('returns-what-the-sync-half-returned', out.exc is None and out.value is rec.result)
        v.cover('bridged')


@harness(PROP, BASEH + '.serialize_async')
def base_serialize_async(v):
    v.expect_covers('bridged', 'bridged-error')
    rec = Recorder()
    h = v.obj(sync_only_handler(v, rec))
    media = Doc('response media')
    ct = v.str('content_type')
    h0 = snapshot(h)
    out = v.call(h, media, ct)
    v.check('bridging-leaves-the-handler-unchanged', same_fields(snapshot(h), h0))
    ok = len(rec.calls) == 1
    v.check('delegates-to-serialize-exactly-once', ok)
    if not ok:
        return
    _, self_, m1, ct1 = rec.calls[0]
    v.check('delegates-with-the-same-media-and-content-type', And(self_ is h and m1 is media, ct1 == ct))
    if rec.raised is not None:
        v.check('error-of-the-sync-half-propagates-identical', out.exc is not None and same_exc(out.exc, rec.raised))
        v.cover('bridged-error')
    else:
        v.check('returns-what-the-sync-half-returned', out.exc is None and out.value is rec.result)
        v.cover('bridged')


# ---------------------------------------------------------------------------
# Response: media is rendered once, assignment resets the rendering


@stubclass
class Serializer:
    """Any media handler as the response side sees it."""

    def __init__(self, v, trace):
        self.v = v
        self.trace = trace
        self.results = []

    def _render(self):
        r = Doc('rendered body #%d' % len(self.results)) if self.v.choose(2, 'handler-returns-None') == 0 else None
        self.results.append(r)
        return r

    def serialize(self, media, content_type):
        self.trace.append(('serialize', media, content_type))
        return self._render()

    def serialize_async(self, media, content_type):
        self.trace.append(('serialize_async', media, content_type))
        return Ready(self._render())

    def serialize_sync(self, media):
        self.trace.append(('serialize_sync', media))
        return self._render()


def mk_resp(v, asgi, state=None, media_kinds=2, simple=False, may_fail=False):
    w = World()
    w.asgi = asgi
    w.trace = []
    w.handler = Serializer(v, w.trace)
    w.sync_path = bool(not simple and v.choose(2, 'serialize_sync-offered'))  # (offered to both stacks; only ASGI may use it)
    w.registry = HandlerRegistry(v, w.trace, w.handler, sync_path=w.sync_path, may_fail=may_fail)
    w.dmt = v.str('default_media_type')  # resp_options.default_media_type: configuration
    w.options = Options(w.registry, w.dmt)
    k = 0 if simple else v.choose(3, 'resp-content-type')
    w.ct = [None, '', None][k] if k != 2 else v.str('resp_content_type')
    if k == 2:
        v.assume(Len(w.ct) > 0)
    UNSET = unset(v)
    w.media = Doc('assigned media') if v.choose(media_kinds, 'media-assigned') == 0 else None
    w.rendered0 = UNSET
    st = v.choose(2, 'already-rendered') if state is None else state
    if st:
        w.rendered0 = Doc('cached rendering') if v.choose(2, 'cached-rendering-is-None') == 0 else None
    w.resp = v.obj(ARESP if asgi else WRESP, _headers={}, content_type=w.ct, text=None, _data=None, _media=w.media, _media_rendered=w.rendered0, options=w.options)
    w.resp0, w.options0, w.handler0 = snapshot(w.resp), snapshot(w.options), snapshot(w.handler)
    w.headers0 = dict(v.get(w.resp, '_headers'))
    return w


def resp_frame(v, w, clause, may_write):
    """Every field of the response other than `may_write` is bound to the object it was bound to (text, data, headers dict,
    options ...; no new field); the options object shared by all responses and the handler are only read."""
    now = snapshot(w.resp)
    # (on replays content_type is the real property over the header dict: the dict's content is part of the frame)
    headers_same = 'content_type' in may_write or ('_headers' in now and dict(now['_headers']) == w.headers0)
    v.check(clause, same_fields(now, w.resp0, except_for=tuple(may_write)) and headers_same)
    v.check('options-and-handler-are-only-read', same_fields(snapshot(w.options), w.options0) and same_fields(snapshot(w.handler), w.handler0, except_for=('results',)))


def spec_render_body(v, w, out):
    UNSET = unset(v)
    resp, trace = w.resp, w.trace
    v.expect_covers('no-media', 'cached', 'rendered', *(['no-handler-for-the-content-type'] if w.registry.may_fail else []))
    r1 = v.get(resp, '_media_rendered')
    if w.registry.raised is not None:
        # no media handler is configured for the response's content type: the registry's 415-class error reaches the caller as it
        # is, nothing has been serialized and nothing is cached (a later rendering asks the registry again)
        v.check('unsupported-media-type-propagates', out.exc is not None and same_exc(out.exc, w.registry.raised))
        v.check('unsupported-media-type-serializes-and-caches-nothing', len([e for e in trace if e[0].startswith('serialize')]) == 0 and r1 is UNSET
                and v.get(resp, '_media') is w.media)
        resp_frame(v, w, 'first-rendering-writes-only-the-rendering-cache-and-content-type', ('_media_rendered', 'content_type'))
        v.cover('no-handler-for-the-content-type')
        return
    v.check('no-exception', out.exc is None)
    if out.exc is not None:
        return
    if w.media is None:
        v.check('no-media-renders-nothing', out.value is None and len(trace) == 0)
        v.check('no-media-leaves-rendering-cache-alone', r1 is w.rendered0)
        resp_frame(v, w, 'rendering-without-work-writes-nothing-on-the-response', ())
        v.cover('no-media')
        return
    if w.rendered0 is not UNSET:
        v.check('cached-rendering-returned-identical', out.value is w.rendered0)
        v.check('cached-rendering-does-not-serialize-again', len(trace) == 0)
        v.check('cached-rendering-kept', r1 is w.rendered0 and v.get(resp, '_media') is w.media)
        resp_frame(v, w, 'rendering-without-work-writes-nothing-on-the-response', ())
        v.cover('cached')
        return
    # first rendering of the assigned media
    ct_eff = w.dmt if (w.ct is None or (isinstance(w.ct, str) and w.ct == '')) else w.ct
    # (the sync fast path handler._serialize_sync(media), C11: used by the ASGI response whenever the registry offers it; the
    # WSGI response does not use it today, but may)
    if w.sync_path and (w.asgi or len([e for e in trace if e[0] == 'serialize_sync']) > 0):
        want = [('resolve', ct_eff, w.dmt), ('serialize_sync', w.media)]
    elif w.asgi:
        want = [('resolve', ct_eff, w.dmt), ('serialize_async', w.media, ct_eff)]
    else:
        want = [('resolve', ct_eff, w.dmt), ('serialize', w.media, ct_eff)]
    v.check('one-resolution-then-one-serialization-of-the-assigned-media', seq_eq(trace, want))
    if len(w.handler.results) != 1:
        return
    v.check('returns-what-the-handler-serialized', out.value is w.handler.results[0])
    v.check('rendering-cached', r1 is w.handler.results[0] and r1 is not UNSET)
    v.check('content-type-defaults-to-the-default-media-type', v.get(resp, 'content_type') == ct_eff)
    v.check('media-kept', v.get(resp, '_media') is w.media)
    resp_frame(v, w, 'first-rendering-writes-only-the-rendering-cache-and-content-type', ('_media_rendered', 'content_type'))
    v.cover('rendered')


@harness(PROP, WRESP + '.render_body')
def wsgi_render_body_media(v):
    w = mk_resp(v, asgi=False, may_fail=True)
    out = v.call(w.resp)
    spec_render_body(v, w, out)


@harness(PROP, ARESP + '.render_body')
def asgi_render_body_media(v):
    w = mk_resp(v, asgi=True, may_fail=True)
    out = v.call(w.resp)
    spec_render_body(v, w, out)


@harness(PROP, WRESP + '.media@setter')
def resp_media_setter(v):
    v.expect_covers('assigned')
    UNSET = unset(v)
    w = mk_resp(v, asgi=bool(v.choose(2, 'asgi')), simple=True)
    # (text / data set earlier stay: render_body's precedence text > data > media is part of C05, not undone by an assignment)
    v.set(w.resp, 'text', v.str('text_set_earlier'))
    v.set(w.resp, '_data', v.bytes('data_set_earlier'))
    w.resp0 = snapshot(w.resp)
    new = Doc('newly assigned media') if v.choose(2, 'assign-None') == 0 else None
    out = v.call(w.resp, new)
    v.check('no-exception', out.exc is None)
    v.check('assignment-stores-the-object', v.get(w.resp, '_media') is new)
    v.check('assignment-resets-the-rendering-cache', v.get(w.resp, '_media_rendered') is UNSET)
    v.check('assignment-does-not-serialize', len(w.trace) == 0)
    resp_frame(v, w, 'assignment-writes-only-media-and-the-rendering-cache', ('_media', '_media_rendered'))
    v.cover('assigned')


@harness(PROP, WRESP + '.media')
def resp_media_getter(v):
    v.expect_covers('read')
    w = mk_resp(v, asgi=bool(v.choose(2, 'asgi')), simple=True)
    out = v.call(w.resp)
    v.check('returns-the-assigned-object', out.exc is None and out.value is w.media)
    v.check('reading-does-not-serialize-or-touch-the-cache', len(w.trace) == 0 and v.get(w.resp, '_media_rendered') is w.rendered0)
    resp_frame(v, w, 'reading-writes-nothing-on-the-response', ())
    v.cover('read')


def _history(v, asgi):
    """render; resp.media = m2; render; render  ->  serializations are exactly [m1, m2], bodies follow the assignment."""
    v.expect_covers('history')
    w = mk_resp(v, asgi=asgi, state=0, media_kinds=1)
    target = (ARESP if asgi else WRESP) + '.render_body'
    o1 = v.call(w.resp, target=target)
    m2 = Doc('second media')
    v.call(w.resp, m2, target=WRESP + '.media@setter')
    o2 = v.call(w.resp, target=target)
    o3 = v.call(w.resp, target=target)
    sers = [e for e in w.trace if e[0].startswith('serialize')]
    v.check('no-exception', o1.exc is None and o2.exc is None and o3.exc is None)
    v.check('each-assignment-serialized-exactly-once-in-order', len(sers) == 2 and sers[0][1] is w.media and sers[1][1] is m2)
    if len(w.handler.results) != 2:
        return
    v.check('body-follows-the-latest-assignment', o1.value is w.handler.results[0] and o2.value is w.handler.results[1] and o3.value is w.handler.results[1])
    v.cover('history')


@harness(PROP, WRESP + '.render_body', name='wsgi_render_assign_render')
def wsgi_render_assign_render(v):
    _history(v, False)


@harness(PROP, ARESP + '.render_body', name='asgi_render_assign_render')
def asgi_render_assign_render(v):
    _history(v, True)


ASSUMPTIONS = [
    'stdlib json (dependency contract, not proved): loads(dumps(m)) == m for every JSON-representable m; dumps returns a non-empty text; '
    'loads raises only ValueError (json.JSONDecodeError, UnicodeDecodeError are subclasses) -- RecursionError on pathologically deep nesting is outside this contract',
    'the text dumps returns has no lone surrogate code points (U+D800..U+DFFF): str.encode("utf-8") raises UnicodeEncodeError otherwise. '
    'Witness outside the assumption, on the unchanged tree: JSONHandler().serialize({"k": "\\ud83d"}, "application/json") raises UnicodeEncodeError '
    '(dumps uses ensure_ascii=False), although json.loads accepts the body {"k": "\\ud83d"} and stdlib json round-trips that document',
    'Python codecs: bytes.decode("utf-8") succeeds exactly on the RFC 3629 language and raises UnicodeDecodeError (a ValueError) otherwise; '
    'bytes.decode("ascii") succeeds exactly on code points < 128 and keeps them; s.encode("utf-8").decode("utf-8") == s for every str without surrogates; '
    'ASCII text encodes to the same code points',
    'Handlers._resolve(media_type, default) (contract of C11, stubbed): returns (handler, handler._serialize_sync, handler._deserialize_sync) or raises HTTPUnsupportedMediaType',
    'request body streams (contract of C07, stubbed): read() without a size returns the whole declared body whatever the chunking; exhaust() consumes what is left',
    'falcon.util.uri.parse_query_string and urllib.parse.urlencode are opaque (contracts of C08/C10): "parse(urlencode(form)) == form" is not proved here',
    'Response.content_type is a plain get/set of the Content-Type header (symbolic runs shadow the header property with a field; replays use the real property)',
    'a media handler may return any object or None, and may raise MediaNotFoundError, MediaMalformedError or any other Exception (all explored); BaseException subclasses '
    'that are not Exception (KeyboardInterrupt, ...) are not cached by get_media and are outside the statement',
    'an encoder that returns bytes (orjson-like) returns well-formed UTF-8 (round-trip harness; the _serialize_b harnesses take any bytes)',
    # inputs found fixed by the audit and deliberately left fixed
    'Response.render_body is run with resp.text and resp.data unset: the precedence text > data > media is C05 (body-follows-precedence-text-data-media-stream); '
    'the media setter harness does carry text and data set earlier',
    'get_media is run on a request whose body stream object exists already (_bounded_stream / _stream set): the lazy creation inside the bounded_stream / stream '
    'properties (and the is_websocket refusal of the ASGI one, fixed to False: a WebSocket handshake has no media) is C07; the raw wsgi.input is a recording stub that must stay untouched',
    'the Content-Length a request declares is one sample per class the accessor distinguishes (absent, "17", empty, "x1", "-1"): the accessor itself is C09',
    'Request.__init__ base case: POST /things?q=1,2&r= with a two-entry header set and a small body, options object given (every option flag the constructor reads varies); '
    'ASGI: first_event=None (stored only)',
    'BaseHandler.serialize_async is given a content type (its signature requires one); the JSON codecs stubs Loads / Dumps are given or both omitted in __init__',
    'Handlers._resolve on the response side raises (no handler for the content type) or succeeds; asked with raise_not_found=False it returns (None, None, None) instead of raising',
    'the sync fast path is offered or not to both stacks; the WSGI request / response may use it (on the bounded stream, caching as usual) or not -- both are accepted',
]
NOT_DECIDED = [
    'the JSON round trip itself (loads(dumps(m)) == m) and the form round trip (parse_query_string(urlencode(f)) == f): dependency contracts, see ASSUMPTIONS; '
    'what is proved is the plumbing: deserialize(stream over serialize(m)) calls loads exactly once with exactly the text dumps(m) returned',
    'falcon/asgi/app.py App.__call__ contains an inlined copy of asgi Response.render_body (media branch, about 20 lines inside a 400-line coroutine): read, same shape, not executed symbolically',
    'App-level wiring (which Request/Response options object reaches the handlers; that the WSGI/ASGI apps call render_body once per response)',
    'URLEncodedFormHandler docstring promises MediaMalformedError for percent-encoded bytes that are not UTF-8; falcon.util.uri.decode replaces them with U+FFFD instead '
    '(b"a=%FF" -> {"a": "\\ufffd"}): behaviour of the C08/C10 parser, opaque here',
    'in-place mutation of an already rendered media object (resp.media["k"] = 1 after render_body) keeps the stale rendering: the statement speaks about assignment only',
    'other handlers (MessagePackHandler, MultipartFormHandler -> C13, JSONHandlerWS)',
]
TRUSTED = [
    'ghost stubs in contracts/C12_media.py: MediaHandler, HandlerRegistry, Options, WsgiBody, RawInput, AsgiBody, ByteSource, Loads, Dumps, ParseQS, UrlEncode, Serializer, GhostBytesIO, SyncOnly',
    'codec_model in contracts/C12_media.py (utf-8 / ascii / latin-1 strict; UTF-8 validity as the exact regular language; encode/decode as uninterpreted functions with the round-trip axiom)',
    'opaque dependencies are substituted by rebinding the module-level name in the overlay module while the subject runs (class `patched`): parse_query_string, urlencode in falcon.media.urlencoded',
    'property access `req.media` goes through the executor\'s attribute lookup on the real class object (property -> fget -> source of get_media)',
]
KILLS = [
    # value caching dropped: a later call parses again
    ('falcon/request.py', '        if self._media is not _UNSET:\n            return self._media\n        if self._media_error is not None:\n',
     '        if self._media_error is not None:\n', 'Request.get_media#cached-value-returned-identical'),
    # error not cached
    ('falcon/request.py', '        except Exception as err:\n            self._media_error = err\n            raise\n',
     '        except Exception as err:\n            raise\n', 'Request.get_media#handler-error-cached-identical'),
    # the caller's default cached as media
    ('falcon/request.py', '            if default_when_empty is not _UNSET:\n                return default_when_empty\n            raise\n',
     '            if default_when_empty is not _UNSET:\n                self._media = default_when_empty\n                return default_when_empty\n            raise\n',
     'Request.get_media#failed-parse-caches-no-value'),
    # stream exhausted only on success (moved out of `finally`)
    ('falcon/request.py', '        finally:\n            if handler.exhaust_stream:\n                self.bounded_stream.exhaust()\n',
     '        if handler.exhaust_stream:\n            self.bounded_stream.exhaust()\n', 'Request.get_media#stream-exhausted-exactly-once-iff-handler-asks'),
    # except clauses swapped: MediaNotFoundError handled as a generic error (ASGI)
    ('falcon/asgi/request.py',
     '        except errors.MediaNotFoundError as err:\n            self._media_error = err\n            if default_when_empty is not _UNSET:\n'
     '                return default_when_empty\n            raise\n        except Exception as err:\n            self._media_error = err\n            raise\n',
     '        except Exception as err:\n            self._media_error = err\n            raise\n'
     '        except errors.MediaNotFoundError as err:\n            self._media_error = err\n            if default_when_empty is not _UNSET:\n'
     '                return default_when_empty\n            raise\n',
     'asgi.request:Request.get_media#empty-body-yields-callers-default'),
    # cached error: default returned for any cached error, not only MediaNotFoundError (ASGI)
    ('falcon/asgi/request.py', '            if default_when_empty is not _UNSET and isinstance(\n                self._media_error, errors.MediaNotFoundError\n            ):\n',
     '            if default_when_empty is not _UNSET:\n', 'asgi.request:Request.get_media#cached-error-reraised-identical'),
    # a new request starts with None instead of the sentinel: get_media() would return None without parsing
    ('falcon/request.py', '        self._media: UnsetOr[Any] = _UNSET\n', '        self._media: UnsetOr[Any] = None\n', 'Request.__init__#new-request-is-fresh'),
    # JSON: empty-body check removed
    ('falcon/media/json.py', "        if not data:\n            raise errors.MediaNotFoundError('JSON')\n", '', 'JSONHandler._deserialize#empty-body-raises-media-not-found'),
    # JSON: only JSONDecodeError mapped to 400; UnicodeDecodeError / plain ValueError become a 500
    ('falcon/media/json.py', '        except ValueError as err:\n', '        except json.JSONDecodeError as err:\n',
     'JSONHandler._deserialize#bytes-that-are-not-utf8-raise-malformed-media-400'),
    # JSON: body read bounded by the (client supplied, possibly absent) Content-Length
    ('falcon/media/json.py', '        return self._deserialize(stream.read())\n', '        return self._deserialize(stream.read(content_length or 0))\n',
     'JSONHandler.deserialize#reads-the-whole-body-with-one-unsized-read'),
    # JSON: text serialised with the wrong charset
    ('falcon/media/json.py', '    def _serialize_s(self, media: Any, content_type: Optional[str] = None) -> bytes:\n        return self._dumps(media).encode()',
     "    def _serialize_s(self, media: Any, content_type: Optional[str] = None) -> bytes:\n        return self._dumps(media).encode('latin-1')",
     'JSONHandler._serialize_s#returns-dumps-text-encoded-as-utf8'),
    # JSON: serializer selection inverted
    ('falcon/media/json.py', '        if isinstance(result, str):\n', '        if isinstance(result, bytes):\n', 'JSONHandler.__init__#serializer-encodes-iff-dumps-returns-text'),
    # URL-encoded: only decoding errors mapped, parser errors become a 500
    ('falcon/media/urlencoded.py', '        except Exception as err:\n', '        except UnicodeDecodeError as err:\n',
     'URLEncodedFormHandler._deserialize#any-parser-exception-raises-malformed-media-400'),
    # URL-encoded: ASCII enforcement dropped
    ('falcon/media/urlencoded.py', "            body_str = body.decode('ascii')\n", '            body_str = body.decode()\n',
     'URLEncodedFormHandler._deserialize#non-ascii-body-raises-malformed-media-400'),
    # async bridge passes the client's Content-Length instead of the real length
    ('falcon/media/base.py', '        content_length = len(data)\n', '', 'BaseHandler.deserialize_async#content-length-is-the-actual-body-length'),
    # Response: assignment does not reset the rendering
    ('falcon/response.py', '        self._media = value\n        self._media_rendered = _UNSET\n', '        self._media = value\n',
     'Response.media@setter#assignment-resets-the-rendering-cache'),
    # Response: rendering not reused
    ('falcon/response.py', '                if self._media_rendered is _UNSET:\n', '                if True:\n', 'response:Response.render_body#cached-rendering-returned-identical'),
    # ASGI Response: Content-Type fallback dropped
    ('falcon/asgi/response.py', '                    if not self.content_type:\n                        self.content_type = self.options.default_media_type\n', '',
     'asgi.response:Response.render_body#one-resolution-then-one-serialization-of-the-assigned-media'),
    # --- frames (audit: a post-condition silent about state lets a change that corrupts it verify)
    # the exhausted stream is dropped from the request: the next access re-creates it over the raw input and reads again
    ('falcon/request.py', '        finally:\n            if handler.exhaust_stream:\n                self.bounded_stream.exhaust()\n',
     '        finally:\n            if handler.exhaust_stream:\n                self.bounded_stream.exhaust()\n                self._bounded_stream = None\n',
     'falcon.request:Request.get_media#writes-nothing-on-the-request-but-the-media-cache'),
    ('falcon/asgi/request.py', '        finally:\n            if handler.exhaust_stream:\n                await self.stream.exhaust()\n',
     '        finally:\n            if handler.exhaust_stream:\n                await self.stream.exhaust()\n                self._stream = None\n',
     'falcon.asgi.request:Request.get_media#writes-nothing-on-the-request-but-the-media-cache'),
    # Content-Length popped from the environ instead of read (the next reader of the header sees none)
    ('falcon/request.py', "            value = self.env['CONTENT_LENGTH']\n", "            value = self.env.pop('CONTENT_LENGTH')\n", 'falcon.request:Request.get_media#request-headers-are-only-read'),
    # "do not exhaust twice": the flag is cleared on the handler, which is shared by every request of the app
    ('falcon/request.py', '        finally:\n            if handler.exhaust_stream:\n                self.bounded_stream.exhaust()\n',
     '        finally:\n            if handler.exhaust_stream:\n                self.bounded_stream.exhaust()\n                handler.exhaust_stream = False\n',
     'falcon.request:Request.get_media#options-and-handler-are-only-read'),
    # the (shared) JSON handler keeps the last parsed document / the last rendering / its constructor probe
    ('falcon/media/json.py', '            return self._loads(data.decode())\n', '            self._last_document = self._loads(data.decode())\n            return self._last_document\n',
     'JSONHandler._deserialize#parsing-leaves-the-handler-unchanged'),
    ('falcon/media/json.py', '    def _serialize_s(self, media: Any, content_type: Optional[str] = None) -> bytes:\n        return self._dumps(media).encode()',
     '    def _serialize_s(self, media: Any, content_type: Optional[str] = None) -> bytes:\n        self._last_rendering = self._dumps(media).encode()\n        return self._last_rendering',
     'JSONHandler._serialize_s#serializing-leaves-the-handler-unchanged'),
    ('falcon/media/json.py', "        result = self._dumps({'message': 'Hello World'})\n", "        result = self._probe = self._dumps({'message': 'Hello World'})\n",
     'JSONHandler.__init__#sets-exactly-the-codecs-and-entry-points'),
    # the form handler keeps the decoded body / the encoded form; its constructor mixes up or adds attributes
    ('falcon/media/urlencoded.py', "            body_str = body.decode('ascii')\n", "            body_str = self._last_body = body.decode('ascii')\n",
     'URLEncodedFormHandler._deserialize#parsing-leaves-the-handler-unchanged'),
    ('falcon/media/urlencoded.py', '        return urlencode(media, doseq=True).encode()\n', '        self._encoded = urlencode(media, doseq=True).encode()\n        return self._encoded\n',
     'URLEncodedFormHandler.serialize#serializing-leaves-the-handler-unchanged'),
    ('falcon/media/urlencoded.py', '        self._csv = csv\n', '        self._csv = keep_blank\n', 'URLEncodedFormHandler.__init__#parser-options-stored-as-given-or-documented-defaults'),
    ('falcon/media/urlencoded.py', '        self._csv = csv\n', '        self._csv = csv\n        self._forms = []\n', 'URLEncodedFormHandler.__init__#sets-exactly-the-options-and-the-fast-path'),
    # one result dict for every parsed query string / form ("avoid an allocation"): the forms of different requests are one object
    ('falcon/util/uri.py', '    params: dict = {}\n', "    params: dict = parse_query_string.__dict__.setdefault('params', {})\n",
     'URLEncodedFormHandler._deserialize#each-empty-form-is-a-new-empty-dict'),
    # the sync<->async bridges keep the buffered body / the rendering on the handler
    ('falcon/media/base.py', '        return self.deserialize(io.BytesIO(data), content_type, content_length)\n',
     '        self._buffered = io.BytesIO(data)\n        return self.deserialize(self._buffered, content_type, content_length)\n',
     'BaseHandler.deserialize_async#bridging-leaves-the-handler-unchanged'),
    ('falcon/media/base.py', '        return self.serialize(media, content_type)\n', '        self._rendered = self.serialize(media, content_type)\n        return self._rendered\n',
     'BaseHandler.serialize_async#bridging-leaves-the-handler-unchanged'),
    # the rendering is also stored as resp.data "for the fast path" (data outranks media: a later resp.media = ... is ignored)
    ('falcon/response.py', '                data = self._media_rendered\n', '                data = self._data = self._media_rendered\n',
     'falcon.response:Response.render_body#first-rendering-writes-only-the-rendering-cache-and-content-type'),
    # Content-Type defaulted even when there is nothing to render
    ('falcon/response.py', '        if text is None:\n            data = self._data\n',
     '        if text is None:\n            data = self._data\n            if not self.content_type:\n                self.content_type = self.options.default_media_type\n',
     'falcon.response:Response.render_body#rendering-without-work-writes-nothing-on-the-response'),
    # the type rendered last becomes the default media type of the options object shared by all responses
    ('falcon/response.py', '                    self._media_rendered = handler.serialize(\n', '                    self.options.default_media_type = self.content_type\n                    self._media_rendered = handler.serialize(\n',
     'falcon.response:Response.render_body#options-and-handler-are-only-read'),
    # assigning media clears data "so that media wins" / reading media defaults the content type
    ('falcon/response.py', '        self._media = value\n        self._media_rendered = _UNSET\n', '        self._media = value\n        self._media_rendered = _UNSET\n        self._data = None\n',
     'Response.media@setter#assignment-writes-only-media-and-the-rendering-cache'),
    ('falcon/response.py', '        return self._media\n', "        self.content_type = self.content_type or 'application/json'\n        return self._media\n",
     'Response.media#reading-writes-nothing-on-the-response'),
    # --- inputs that the harnesses used to fix to one constant (audit: "an input the code reads is a constant in the harness")
    # the configured default media type is replaced by the library constant (the stub options used to carry exactly that constant)
    ('falcon/request.py', '            self.content_type, self.options.default_media_type\n', '            self.content_type, DEFAULT_MEDIA_TYPE\n',
     'falcon.request:Request.get_media#exactly-one-handler-resolution'),
    ('falcon/response.py', '                    if not self.content_type:\n                        self.content_type = self.options.default_media_type\n',
     '                    if not self.content_type:\n                        self.content_type = DEFAULT_MEDIA_TYPE\n',
     'falcon.response:Response.render_body#one-resolution-then-one-serialization-of-the-assigned-media'),
    # the Content-Length is evaluated before the try block: a malformed one is not cached, a later call raises another error
    # object (the Content-Length used to be "17" or absent)
    ('falcon/request.py', '        try:\n            self._media = handler.deserialize(\n                self.bounded_stream, self.content_type, self.content_length\n            )\n',
     '        content_length = self.content_length\n        try:\n            self._media = handler.deserialize(\n                self.bounded_stream, self.content_type, content_length\n            )\n',
     'falcon.request:Request.get_media#invalid-content-length-error-is-cached-for-later-calls'),
    # with auto_parse_form_urlencoded the constructor keeps the form it consumed as the request media (the option used to be off)
    ('falcon/request.py', '            self._params.update(extra_params)\n', '            self._params.update(extra_params)\n            self._media = extra_params\n',
     'Request.__init__#new-request-is-fresh'),
    # JSON: a request without a Content-Type header is "no media" (handlers used to be called with their own media type only)
    ('falcon/media/json.py', '        return self._deserialize(stream.read())\n',
     "        if content_type is None:\n            raise errors.MediaNotFoundError('JSON')\n        return self._deserialize(stream.read())\n",
     'JSONHandler.deserialize#reads-the-whole-body-with-one-unsized-read'),
    # JSON: RFC 7464 framing for "+json-seq" content types -- the body is no longer the document dumps produced
    ('falcon/media/json.py', '    def _serialize_s(self, media: Any, content_type: Optional[str] = None) -> bytes:\n        return self._dumps(media).encode()',
     "    def _serialize_s(self, media: Any, content_type: Optional[str] = None) -> bytes:\n        if content_type is not None and content_type.endswith('+json-seq'):\n"
     "            return b'\\x1e' + self._dumps(media).encode() + b'\\n'\n        return self._dumps(media).encode()",
     'JSONHandler._serialize_s#returns-dumps-text-encoded-as-utf8'),
    # JSON / form handler: the sync fast path is published for subclasses too (their overridden methods would be bypassed)
    ('falcon/media/json.py', '        if type(self) is JSONHandler:\n', '        if isinstance(self, JSONHandler):\n', 'JSONHandler.__init__#subclass-does-not-publish-the-sync-fast-path'),
    ('falcon/media/urlencoded.py', '        if type(self) is URLEncodedFormHandler:\n', '        if isinstance(self, URLEncodedFormHandler):\n',
     'URLEncodedFormHandler.__init__#subclass-does-not-publish-the-sync-fast-path'),
    # JSON: the default decoder is dropped (the constructor used to be given both codecs)
    ('falcon/media/json.py', '        self._loads = loads or json.loads\n\n        # PERF(kgriffs): Test dumps once up front', '        self._loads = loads\n\n        # PERF(kgriffs): Test dumps once up front',
     'JSONHandler.__init__#default-loads-decodes-json-text-back-to-the-document'),
    # JSON, encoder returning bytes: a UTF-8 BOM is prepended (json.loads refuses it: the round trip fails); the round trip used to
    # be run for a text encoder only
    ('falcon/media/json.py', '    def _serialize_b(self, media: Any, content_type: Optional[str] = None) -> bytes:\n        return self._dumps(media)',
     "    def _serialize_b(self, media: Any, content_type: Optional[str] = None) -> bytes:\n        return b'\\xef\\xbb\\xbf' + self._dumps(media)",
     'JSONHandler.deserialize#loads-receives-exactly-the-utf8-decoding-of-the-bytes-dumps-produced'),
    # form handler: a declared Content-Length of 0 short-cuts to an empty form although a body is there (the length used to be None)
    ('falcon/media/urlencoded.py', '        return self._deserialize(stream.read())\n', '        if content_length == 0:\n            return {}\n        return self._deserialize(stream.read())\n',
     'URLEncodedFormHandler.deserialize#reads-the-whole-body-with-one-unsized-read'),
    # form handler: the csv parser option leaks into the encoding (the serializing handler used to be the default-configured one)
    ('falcon/media/urlencoded.py', '        return urlencode(media, doseq=True).encode()\n', '        return urlencode(media, doseq=not self._csv).encode()\n',
     'URLEncodedFormHandler.serialize#urlencode-receives-the-media-with-doseq'),
    # WSGI: the fast path of the ASGI stack is ported carelessly -- it reads the server's raw input instead of the bounded stream /
    # returns without caching the rendering (the stub registry used to offer the WSGI stack no fast path at all)
    ('falcon/request.py', '        handler, _, _ = self.options.media_handlers._resolve(\n            self.content_type, self.options.default_media_type\n        )\n\n'
     '        try:\n            self._media = handler.deserialize(\n                self.bounded_stream, self.content_type, self.content_length\n            )\n',
     '        handler, _, deserialize_sync = self.options.media_handlers._resolve(\n            self.content_type, self.options.default_media_type\n        )\n\n'
     '        try:\n            if deserialize_sync:\n                self._media = deserialize_sync(self.stream.read())\n            else:\n'
     '                self._media = handler.deserialize(\n                    self.bounded_stream, self.content_type, self.content_length\n                )\n',
     'falcon.request:Request.get_media#exactly-one-parse-of-the-body-stream'),
    ('falcon/response.py', '                    handler, _, _ = self.options.media_handlers._resolve(\n                        self.content_type, self.options.default_media_type\n'
     '                    )\n\n                    self._media_rendered = handler.serialize(\n',
     '                    handler, serialize_sync, _ = self.options.media_handlers._resolve(\n                        self.content_type, self.options.default_media_type\n'
     '                    )\n                    if serialize_sync:\n                        return serialize_sync(self._media)\n\n                    self._media_rendered = handler.serialize(\n',
     'falcon.response:Response.render_body#rendering-cached'),
    # a response content type without a handler: the registry is asked not to raise and the missing handler is used anyway
    # (AttributeError -> 500 instead of the registry's own error; the stub registry of the response side used to succeed always)
    ('falcon/response.py', '                    handler, _, _ = self.options.media_handlers._resolve(\n                        self.content_type, self.options.default_media_type\n                    )\n',
     '                    handler, _, _ = self.options.media_handlers._resolve(\n                        self.content_type, self.options.default_media_type, raise_not_found=False\n                    )\n',
     'falcon.response:Response.render_body#no-exception'),
]
HARMLESS = [
    # the WSGI request uses the sync fast path the registry offers, on the bounded stream (what the ASGI request does)
    ('falcon/request.py', '        handler, _, _ = self.options.media_handlers._resolve(\n            self.content_type, self.options.default_media_type\n        )\n\n'
     '        try:\n            self._media = handler.deserialize(\n                self.bounded_stream, self.content_type, self.content_length\n            )\n',
     '        handler, _, deserialize_sync = self.options.media_handlers._resolve(\n            self.content_type, self.options.default_media_type\n        )\n\n'
     '        try:\n            if deserialize_sync:\n                self._media = deserialize_sync(self.bounded_stream.read())\n            else:\n'
     '                self._media = handler.deserialize(\n                    self.bounded_stream, self.content_type, self.content_length\n                )\n'),
    ('falcon/media/json.py', '            return self._loads(data.decode())\n', '            text = data.decode()\n            return self._loads(text)\n'),
    ('falcon/request.py', '        if self._media is not _UNSET:\n            return self._media\n',
     '        cached = self._media\n        if cached is not _UNSET:\n            return cached\n'),
    ('falcon/response.py', '                    handler, _, _ = self.options.media_handlers._resolve(\n',
     '                    handler, _ser, _deser = self.options.media_handlers._resolve(\n'),
]
