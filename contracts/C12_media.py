"""C12 -- request media is parsed at most once; media (de)serialisation plumbing.

Decided here, on the current source of
    falcon/request.py        Request.get_media, Request.media
    falcon/asgi/request.py   Request.get_media, Request.media
    falcon/media/json.py     JSONHandler.__init__/_deserialize/deserialize/deserialize_async/
                             _serialize_s/_serialize_b/_serialize_async_s/_serialize_async_b
    falcon/media/urlencoded.py  URLEncodedFormHandler._deserialize/deserialize/deserialize_async/serialize
    falcon/media/base.py     BaseHandler.deserialize_async / serialize_async (sync<->async bridges)
    falcon/response.py       Response.render_body (media branch), Response.media getter/setter
    falcon/asgi/response.py  Response.render_body (media branch)

Spec of get_media = class-invariant automaton over (_media, _media_error):

    FRESH  (_media is _UNSET, _media_error is None)
    VALUE  (_media set)
    ERROR  (_media_error set)

with a ghost trace of every interaction with the environment (handler registry,
handler, body stream).  `parses` = number of deserialize* calls ever made for
this request.  Invariant, assumed before and proved after every call:

    parses <= 1   and   (parses == 1  ==>  state is not FRESH)   and   not (VALUE and ERROR)

so any history of get_media()/media accesses parses at most once (induction on
the history; the base case is Request.__init__, which sets FRESH, parses = 0).
The handler, the registry and the stream are opaque stubs; every result they
may produce (a document, None, MediaNotFoundError, MediaMalformedError, another
exception, 415 from the registry) is explored.
"""
from __future__ import annotations

import z3

from pyvc.core import And, ExcVal, Iff, Implies, Len, Not, Or, Outcome, PyRaise, SStr, mk_bool
from pyvc.harness import Ready, harness, native, stubclass

PROP = 'C12'
WREQ = 'falcon.request:Request'
AREQ = 'falcon.asgi.request:Request'
JSONH = 'falcon.media.json:JSONHandler'
URLH = 'falcon.media.urlencoded:URLEncodedFormHandler'
BASEH = 'falcon.media.base:BaseHandler'
WRESP = 'falcon.response:Response'
ARESP = 'falcon.asgi.response:Response'

DEFAULT_MEDIA_TYPE = 'application/json'


# ---------------------------------------------------------------------------
# helpers that work in both modes (symbolic exploration / concrete replay)


@stubclass
class Doc:
    """An opaque object (a deserialised document, a caller's default, ...)."""

    def __init__(self, what):
        self.what = what

    def __repr__(self):
        return '<Doc %s>' % self.what


def mk_exc(cls, *args):
    """An exception value of the interpreted program whose identity the contract can observe."""
    return ExcVal(cls, args, real=cls(*args))


def throw(v, e):
    """Raise `e` (made by mk_exc) into the subject."""
    if v.concrete:
        raise e.real
    raise PyRaise(e)


def ident(x):
    return x.real if isinstance(x, ExcVal) and x.real is not None else x


def same_exc(a, b):
    """Identity of two exception values (ExcVal wrapper or the real exception object)."""
    return a is not None and b is not None and ident(a) is ident(b)


def status_code(exc):
    """HTTP status code carried by an HTTPError value (None if it is not one)."""
    r = ident(exc)
    return getattr(r, 'status_code', None)


def unset(v):
    return v.real('falcon._typing:_UNSET')


def touch(v, target=None):
    """Record the subject's source span in the evidence when it is reached through attribute lookup."""
    if not v.concrete:
        v.closure(target or v.hdef.target)


def _finish(r):
    from pyvc.harness import _run_coro

    if hasattr(r, '__await__'):
        return _run_coro(r)
    return r


def get_attr(v, o, name):
    """`o.name` through the real attribute lookup (properties included) -> Outcome."""
    if v.concrete:
        try:
            return Outcome(value=_finish(getattr(o, name)))
        except Exception as e:  # noqa: BLE001
            return Outcome(exc=ExcVal(type(e), e.args, real=e))
    try:
        return Outcome(value=v.interp.getattr(o, name))
    except PyRaise as e:
        return Outcome(exc=e.exc)


def call_attr(v, o, name, *args, **kwargs):
    """`o.name(*args)` where `name` is looked up on the instance first (JSONHandler.serialize is an instance attribute)."""
    if v.concrete:
        try:
            return Outcome(value=_finish(getattr(o, name)(*args, **kwargs)))
        except Exception as e:  # noqa: BLE001
            return Outcome(exc=ExcVal(type(e), e.args, real=e))
    I = v.interp
    try:
        fn = I.getattr(o, name)
        return Outcome(value=I.call(fn, list(args), dict(kwargs)))
    except PyRaise as e:
        return Outcome(exc=e.exc)


def seq_eq(got, want):
    """Exact equality of two event lists; objects by identity, strings/ints by value."""
    if len(got) != len(want):
        return False
    conj = []
    for g, w in zip(got, want):
        if len(g) != len(w):
            return False
        for a, b in zip(g, w):
            if isinstance(b, (str, bytes, int, SStr)) and not isinstance(b, bool) or isinstance(a, SStr):
                if type(a) in (str, bytes, int) and type(b) in (str, bytes, int):
                    if a != b:
                        return False
                else:
                    conj.append(a == b)
            elif a is not b:
                return False
    return And(*conj) if conj else True


# ---------------------------------------------------------------------------
# environment of Request.get_media: registry, handler, body stream


@stubclass
class MediaHandler:
    """Any media handler: deserialize/deserialize_async/_deserialize_sync with every possible result."""

    def __init__(self, v, trace, exhaust_stream):
        self.v = v
        self.trace = trace
        self.exhaust_stream = exhaust_stream
        self.result = None
        self.raised = None
        self.returned = False

    def _outcome(self):
        v = self.v
        k = v.choose(5, 'deserialize-outcome')
        if k in (0, 1):
            self.returned = True
            self.result = Doc('parsed document') if k == 0 else None  # JSON `null` deserialises to None
            return self.result
        if k == 2:
            self.raised = mk_exc(v.real('falcon.errors:MediaNotFoundError'), 'JSON')
        elif k == 3:
            self.raised = mk_exc(v.real('falcon.errors:MediaMalformedError'), 'JSON')
        else:
            self.raised = mk_exc(RuntimeError, 'handler failure')
        throw(v, self.raised)

    def deserialize(self, stream, content_type, content_length):
        self.trace.append(('deserialize', stream, content_type, content_length))
        return self._outcome()

    def deserialize_async(self, stream, content_type, content_length):
        self.trace.append(('deserialize_async', stream, content_type, content_length))
        return Ready(self._outcome())

    def deserialize_sync(self, data):
        self.trace.append(('deserialize_sync', data))
        return self._outcome()


@stubclass
class HandlerRegistry:
    """options.media_handlers: _resolve(media_type, default) -> (handler, serialize_sync, deserialize_sync) or 415."""

    def __init__(self, v, trace, handler, sync_path=False, may_fail=True):
        self.v = v
        self.trace = trace
        self.handler = handler
        self.sync_path = sync_path
        self.may_fail = may_fail
        self.raised = None

    def _resolve(self, media_type, default, raise_not_found=True):
        v = self.v
        self.trace.append(('resolve', media_type, default))
        if self.may_fail and v.choose(2, 'resolve-fails'):
            self.raised = mk_exc(v.real('falcon.errors:HTTPUnsupportedMediaType'))
            throw(v, self.raised)
        h = self.handler
        if self.sync_path:
            return (h, getattr(h, 'serialize_sync', None), getattr(h, 'deserialize_sync', None))
        return (h, None, None)


@stubclass
class Options:
    def __init__(self, registry):
        self.media_handlers = registry
        self.default_media_type = DEFAULT_MEDIA_TYPE


@stubclass
class WsgiBody:
    """req.bounded_stream (contract of C07): observed through the trace only."""

    def __init__(self, trace):
        self.trace = trace

    def read(self, size=None):
        self.trace.append(('read', size))
        return b''

    def exhaust(self, chunk_size=65536):
        self.trace.append(('exhaust',))


@stubclass
class AsgiBody:
    """req.stream (ASGI, contract of C07): observed through the trace only."""

    def __init__(self, v, trace):
        self.trace = trace
        self.body = v.bytes('body')

    def read(self, size=None):
        self.trace.append(('read', size))
        return Ready(self.body)

    def exhaust(self):
        self.trace.append(('exhaust',))
        return Ready(None)




class World:
    """A request in one of the three automaton states plus its (stub) environment."""


def mk_world(v, asgi):
    w = World()
    w.asgi = asgi
    w.trace = []
    w.exhaust = v.bool('exhaust_stream')
    w.handler = MediaHandler(v, w.trace, w.exhaust)
    w.sync_path = bool(asgi and v.choose(2, 'deserialize_sync-offered'))
    w.registry = HandlerRegistry(v, w.trace, w.handler, sync_path=w.sync_path)
    w.options = Options(w.registry)
    w.ct = v.str('content_type') if v.choose(2, 'content-type?') else None  # any value, parameters and +json suffixes included
    w.has_cl = v.choose(2, 'content-length?')
    w.cl = 17 if w.has_cl else None
    UNSET = unset(v)
    w.state = v.choose(3, 'state')  # 0 FRESH, 1 VALUE, 2 ERROR
    w.m0 = UNSET
    w.e0 = None
    w.e0_not_found = False
    if w.state == 1:
        w.m0 = Doc('cached document') if v.choose(2, 'cached-kind') == 0 else None
    elif w.state == 2:
        k = v.choose(3, 'cached-error')
        cls = [v.real('falcon.errors:MediaNotFoundError'), v.real('falcon.errors:MediaMalformedError'), RuntimeError][k]
        w.e0 = mk_exc(cls, 'JSON')
        w.e0_not_found = k == 0
    # ghost: parse attempts made so far for this request
    w.parses0 = 0 if w.state == 0 else 1
    e0_field = (w.e0.real if v.concrete else w.e0) if w.e0 is not None else None
    if asgi:
        w.stream = AsgiBody(v, w.trace)
        hdrs = {b'content-length': b'17'} if w.has_cl else {}
        w.req = v.obj(AREQ, _media=w.m0, _media_error=e0_field, options=w.options, content_type=w.ct, _asgi_headers=hdrs,
                      is_websocket=False, _stream=w.stream)
    else:
        w.stream = WsgiBody(w.trace)
        env = {'CONTENT_LENGTH': '17'} if w.has_cl else {}
        w.req = v.obj(WREQ, _media=w.m0, _media_error=e0_field, options=w.options, content_type=w.ct, env=env, _bounded_stream=w.stream)
    d = v.choose(3, 'default_when_empty')
    w.default_given = d != 0
    w.default = Doc("caller's default") if d == 1 else None
    return w


def spec_get_media(v, w, out):
    """Post-condition of one get_media(default_when_empty=...) / media access, written from the statement."""
    UNSET = unset(v)
    req, trace, h = w.req, w.trace, w.handler
    m1 = v.get(req, '_media')
    e1 = v.get(req, '_media_error')
    parses = [e for e in trace if e[0].startswith('deserialize')]
    stream_ops = [e for e in trace if e[0] in ('read', 'exhaust')]
    resolves = [e for e in trace if e[0] == 'resolve']

    # ---- the invariant that makes every history parse at most once ------------------------
    # (stated last on every path: a failed clause ends its path, the specific sentence should be the one named)
    total = w.parses0 + len(parses)
    fresh_after = m1 is UNSET and e1 is None

    def invariant():
        v.check('parsed-at-most-once', total <= 1)
        v.check('after-a-parse-attempt-the-result-is-cached', not (total == 1 and fresh_after))
        v.check('never-both-value-and-error', m1 is UNSET or e1 is None)

    if w.state == 1:
        v.check('cached-value-returned-identical', out.exc is None and out.value is w.m0)
        v.check('cached-value-call-touches-neither-stream-nor-handler', len(trace) == 0)
        v.check('cached-value-kept', m1 is w.m0 and e1 is None)
        v.cover('state-VALUE')
        invariant()
        return
    if w.state == 2:
        if w.e0_not_found and w.default_given:
            v.check('cached-not-found-yields-callers-default', out.exc is None and out.value is w.default)
            v.cover('state-ERROR-default')
        else:
            v.check('cached-error-reraised-identical', out.exc is not None and same_exc(out.exc, w.e0))
            v.cover('state-ERROR-reraise')
        v.check('cached-error-call-touches-neither-stream-nor-handler', len(trace) == 0)
        v.check('cached-error-kept-and-default-not-cached', m1 is UNSET and same_exc(e1, w.e0))
        invariant()
        return

    # ---- FRESH ---------------------------------------------------------------------------
    v.check('exactly-one-handler-resolution', seq_eq(resolves, [('resolve', w.ct, DEFAULT_MEDIA_TYPE)]))
    if w.registry.raised is not None:
        v.check('unsupported-media-type-propagates', out.exc is not None and same_exc(out.exc, w.registry.raised))
        v.check('unsupported-media-type-neither-parses-nor-touches-stream', len(parses) == 0 and len(stream_ops) == 0)
        v.check('unsupported-media-type-leaves-request-fresh', fresh_after)
        v.cover('fresh-415')
        invariant()
        return
    if w.asgi and w.sync_path:
        want_parse = [('deserialize_sync', w.stream.body)]
        want_reads = [('read', None)]
    elif w.asgi:
        want_parse = [('deserialize_async', w.stream, w.ct, w.cl)]
        want_reads = []
    else:
        want_parse = [('deserialize', w.stream, w.ct, w.cl)]
        want_reads = []
    v.check('exactly-one-parse-of-the-body-stream', seq_eq(parses, want_parse))
    n_exh = len([e for e in stream_ops if e[0] == 'exhaust'])
    v.check('stream-exhausted-exactly-once-iff-handler-asks', And(Iff(w.exhaust, n_exh == 1), n_exh <= 1))
    v.check('get_media-itself-reads-only-what-the-fast-path-needs', seq_eq([e for e in stream_ops if e[0] == 'read'], want_reads))
    if n_exh:
        v.check('stream-exhausted-after-the-parse', trace[-1] == ('exhaust',) and trace[-2][0].startswith('deserialize'))
    if h.returned:
        v.check('parsed-value-returned', out.exc is None and out.value is h.result)
        v.check('parsed-value-cached', m1 is h.result and m1 is not UNSET and e1 is None)
        v.cover('fresh-success')
        invariant()
        return
    v.check('handler-error-cached-identical', same_exc(e1, h.raised))
    v.check('failed-parse-caches-no-value', m1 is UNSET)
    if h.raised.isa(v.real('falcon.errors:MediaNotFoundError')) and w.default_given:
        v.check('empty-body-yields-callers-default', out.exc is None and out.value is w.default)
        v.cover('fresh-not-found-default')
    else:
        v.check('handler-error-raised-identical', out.exc is not None and same_exc(out.exc, h.raised))
        v.cover('fresh-error-raised')
    invariant()


def _call_get_media(v, w):
    if w.default_given:
        return v.call(w.req, default_when_empty=w.default)
    return v.call(w.req)


@harness(PROP, WREQ + '.get_media', inline=[WREQ + '.content_length', WREQ + '.bounded_stream'])
def wsgi_get_media(v):
    w = mk_world(v, asgi=False)
    out = _call_get_media(v, w)
    spec_get_media(v, w, out)


@harness(PROP, AREQ + '.get_media', inline=[AREQ + '.content_length', AREQ + '.stream'])
def asgi_get_media(v):
    w = mk_world(v, asgi=True)
    out = _call_get_media(v, w)
    spec_get_media(v, w, out)


ASSUMPTIONS = []
NOT_DECIDED = []
TRUSTED = []
_GM = 'get_media#'
KILLS = [
    # value caching dropped: a later call parses again
    ('falcon/request.py', '        if self._media is not _UNSET:\n            return self._media\n        if self._media_error is not None:\n',
     '        if self._media_error is not None:\n', 'Request.get_media#cached-value-returned-identical'),
    # error not cached
    ('falcon/request.py', '        except Exception as err:\n            self._media_error = err\n            raise\n',
     '        except Exception as err:\n            raise\n', 'Request.get_media#handler-error-cached-identical'),
    # the caller's default cached as media
    ('falcon/request.py', '            if default_when_empty is not _UNSET:\n                return default_when_empty\n            raise\n',
     '            if default_when_empty is not _UNSET:\n                self._media = default_when_empty\n                return default_when_empty\n            raise\n',
     'Request.get_media#failed-parse-caches-no-value'),
    # stream exhausted only on success (moved out of `finally`)
    ('falcon/request.py', '        finally:\n            if handler.exhaust_stream:\n                self.bounded_stream.exhaust()\n',
     '        if handler.exhaust_stream:\n            self.bounded_stream.exhaust()\n', 'Request.get_media#stream-exhausted-exactly-once-iff-handler-asks'),
    # except clauses swapped: MediaNotFoundError handled as a generic error (ASGI)
    ('falcon/asgi/request.py',
     '        except errors.MediaNotFoundError as err:\n            self._media_error = err\n            if default_when_empty is not _UNSET:\n'
     '                return default_when_empty\n            raise\n        except Exception as err:\n            self._media_error = err\n            raise\n',
     '        except Exception as err:\n            self._media_error = err\n            raise\n'
     '        except errors.MediaNotFoundError as err:\n            self._media_error = err\n            if default_when_empty is not _UNSET:\n'
     '                return default_when_empty\n            raise\n',
     'asgi.request:Request.get_media#empty-body-yields-callers-default'),
    # cached error: default returned for any cached error, not only MediaNotFoundError (ASGI)
    ('falcon/asgi/request.py', '            if default_when_empty is not _UNSET and isinstance(\n                self._media_error, errors.MediaNotFoundError\n            ):\n',
     '            if default_when_empty is not _UNSET:\n', 'asgi.request:Request.get_media#cached-error-reraised-identical'),
]
HARMLESS = []
