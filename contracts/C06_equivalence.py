"""C06 -- WSGI and ASGI are observationally equivalent: the request side, in relational style.

One abstract request A (method, path, query string, header list over a representative set of
names, scheme, server name/port, remote address, root path) is presented to falcon twice: as
the WSGI environ a PEP 3333 server builds from it and as the ASGI HTTP scope an ASGI server
builds from it (the coupling, function `couple`).  The REAL constructors of falcon.Request and
falcon.asgi.Request run on the coupled inputs (header folding and the singleton rule of
asgi.Request.__init__ included); then, for each accessor pair, BOTH real accessors run in one
harness over the SAME opaque models (one uninterpreted int(), one stand-in per regex / cookie /
date / q-value parser whose result is a function of its argument) and the clause is

    both raise the same error class for the same header, or both return equal values.

The specifications of the individual accessors are C09's; nothing is re-specified here.
"""
from __future__ import annotations

import z3

from pyvc.core import And, ExcVal, Len, Not, Or, Outcome, PyRaise, SStr, Unreached, mk_bool
from pyvc.harness import harness, stubclass

from contracts.C09_request_headers import (
    AM, AREQ, HELPERS, MAX_PIECES, MEDIATYPES, WM, WREQ, Opaque, _base_setup, as_text, bounded_split, has_non_numeric_port, header_bytes,
    header_name_of, hop, latin1_codec, patched, throw,
)

PROP = 'C06'

SINGLETONS = frozenset(['content-length', 'content-type', 'cookie', 'expect', 'from', 'host', 'max-forwards', 'referer', 'user-agent'])
AGREE = 'wsgi-and-asgi-agree'
NON_NUMERIC_PORT_AGREE = 'wsgi-and-asgi-agree-when-a-forwarded-node-port-is-not-a-number'

_ASCII = None


def _ascii():
    global _ASCII
    if _ASCII is None:
        _ASCII = z3.Star(z3.Range(z3.StringVal(chr(0)), z3.StringVal(chr(127))))
    return _ASCII


def is_ascii(x):
    if isinstance(x, SStr):
        return mk_bool(z3.InRe(x.t, _ascii()))
    return all((c if isinstance(c, int) else ord(c)) < 128 for c in x)


def as_bytes(s):
    return SStr(s.t, 'bytes') if isinstance(s, SStr) else s.encode('latin-1')


def eq_codec(ctx, direction, s, enc, errors):
    """latin-1 both ways (same code points); utf-8 decoding of ASCII bytes (the coupling is on ASCII query strings)."""
    e = enc.lower().replace('_', '-')
    if e in ('utf-8', 'utf8') and direction == 'decode' and errors == 'strict':
        if ctx.branch(z3.Not(z3.InRe(s.t, _ascii())), label='non-ascii-utf8'):
            raise Unreached('utf-8 decoding of non-ASCII bytes: outside the coupling')
        return SStr(s.t, 'str')
    return latin1_codec(ctx, direction, s, enc, errors)


def _setup(reg, ex):
    _base_setup(reg, ex)
    ex.codec_handler = eq_codec


INLINE = ['falcon.request:*', 'falcon.asgi.request:*', 'falcon.util.uri:parse_host', 'falcon.util.structures:*', 'falcon.request_helpers:_header_property*',
          'falcon.asgi._request_helpers:*', 'falcon.util.deprecation:*']


# ---------------------------------------------------------------------------
# the abstract request and the coupling


class Abstract:
    """A = (method, path, query, header list, scheme, server, remote address, root path)."""


@stubclass
class Options:
    """RequestOptions as far as the constructors read it."""

    def __init__(self, strip=False, keep_blank=True, csv=False):
        self.strip_url_path_trailing_slash = strip
        self.keep_blank_qs_values = keep_blank
        self.auto_parse_qs_csv = csv
        self._auto_parse_form_urlencoded = False
        self.default_media_type = 'application/json'
        self.media_handlers = None

    def __pyvc_truth__(self):
        return True


def abstract_request(v, optional=(), always=(), repeatable=(), sym_path=False, sym_query=False, sym_method=False, root=False, remote='optional',
                     ports=(80,), schemes=('http',), omit_scheme=False, qs_flags=False, strip=False, fixed=None):
    a = Abstract()
    a.method = v.str('method') if sym_method else 'GET'
    if sym_path:
        a.path = v.str('path')
        v.assume(is_ascii(a.path))  # the WSGI latin-1 re-decoding of a non-ASCII PATH_INFO has no ASGI twin by design (the ASGI server decodes)
    else:
        a.path = '/things'
    if sym_query:
        a.query = v.str('query_string') if v.choose(2, 'has-query') else None
        if a.query is not None:
            v.assume(is_ascii(a.query))
    else:
        a.query = ''
    a.scheme = v.one_of('scheme', *schemes) if len(schemes) > 1 else schemes[0]
    a.scope_may_omit_scheme = omit_scheme
    a.server_name = v.str('server_name')
    a.server_port = v.one_of('server-port', *ports) if len(ports) > 1 else ports[0]
    if remote == 'optional':
        a.remote = v.str('remote_addr') if v.choose(2, 'has-remote-addr') else None
    else:
        a.remote = v.str('remote_addr') if remote else None
    if a.remote is not None:
        v.assume(Len(a.remote) > 0)  # a server-supplied peer address is never the empty string (ASSUMPTIONS)
    a.root_path = v.str('root_path') if root and v.choose(2, 'has-root-path') else None
    a.headers = [(n, val) for n, val in (fixed or {}).items()]
    for n in list(always) + [n for n in optional if v.choose(2, 'has-' + n)]:
        a.headers.append((n, header_bytes(v, n)))
    for n in repeatable:
        if any(k == n for k, _ in a.headers) and v.choose(2, 'repeated-' + n):
            a.headers.append((n, header_bytes(v, n + '_again')))
    flags = v.choose(2, 'qs-option-flags') if qs_flags else 0
    a.options = Options(strip=strip, keep_blank=not flags, csv=bool(flags))
    return a


def fold(header_list):
    """How a repeated header reaches the application: a list-valued field as its values joined by ',' in order; a singleton field as its last occurrence."""
    out = {}
    for n, val in header_list:
        if n in out and n not in SINGLETONS:
            out[n] = out[n] + b',' + val
        else:
            out[n] = val
    return out


WSGI_ERRORS, WSGI_INPUT, RECEIVE = Opaque('wsgi.errors'), Opaque('wsgi.input'), Opaque('receive')


def env_key(n):
    if n in ('content-type', 'content-length'):
        return n.upper().replace('-', '_')
    return 'HTTP_' + n.upper().replace('-', '_')


def couple(v, a):
    """(environ, scope) presenting the same abstract request (PEP 3333 / ASGI HTTP connection scope)."""
    env = {'wsgi.errors': WSGI_ERRORS, 'wsgi.input': WSGI_INPUT, 'REQUEST_METHOD': a.method, 'PATH_INFO': a.path, 'wsgi.url_scheme': a.scheme,
           'SERVER_NAME': a.server_name, 'SERVER_PORT': str(a.server_port)}
    scope = {'type': 'http', 'method': a.method, 'path': a.path, 'server': (a.server_name, a.server_port)}
    # a missing QUERY_STRING is the empty query (PEP 3333); the ASGI key is always present (bytes)
    if a.query is not None:
        env['QUERY_STRING'] = a.query
    scope['query_string'] = as_bytes(a.query) if a.query is not None else b''
    # "scheme ... Optional; if missing defaults to http" (ASGI spec)
    if not (a.scheme == 'http' and a.scope_may_omit_scheme and v.choose(2, 'scope-omits-default-scheme')):
        scope['scheme'] = a.scheme
    if a.remote is not None:
        env['REMOTE_ADDR'] = a.remote
        scope['client'] = (a.remote, 50000)
    if a.root_path is not None:
        env['SCRIPT_NAME'] = a.root_path
        scope['root_path'] = a.root_path
    for n, val in fold(a.headers).items():
        env[env_key(n)] = as_text(val)
    scope['headers'] = [(n.encode(), val) for n, val in a.headers]
    return env, scope


# ---------------------------------------------------------------------------
# opaque parsers shared by both sides: the result is a function of the argument


@stubclass
class SharedParser:
    """One opaque function used by both requests: the k-th call on either side gets the k-th outcome (equal arguments are checked separately)."""

    def __init__(self, v, label, results, may_raise=False):
        self.v, self.label, self.mk_results, self.may_raise = v, label, results, may_raise
        self.calls = {0: [], 1: []}
        self.side = 0
        self.outcomes = []

    def __call__(self, *args, **kwargs):
        v = self.v
        calls = self.calls[self.side]
        i = len(calls)
        calls.append((args, kwargs))
        if i >= len(self.outcomes):
            n = len(self.mk_results) + (1 if self.may_raise else 0)
            k = v.choose(n, self.label + '-outcome')
            self.outcomes.append(('raised', None) if k == len(self.mk_results) else ('returned', self.mk_results[k]()))
        kind, r = self.outcomes[i]
        if kind == 'raised':
            throw(v, ValueError, '%s: malformed value' % self.label)
        return r

    def __pyvc_truth__(self):
        return True

    def coupled(self):
        a, b = self.calls[0], self.calls[1]
        if len(a) != len(b):
            return False
        conj = []
        for (a1, k1), (a2, k2) in zip(a, b):
            if len(a1) != len(a2) or sorted(k1) != sorted(k2):
                return False
            for x, y in list(zip(a1, a2)) + [(k1[k], k2[k]) for k in k1]:
                conj.append(values_equal(x, y))
        return And(*conj) if conj else True


class World:
    """Both requests built from one abstract request, plus the shared opaque functions."""

    def __init__(self, v, a, hops=1, hop_fields=('src', 'host', 'scheme')):
        self.v, self.a = v, a
        self.env, self.scope = couple(v, a)

        def mk_hops():
            n = v.choose(hops + 1, 'hops')
            return [hop(v, i, hop_fields) for i in range(n)]

        self.parsers = {
            'parse_query_string': SharedParser(v, 'parse_query_string', [lambda: Opaque('query parameters')]),
            '_parse_forwarded_header': SharedParser(v, '_parse_forwarded_header', [mk_hops]),
            '_parse_etags': SharedParser(v, '_parse_etags', [lambda: [Opaque('etag')], lambda: None]),
            '_parse_cookie_header': SharedParser(v, '_parse_cookie_header', [lambda: {'sid': [v.str('sid_1'), v.str('sid_2')], 'theme': [v.str('theme_1')]}]),
            'http_date_to_dt': SharedParser(v, 'http_date_to_dt', [lambda: Opaque('datetime')], may_raise=True),
            'quality': SharedParser(v, 'quality', [lambda: 0.0, lambda: 0.7], may_raise=True),
        }
        p = self.parsers
        # same callee on both sides (checked before the names are rebound)
        self.same_callees = (v.real(WM + ':parse_query_string') is v.real(AM + ':parse_query_string') and v.real(WM + ':helpers') is v.real(AM + ':helpers')
                             and v.real(WM + ':parse_host') is v.real(AM + ':parse_host') and issubclass(v.real(AREQ), v.real(WREQ)))
        self.patches = [patched(v, WM, 'parse_query_string', p['parse_query_string']), patched(v, AM, 'parse_query_string', p['parse_query_string']),
                        patched(v, WM, '_parse_forwarded_header', p['_parse_forwarded_header']), patched(v, HELPERS, '_parse_etags', p['_parse_etags']),
                        patched(v, HELPERS, '_parse_cookie_header', p['_parse_cookie_header']), patched(v, 'falcon.util', 'http_date_to_dt', p['http_date_to_dt']),
                        patched(v, MEDIATYPES, 'quality', p['quality'])]

    def __enter__(self):
        for p in self.patches:
            p.__enter__()
        v = self.v
        self.side(0)
        self.wreq = v.obj(WREQ)
        o1 = v.call(self.wreq, self.env, self.a.options, target=WREQ + '.__init__')
        self.side(1)
        self.areq = v.obj(AREQ)
        o2 = v.call(self.areq, self.scope, RECEIVE, None, self.a.options, target=AREQ + '.__init__')
        self.constructed = o1.exc is None and o2.exc is None
        return self

    def __exit__(self, *a):
        for p in reversed(self.patches):
            p.__exit__(*a)
        return False

    def side(self, k):
        for p in self.parsers.values():
            p.side = k

    def parsers_coupled(self):
        return And(*[p.coupled() for p in self.parsers.values()])


# ---------------------------------------------------------------------------
# running one accessor on both sides


def values_equal(x, y):
    """Equality of two observed values: strings / numbers by value, containers element-wise, opaque objects by identity."""
    if x is None or y is None:
        return x is None and y is None
    if isinstance(x, (bytes, bytearray)) and not isinstance(y, (bytes, bytearray, SStr)) or isinstance(y, (bytes, bytearray)) and not isinstance(x, (bytes, bytearray, SStr)):
        return False
    if isinstance(x, dict) and isinstance(y, dict):
        if sorted(x) != sorted(y):
            return False
        return And(*[values_equal(x[k], y[k]) for k in x]) if x else True
    if isinstance(x, (list, tuple)) and isinstance(y, (list, tuple)):
        if len(x) != len(y):
            return False
        return And(*[values_equal(a, b) for a, b in zip(x, y)]) if x else True
    if isinstance(x, (SStr, str, bytes, int, float)) or isinstance(y, (SStr, str, bytes, int, float)) or hasattr(x, 't') or hasattr(y, 't'):
        return x == y
    return x is y


def agree(v, o1, o2):
    """Both raise the same error class (for the same header, when the error names one) or both return equal values."""
    if (o1.exc is None) != (o2.exc is None):
        return False
    if o1.exc is not None:
        if o1.exc.cls is not o2.exc.cls:
            return False
        if o1.exc.isa((v.real('falcon:HTTPInvalidHeader'), v.real('falcon:HTTPMissingHeader'))):
            return values_equal(header_name_of(o1.exc), header_name_of(o2.exc))
        return True
    return values_equal(o1.value, o2.value)


def _finish(r):
    from pyvc.harness import _run_coro

    return _run_coro(r) if hasattr(r, '__await__') else r


def invoke(v, o, name, args=(), kwargs=None):
    """o.name (a property) or o.name(*args, **kwargs) through the real attribute lookup of o's class -> Outcome."""
    kwargs = kwargs or {}
    call = args is not None
    if v.concrete:
        try:
            r = getattr(o, name)
            return Outcome(value=_finish(r(*args, **kwargs)) if call else r)
        except Exception as e:  # noqa: BLE001
            return Outcome(exc=ExcVal(type(e), e.args, real=e))
    try:
        r = v.interp.getattr(o, name)
        return Outcome(value=v.interp.call(r, list(args), dict(kwargs)) if call else r)
    except PyRaise as e:
        return Outcome(exc=e.exc)


def target_of(v, name):
    """The accessor pair is named after the ASGI twin when asgi.Request overrides it, else after the shared source."""
    return (AREQ if name in v.real(AREQ).__dict__ else WREQ) + '.' + name


def touch(v, name):
    """Record the source spans of both implementations in the evidence."""
    if v.concrete:
        return
    for cls in (WREQ, AREQ):
        if name in v.real(cls).__dict__:
            try:
                v.closure(cls + '.' + name)
            except Exception:  # nested property makers have no span of their own
                pass


def check_at(v, target, clause, cond):
    v.ctx.check('%s#%s' % (target, clause), cond, harness=v.hdef.name)


def both(v, w, name, args=None, kwargs=None, clause=AGREE, transform=None):
    """Run accessor `name` on the WSGI request, then on the ASGI request; state agreement."""
    touch(v, name)
    w.side(0)
    o1 = invoke(v, w.wreq, name, args, kwargs)
    w.side(1)
    o2 = invoke(v, w.areq, name, args, kwargs)
    if transform is not None and o1.exc is None and o2.exc is None:
        o1, o2 = Outcome(value=transform[0](o1.value)), Outcome(value=transform[1](o2.value))
    t = target_of(v, name)
    check_at(v, t, clause, agree(v, o1, o2))
    check_at(v, t, 'opaque-parsers-receive-coupled-arguments', w.parsers_coupled())
    return o1, o2


def constructed(v, w):
    v.check('both-constructors-accept-the-coupled-request', w.constructed)
    v.check('both-sides-call-the-same-helper-functions', w.same_callees)
    return w.constructed


# ---------------------------------------------------------------------------
# construction: method, path, query string, params, content type, root path


def _construction(v, strip):
    a = abstract_request(v, optional=['content-type'], sym_path=True, sym_query=True, sym_method=True, root=True, remote=False, qs_flags=True, strip=strip)
    with World(v, a) as w:
        if not constructed(v, w):
            return
        # params: both constructors hand the same query string and the same option flags to the same parse_query_string
        p = w.parsers['parse_query_string']
        nonempty = a.query is not None and bool(Len(a.query) > 0)
        want = [((a.query,), {'keep_blank': a.options.keep_blank_qs_values, 'csv': a.options.auto_parse_qs_csv})] if nonempty else []
        for side, tgt in ((0, WREQ), (1, AREQ)):
            got = p.calls[side]
            ok = len(got) == len(want) and all(len(g[0]) == 1 and g[1] == wnt[1] for g, wnt in zip(got, want))
            check_at(v, tgt + '.__init__', 'query-string-parsed-once-by-parse_query_string-with-the-request-options',
                     And(ok, *[g[0][0] == wnt[0][0] for g, wnt in zip(got, want)]) if ok else False)
        for name in ('params', 'method', 'path', 'query_string', 'content_type', 'root_path', 'app', 'uri_template'):
            both(v, w, name)
        v.cover('constructed')


for _s in (0, 1):
    harness(PROP, AREQ + '.__init__', name='eq_construction[strip_url_path_trailing_slash=%d]' % _s, setup=_setup, inline=INLINE)(
        (lambda s: lambda v: _construction(v, bool(s)))(_s))


# ---------------------------------------------------------------------------
# header lookup, folding, the header mappings


NAMES = ['X-Token', 'x-token', 'X-TOKEN', 'x-ToKeN', 'Content-Type', 'content-type', 'CONTENT-LENGTH', 'Content-Length', 'Accept']


@harness(PROP, AREQ + '.get_header', name='eq_get_header', setup=_setup, inline=INLINE)
def eq_get_header(v):
    a = abstract_request(v, optional=['x-token', 'content-type', 'content-length'], remote=False)
    with World(v, a) as w:
        if not constructed(v, w):
            return
        name = v.one_of('name', *NAMES)
        required = bool(v.choose(2, 'required'))
        default = v.str('default') if v.choose(2, 'default-given') else None
        both(v, w, 'get_header', (name,), {'required': required, 'default': default})
        v.cover('looked-up')


FOLDED = ['x-forwarded-for', 'accept', 'host', 'cookie', 'content-type', 'x-token']


def _folding(v, n):
    """Repeated header lines: list-valued fields are joined by ',', singleton fields keep their last occurrence -- on both sides."""
    a = abstract_request(v, always=[n], repeatable=[n], remote=False)
    with World(v, a) as w:
        if not constructed(v, w):
            return
        both(v, w, 'get_header', (n.title(),), {})
        both(v, w, 'headers_lower')
        if n == 'content-type':
            both(v, w, 'content_type')
        if n == 'accept':
            both(v, w, 'accept')
        if n == 'host':
            both(v, w, 'netloc')
        v.cover('folded')


for _n in FOLDED:
    harness(PROP, AREQ + '.__init__', name='eq_header_folding[%s]' % _n, setup=_setup, inline=INLINE)((lambda n: lambda v: _folding(v, n))(_n))


def lower_keys(d):
    return {k.lower(): val for k, val in d.items()}


@harness(PROP, AREQ + '.headers', name='eq_headers', setup=_setup, inline=INLINE)
def eq_headers(v):
    """headers: WSGI documents upper-cased names, ASGI lower-cased ones -> compared modulo case; headers_lower is documented as the uniform view."""
    a = abstract_request(v, optional=['host', 'content-type', 'content-length', 'x-token', 'if-modified-since'], remote=False)
    with World(v, a) as w:
        if not constructed(v, w):
            return
        both(v, w, 'headers_lower')
        o1, o2 = both(v, w, 'headers', clause='wsgi-and-asgi-agree-modulo-the-documented-name-casing', transform=(lower_keys, lower_keys))
        names = sorted(n for n, _ in a.headers)
        w1 = invoke(v, w.wreq, 'headers', None)
        w2 = invoke(v, w.areq, 'headers', None)
        check_at(v, WREQ + '.headers', 'wsgi-names-are-upper-case-with-dashes', w1.exc is None and sorted(w1.value) == sorted(n.upper() for n in names))
        check_at(v, AREQ + '.headers', 'asgi-names-are-lower-case', w2.exc is None and sorted(w2.value) == names)
        v.cover('mapped')


@harness(PROP, AREQ + '.user_agent', name='eq_header_properties', setup=_setup, inline=INLINE)
def eq_header_properties(v):
    hdrs = {'user_agent': 'user-agent', 'auth': 'authorization', 'expect': 'expect', 'if_range': 'if-range', 'referer': 'referer'}
    a = abstract_request(v, optional=list(hdrs.values()), remote=False)
    with World(v, a) as w:
        if not constructed(v, w):
            return
        for name in hdrs:
            both(v, w, name)


# ---------------------------------------------------------------------------
# typed accessors over the same uninterpreted int()


@harness(PROP, AREQ + '.content_length', name='eq_content_length', setup=_setup, inline=INLINE)
def eq_content_length(v):
    a = abstract_request(v, optional=['content-length', 'x-count'], remote=False)
    with World(v, a) as w:
        if not constructed(v, w):
            return
        both(v, w, 'content_length')
        both(v, w, 'get_header_as_int', ('Content-Length',), {})
        both(v, w, 'get_header_as_int', ('X-Count',), {'required': bool(v.choose(2, 'required'))})
        v.cover('read')


@harness(PROP, WREQ + '.range', name='eq_range', setup=_setup, inline=INLINE)
def eq_range(v):
    a = abstract_request(v, optional=['range'], remote=False)
    with World(v, a) as w:
        if not constructed(v, w):
            return
        both(v, w, 'range')
        both(v, w, 'range_unit')
        v.cover('read')


# ---------------------------------------------------------------------------
# scheme / host / port / netloc / subdomain


@harness(PROP, AREQ + '.host', name='eq_host_port_netloc', setup=_setup, inline=INLINE)
def eq_host_port_netloc(v):
    # with a Host header only the scheme matters (default port); without one the server entry is read
    if v.choose(2, 'has-host'):
        a = abstract_request(v, always=['host'], schemes=('http', 'https'), omit_scheme=True, remote=False)
    else:
        a = abstract_request(v, schemes=('http', 'https'), ports=(80, 443, 8080), omit_scheme=True, remote=False)
    with World(v, a) as w:
        if not constructed(v, w):
            return
        for name in ('scheme', 'netloc', 'host', 'port', 'subdomain'):
            both(v, w, name)
        v.cover('read')


# ---------------------------------------------------------------------------
# forwarding information


def _forwarding(v, group):
    hdrs = [['forwarded'], ['x-forwarded-proto', 'x-forwarded-host'], ['forwarded', 'x-forwarded-proto', 'x-forwarded-host'], []][group]
    a = abstract_request(v, optional=['host'], always=hdrs, ports=(80, 8080), schemes=('http', 'https'), remote=False)
    with World(v, a, hops=2, hop_fields=('host', 'scheme')) as w:
        if not constructed(v, w):
            return
        for name in ('forwarded', 'forwarded_scheme', 'forwarded_host'):
            both(v, w, name)
        v.cover('read')


@harness(PROP, AREQ + '.forwarded_scheme', name='eq_forwarded_scheme_case', setup=_setup, inline=INLINE)
def eq_forwarded_scheme_case(v):
    """A concrete mixed-case X-Forwarded-Proto (lower-casing is an uninterpreted function elsewhere): replayable instance."""
    a = abstract_request(v, fixed={'x-forwarded-proto': b'HTTPS', 'x-forwarded-host': b'Example.COM'}, remote=False)
    with World(v, a) as w:
        if not constructed(v, w):
            return
        both(v, w, 'forwarded_scheme')
        both(v, w, 'forwarded_host')
        both(v, w, 'forwarded_uri')


for _g, _nm in enumerate(['forwarded', 'x-forwarded', 'both', 'none']):
    harness(PROP, AREQ + '.forwarded_host', name='eq_forwarding[%s]' % _nm, setup=_setup, inline=INLINE)((lambda g: lambda v: _forwarding(v, g))(_g))


def _urls(v, group):
    hdrs = [[], ['forwarded'], ['x-forwarded-proto', 'x-forwarded-host']][group]
    a = abstract_request(v, optional=['host'], always=hdrs, sym_path=True, sym_query=True, root=True, ports=(80, 8080), remote=False)
    with World(v, a, hops=1, hop_fields=('host', 'scheme')) as w:
        if not constructed(v, w):
            return
        for name in ('relative_uri', 'uri', 'url', 'prefix', 'forwarded_uri', 'forwarded_prefix'):
            both(v, w, name)
        v.cover('composed')


for _g, _nm in enumerate(['plain', 'forwarded', 'x-forwarded']):
    harness(PROP, WREQ + '.uri', name='eq_urls[%s]' % _nm, setup=_setup, inline=INLINE)((lambda g: lambda v: _urls(v, g))(_g))


# ---------------------------------------------------------------------------
# remote address and access route


def _route(v, source, what):
    hdrs = [['forwarded'], ['x-forwarded-for'], ['x-real-ip'], []][source]
    lower = ['x-real-ip'] + (['x-forwarded-for'] if source == 0 else []) if source < 2 and v.choose(2, 'lower-priority-headers-too') else []
    a = abstract_request(v, always=hdrs + lower)
    for xff in [val for n, val in a.headers if n == 'x-forwarded-for']:
        # whenever the header is present (also as the lower-priority one: a side that consulted it first would otherwise be unreached, not refuted)
        bounded_split(v, as_text(xff), ',', MAX_PIECES)  # bounded: at most MAX_PIECES addresses (C09)
    with World(v, a, hops=1, hop_fields=('src',)) as w:
        if not constructed(v, w):
            return
        if what == 'access_route':
            both(v, w, 'access_route')
            both(v, w, 'access_route')  # memoised on both sides
        else:
            # asgi remote_addr is documented as the last element of access_route; wsgi reads REMOTE_ADDR only.  When a Forwarded node carries a
            # non-numeric port the route itself fails on both sides (C09 finding) and only the ASGI remote_addr inherits that failure: named apart.
            p = w.parsers['_parse_forwarded_header']
            w.side(0)
            probe = invoke(v, w.wreq, 'forwarded', None) if source == 0 else None
            bad = source == 0 and probe.exc is None and any(has_non_numeric_port(h.src) for h in (probe.value or ()))
            both(v, w, 'remote_addr', clause=NON_NUMERIC_PORT_AGREE if bad else AGREE)
        v.cover('read')


for _src, _nm in enumerate(['forwarded', 'x-forwarded-for', 'x-real-ip', 'peer-only']):
    # (the two primary sources that can be accompanied by lower-priority headers are split into one variant per choice: wall-clock only)
    for _low in ((0, 1) if _src < 2 else (None,)):
        _fix = {} if _low is None else {'lower-priority-headers-too': _low}
        _sfx = '' if _low is None else (',with-lower-priority-headers' if _low else ',alone')
        harness(PROP, AREQ + '.access_route', name='eq_access_route[%s%s]' % (_nm, _sfx), setup=_setup, inline=INLINE, fix=_fix)((lambda s: lambda v: _route(v, s, 'access_route'))(_src))
        harness(PROP, AREQ + '.remote_addr', name='eq_remote_addr[%s%s]' % (_nm, _sfx), setup=_setup, inline=INLINE, fix=_fix)((lambda s: lambda v: _route(v, s, 'remote_addr'))(_src))


# ---------------------------------------------------------------------------
# accept checks, conditional / date / cookie accessors over the same opaque parsers


def _accept(v, names):
    a = abstract_request(v, optional=['accept'], remote=False)
    with World(v, a) as w:
        if not constructed(v, w):
            return
        for name in names:
            if name == 'client_accepts':
                both(v, w, name, (v.str('media_type'),), {})
            else:
                both(v, w, name)
        v.cover('read')


for _nm, _names in (('accept', ['accept', 'client_accepts']), ('json-xml', ['client_accepts_json', 'client_accepts_xml']), ('msgpack', ['client_accepts_msgpack'])):
    harness(PROP, AREQ + '.accept', name='eq_accept[%s]' % _nm, setup=_setup, inline=INLINE)((lambda ns: lambda v: _accept(v, ns))(_names))


@harness(PROP, AREQ + '.if_match', name='eq_conditional_and_dates', setup=_setup, inline=INLINE)
def eq_conditional_and_dates(v):
    a = abstract_request(v, optional=['if-match', 'if-none-match', 'if-modified-since'], remote=False)
    with World(v, a) as w:
        if not constructed(v, w):
            return
        for name in ('if_match', 'if_none_match', 'if_modified_since', 'if_match'):
            both(v, w, name)
        both(v, w, 'get_header_as_datetime', ('If-Modified-Since',), {'required': True, 'obs_date': True})
        v.cover('read')


@harness(PROP, WREQ + '.date', name='eq_dates', setup=_setup, inline=INLINE)
def eq_dates(v):
    a = abstract_request(v, optional=['date', 'if-unmodified-since'], remote=False)
    with World(v, a) as w:
        if not constructed(v, w):
            return
        for name in ('date', 'if_unmodified_since'):
            both(v, w, name)


@harness(PROP, WREQ + '.cookies', name='eq_cookies', setup=_setup, inline=INLINE)
def eq_cookies(v):
    a = abstract_request(v, optional=['cookie'], remote=False)
    with World(v, a) as w:
        if not constructed(v, w):
            return
        order = v.choose(2, 'values-first')
        for name, args in ([('get_cookie_values', ('sid',)), ('cookies', None)] if order else [('cookies', None), ('get_cookie_values', ('sid',))]):
            both(v, w, name, args)
        both(v, w, 'get_cookie_values', ('absent',))
        v.cover('read')


ASSUMPTIONS = [
    'the coupling (function `couple`): one abstract request is presented as the environ a PEP 3333 server builds (HTTP_<NAME> keys, CONTENT_TYPE / CONTENT_LENGTH without the prefix, '
    'REQUEST_METHOD, PATH_INFO, QUERY_STRING possibly absent for an empty query, wsgi.url_scheme, SERVER_NAME / SERVER_PORT, REMOTE_ADDR, SCRIPT_NAME) and as the ASGI HTTP scope '
    '(method, path, query_string bytes, headers as a list of lower-cased name / value byte pairs, scheme possibly omitted when it is http, server, client, root_path)',
    'repeated header lines: the WSGI server hands list-valued fields joined by "," in order and singleton fields (falcon.constants.SINGLETON_HEADERS) as their last occurrence -- '
    'the rule asgi.Request.__init__ implements itself (source NOTE); real WSGI servers differ among themselves here (wsgiref joins every repeated field with ",")',
    'by design, documented in the sources: (1) PATH_INFO of a WSGI request is latin-1 tunnelled and re-decoded as UTF-8 while an ASGI server delivers the decoded path -- coupled on ASCII paths; '
    'query strings likewise ASCII; (2) Request.headers uses upper-cased names on WSGI and lower-cased names on ASGI (both docstrings) -- compared modulo case, headers_lower compared exactly; '
    '(3) a scope without "server" defaults to ("localhost", 80|443) (ASGI docstring of host / _asgi_server) while PEP 3333 makes SERVER_NAME / SERVER_PORT mandatory -- coupled with "server" present; '
    '(4) scope["client"] and REMOTE_ADDR are both optional and both default to 127.0.0.1; (5) only the http scope type is coupled (websocket scopes have no WSGI twin)',
    'a peer address supplied by the server is not the empty string (with an empty one and no route headers WSGI access_route is [""] and ASGI access_route is [])',
    'get_header names are the spellings an application writes for the representative fields (any mix of upper / lower case, "-" separators); a name written with "_" reaches the same CGI variable '
    'on WSGI (PEP 3333 cannot distinguish X_Token from X-Token) and has no ASGI twin',
    'opaque helpers (parse_query_string, _parse_forwarded_header, _parse_etags, _parse_cookie_header, http_date_to_dt, mediatypes.quality) are functions of their arguments; both classes use the '
    'same function objects (clause both-sides-call-the-same-helper-functions) and every call is checked to receive equal arguments on both sides',
    'int() is one uninterpreted function shared by both sides (model of C09); all C09 ASSUMPTIONS about it, about latin-1 header values and about the bounded shapes '
    '(X-Forwarded-For with at most 3 addresses, at most 2 Forwarded elements) apply',
]
NOT_DECIDED = [
    'response side: status, header set and body produced by the two App.__call__ tails -- decided separately against one framing specification in C05, not relationally here',
    'the falcon.testing half (create_environ / create_scope, ASGI event emitters and collectors, simulate_request versus a spec-faithful server driver): test scaffolding whose specification is two '
    'external protocol documents; not decided by this technique',
    'request bodies and media across the stacks (bounded_stream / stream, get_media): covered by the C07 and C12 contracts per stack',
    'get_param* / has_param / client_prefers / context: shared source operating on _params / accept, which are shown equal here; not run pairwise',
    'header names with arbitrary (symbolic) spelling in get_header: the two sides normalise with different functions (upper + "-" -> "_" versus lower); only concrete spellings are compared',
    'non-ASCII paths and query strings, websocket scopes, scope["client"] = None (C09 finding), scope without "server"',
]
TRUSTED = [
    'the coupling `couple`, the folding specification `fold`, the restated singleton set, SharedParser (k-th call on either side gets the k-th outcome) in contracts/C06_equivalence.py',
    'everything listed as TRUSTED in contracts/C09_request_headers.py (int model, codec model, word-equation hooks, `patched`)',
    'agreement is observed through `values_equal`: strings and numbers by value, lists / tuples / dicts element-wise, opaque parser results by identity',
]
KILLS = [
    # a changed default port on ONE side
    ('falcon/asgi/request.py', '            default_port = 443 if self._secure_scheme else 80\n            __, port = parse_host(host_header, default_port=default_port)\n',
     '            default_port = 8443 if self._secure_scheme else 80\n            __, port = parse_host(host_header, default_port=default_port)\n', 'falcon.asgi.request:Request.port#wsgi-and-asgi-agree'),
    ('falcon/request.py', "            default_port = 80 if self.env['wsgi.url_scheme'] == 'http' else 443\n", "            default_port = 8080 if self.env['wsgi.url_scheme'] == 'http' else 443\n",
     'falcon.asgi.request:Request.port#wsgi-and-asgi-agree'),
    ('falcon/request.py', "            else:\n                if port != '80':\n", "            else:\n                if port != '8080':\n", 'falcon.asgi.request:Request.netloc#wsgi-and-asgi-agree'),
    # the header folding rule changed
    ('falcon/asgi/request.py', "                req_headers[header_name] += b',' + header_value\n", "                req_headers[header_name] += b', ' + header_value\n", 'falcon.asgi.request:Request.get_header#wsgi-and-asgi-agree'),
    ('falcon/asgi/request.py', '                header_name not in req_headers\n                or header_name in _SINGLETON_HEADERS_BYTESTR\n', '                header_name not in req_headers\n',
     'falcon.asgi.request:Request.get_header#wsgi-and-asgi-agree'),
    # a lower() / upper() lost on one side
    ('falcon/asgi/request.py', "            asgi_name = name.lower().encode('latin1')\n", "            asgi_name = name.encode('latin1')\n", 'falcon.asgi.request:Request.get_header#wsgi-and-asgi-agree'),
    ('falcon/request.py', "        wsgi_name = name.upper().replace('-', '_')\n", "        wsgi_name = name.replace('-', '_')\n", 'falcon.asgi.request:Request.get_header#wsgi-and-asgi-agree'),
    ('falcon/asgi/request.py', "                    self._asgi_headers[b'x-forwarded-proto'].decode('latin1').lower()\n", "                    self._asgi_headers[b'x-forwarded-proto'].decode('latin1')\n",
     'falcon.asgi.request:Request.forwarded_scheme#wsgi-and-asgi-agree'),
    # `or '/'` dropped on one side
    ('falcon/asgi/request.py', "        path = scope['path'] or '/'\n", "        path = scope['path']\n", 'falcon.request:Request.path#wsgi-and-asgi-agree'),
    ('falcon/request.py', "        path: str = env['PATH_INFO'] or '/'\n", "        path: str = env['PATH_INFO']\n", 'falcon.request:Request.path#wsgi-and-asgi-agree'),
    # ASGI content_length `<` vs `<=`
    ('falcon/asgi/request.py', '        if value_as_int < 0:\n', '        if value_as_int <= 0:\n', 'falcon.asgi.request:Request.content_length#wsgi-and-asgi-agree'),
    # trailing-slash stripping on one side only
    ('falcon/request.py', '            self.path: str = path[:-1]\n', '            self.path: str = path\n', 'falcon.request:Request.path#wsgi-and-asgi-agree'),
    ('falcon/asgi/request.py', '            self.path = path[:-1]\n', '            self.path = path\n', 'falcon.request:Request.path#wsgi-and-asgi-agree'),
    # request options not handed to the query-string parser on one side
    ('falcon/asgi/request.py', '                keep_blank=self.options.keep_blank_qs_values,\n', '                keep_blank=True,\n',
     'falcon.asgi.request:Request.__init__#query-string-parsed-once-by-parse_query_string-with-the-request-options'),
    # defaults drifting apart
    ('falcon/request.py', "            value = '127.0.0.1'\n", "            value = 'localhost'\n", 'falcon.asgi.request:Request.remote_addr#wsgi-and-asgi-agree'),
    ('falcon/asgi/request.py', "            return self._asgi_headers[b'accept'].decode('latin1') or '*/*'\n", "            return self._asgi_headers[b'accept'].decode('latin1') or '*'\n",
     'falcon.asgi.request:Request.accept#wsgi-and-asgi-agree'),
    ('falcon/asgi/request.py', "            elif b'x-real-ip' in headers:\n", "            elif b'x-client-ip' in headers:\n", 'falcon.asgi.request:Request.access_route#wsgi-and-asgi-agree'),
    # the twin reads another header
    ('falcon/asgi/request.py', "            header_value = self._asgi_headers.get(b'if-match')\n", "            header_value = self._asgi_headers.get(b'if-none-match')\n", 'falcon.asgi.request:Request.if_match#'),
    ('falcon/request.py', "            self.content_type = self.env['CONTENT_TYPE']\n", "            self.content_type = self.env['HTTP_CONTENT_TYPE']\n", 'falcon.request:Request.content_type#wsgi-and-asgi-agree'),
]
HARMLESS = [
    ('falcon/asgi/request.py', "        path = scope['path'] or '/'\n", "        path = scope['path'] if scope['path'] else '/'\n"),
    ('falcon/asgi/request.py', "        if self.method == 'GET':\n", "        if self.method == 'GET' and self.method != 'POST':\n"),
]
