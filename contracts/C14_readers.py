"""C14 -- buffered readers behave like one flat byte buffer for every chunking.

Sync:  falcon/util/reader.py  BufferedReader   (pure Python; the Cython twin cyutil/reader.pyx is out of reach)
Async: falcon/asgi/reader.py  BufferedReader

Ghost view.  `src` (prophecy) is everything the source will still deliver.  The
reader's abstract value is the byte string it can still hand out,

    sync:   V(self) = _buffer[_buffer_pos:_buffer_len] ++ src[pos : pos + _max_bytes_remaining]
    async:  V(self) = _buffer[_buffer_pos:_buffer_len] ++ (chunks the normalised source has not delivered yet)

and every operation is specified as the same operation on a flat cursor over V:
it returns a prefix V[:k] and leaves V[k:] ("consumed data is never returned
twice or skipped"); read-until stops at the FIRST occurrence of the delimiter in
V, at the size cap or at the end; tell() = bytes handed out; eof only at the end.
Representation invariant, assumed at entry and re-proved (one clause per
conjunct) at exit of every operation:

    _buffer_len == len(_buffer)      0 <= _buffer_pos <= _buffer_len      _max_bytes_remaining >= 0  (sync)

Sync source contract (io.RawIOBase.read / wsgi.input): read(n) with n > 0 returns
a prefix of the rest of `src` of length <= n, empty only at the end of the
source; the reader must never call it with n <= 0 nor with n >
_max_bytes_remaining ("reads never exceed the declared maximum length") -- an
obligation generated at every call of the stub.

Proof structure (modular).
  Part A  bytes as SMT strings (cvc5): _perform_read with its loop invariant (the one function that receives bytes from
          outside), __init__, _normalize_size.
  Part B  sync reader over the *window domain* (see there): _perform_read again, _fill_buffer, peek, _read, read,
          _read_until (with _finalize_read_until/_read/peek/_fill_buffer inlined, loop invariant incl. "no delimiter
          starts in the backlog"), read_until, pipe, exhaust, pipe_until, readline, readlines, delimit.
          `_perform_read` is replaced by its exact, deterministic contract everywhere else; composite operations use
          the proved contracts of the operations they call.
  Part C  async reader: every non-generator method; the generators _iter_normalized/_iter_with_buffer/_iter_delimited
          run eagerly with a clause at EVERY yield ("exactly the yielded bytes are removed from the view"); _read_from,
          read, readall, read_until, pipe, exhaust, pipe_until against any generator keeping that contract.
  bounded(tier, seed, overlay)   differential test of both real readers against a flat cursor (labelled, never counted as proved).

Refuted on the unchanged tree (genuine, replayed on the real code through public operations):
  falcon.util.reader:BufferedReader._read#invariant-buffer-pos-within-buffer
      source shorter than max_stream_len: BufferedReader(io.BytesIO(b'').read, 1, 2).read() leaves _buffer_pos == 1 > _buffer_len == 0;
      BufferedReader(io.BytesIO(b'a').read, 10, 4): read(3); sub = delimit(b'--'); sub.read_until(b'abc') never returns.
      Also with an exact declared length, through a delimited sub-reader (its declared length is the parent's whole remainder):
      r = BufferedReader(io.BytesIO(b'a\\nbbbb').read, 6, 4); c = r.delimit(b'\\n'); c.read(3) -> b'a' with c._buffer_pos == 3 > c._buffer_len == 1;
      c.delimit(b'--').read_until(b'abc') never returns (found by the bounded stand-in).
  falcon.asgi.reader:BufferedReader._iter_delimited#yielded-bytes-are-consumed
      delimiter never found before the source ends: the final `yield self._buffer` does not consume it -- read_until(d) and a
      following read() both return the bytes, tell() lags.
"""
from __future__ import annotations

import z3

from pyvc.core import And, Iff, Implies, Ite, Len, Max, Min, Not, Or, SStr, Unreached, cur, is_sym, mk_str, _i, _s
from pyvc.harness import harness, stubclass
from pyvc.interp import LoopSpec

PROP = 'C14'
SM = 'falcon.util.reader'
SR = SM + ':BufferedReader'
AM = 'falcon.asgi.reader'
AR = AM + ':BufferedReader'


# ---------------------------------------------------------------------------
# helpers that work on symbolic proxies and on plain values


def Sub(s, i, n):
    """s[i : i+n] for i >= 0 (SMT str.substr: clamped at the end, empty when n <= 0)."""
    if not (is_sym(s) or is_sym(i) or is_sym(n)):
        return s[i : i + n] if n > 0 else s[:0]
    return mk_str(z3.SubString(_s(s), _i(i), _i(n)), 'bytes')


# ---------------------------------------------------------------------------
# ghost environment of the sync reader


@stubclass
class ReadFunc:
    """The source callable handed to BufferedReader: a cursor over `src`."""

    def __init__(self, v, src):
        self.v = v
        self.src = src
        self.pos = 0
        self.reader = None
        self.calls = 0

    def __call__(self, n):
        v = self.v
        rem = v.get(self.reader, '_max_bytes_remaining')
        v.check('source-asked-for-a-positive-size-within-the-declared-remaining-length', And(n > 0, n <= rem))
        avail = Len(self.src) - self.pos
        k = v.int('k_read', 0)
        if v.concrete and (k == 0 or k > min(n, avail)):
            k = min(n, avail)  # replay of a path that used the _perform_read contract: any legal chunking will do
        v.assume(And(k <= n, k <= avail, Implies(k == 0, avail == 0)))
        r = self.src[self.pos : self.pos + k]
        self.pos = self.pos + k
        self.calls += 1
        return r


@stubclass
class GhostBytesIO:
    """io.BytesIO used as an append-only accumulator (cursor always at the end)."""

    def __init__(self, initial=b''):
        self.value = initial

    def seek(self, pos, whence=0):
        if whence != 0 or cur().branch(z3.simplify(_i(pos) != _i(Len(self.value))), label='bytesio-seek-not-at-end'):
            raise Unreached('io.BytesIO.seek to a position other than the end of the accumulated value')
        return pos

    def write(self, data):
        self.value = self.value + data if isinstance(self.value, SStr) or not isinstance(data, SStr) else data.__radd__(self.value)
        return Len(data)

    def getvalue(self):
        return self.value


def _bytesio_model(reg):
    import io

    reg.add_model(io.BytesIO, lambda I, *a: GhostBytesIO(*a))


class St:
    pass


def mk(v):
    """A sync reader in an arbitrary state satisfying the representation invariant."""
    st = St()
    st.src = v.bytes('src')
    st.cs = v.int('chunk_size', 1)
    st.buf = v.bytes('buf')
    st.bp = v.int('bp', 0)
    st.rem = v.int('rem', 0)
    v.assume(st.bp <= Len(st.buf))
    st.rf = ReadFunc(v, st.src)
    st.s = v.obj(SR, _read_func=st.rf, _chunk_size=st.cs, _max_join_size=st.cs * v.real(SM + ':_MAX_JOIN_CHUNKS'), _buffer=st.buf,
                 _buffer_len=Len(st.buf), _buffer_pos=st.bp, _max_bytes_remaining=st.rem)
    st.rf.reader = st.s
    st.B0 = Sub(st.buf, st.bp, Len(st.buf) - st.bp)
    st.S0 = Sub(st.src, 0, st.rem)
    st.V0 = st.B0 + st.S0
    st.nB = Len(st.buf) - st.bp
    st.nS = Min(st.rem, Len(st.src))
    st.nV = st.nB + st.nS
    return st


def fields(v, s):
    g = lambda n: v.get(s, n)
    return g('_buffer'), g('_buffer_len'), g('_buffer_pos'), g('_max_bytes_remaining'), g('_read_func')


def view(v, s):
    buf, bl, bp, rem, rf = fields(v, s)
    return Sub(buf, bp, bl - bp) + Sub(rf.src, rf.pos, rem)


def check_inv(v, s):
    """The representation invariant, one clause per conjunct."""
    buf, bl, bp, rem, rf = fields(v, s)
    v.check('invariant-buffer-len-is-len-of-buffer', bl == Len(buf))
    v.check('invariant-buffer-pos-within-buffer', And(0 <= bp, bp <= bl))
    v.check('invariant-budget-nonnegative', rem >= 0)


def frame_buffer(v, st):
    buf, bl, bp, rem, rf = fields(v, st.s)
    return And(buf == st.buf, bl == Len(st.buf), bp == st.bp)


# ---------------------------------------------------------------------------
# _perform_read: the only function that talks to the source


def _pr_loop(reg, ex):
    ex.check_timeout_ms = 1500
    _bytesio_model(reg)

    def linv(L):
        s = L['self']
        rf = s._read_func
        acc = L['result'].value
        got = rf.pos - rf.pos0
        return And(
            rf.pos0 <= rf.pos, rf.pos <= Len(rf.src),
            acc == Sub(rf.src, rf.pos0, got),
            s._max_bytes_remaining == rf.rem0 - got,
            L['size'] - L['chunk_len'] == rf.m - got,
            L['size'] - L['chunk_len'] >= 0,
        )

    def havoc(ctx, L):
        L['result'].value = ctx.fresh_bytes('hv_acc')
        L['self']._read_func.pos = ctx.fresh_int('hv_pos')

    reg.loops[(SR + '._perform_read', 'while#0')] = LoopSpec(inv=linv, havoc=havoc)


def pr_result(n, rem, src, pos):
    """(#bytes, wanted) delivered by _perform_read(n): min(n, remaining budget) bytes, short only at the end of the source."""
    m = Max(0, Min(n, rem))
    return Min(m, Len(src) - pos), m


@harness(PROP, SR + '._perform_read', setup=_pr_loop)
def perform_read(v):
    st = mk(v)
    s, rf = st.s, st.rf
    pos0 = v.int('pos0', 0)
    v.assume(pos0 <= Len(st.src))
    rf.pos = pos0
    n = v.int('n')
    r, m = pr_result(n, st.rem, st.src, pos0)
    rf.pos0, rf.rem0, rf.m = pos0, st.rem, m
    out = v.call(s, n)
    v.check('no-exception', out.exc is None)
    if out.exc is not None:
        return
    ret = out.value
    buf, bl, bp, rem, _ = fields(v, s)
    v.check('returns-the-next-source-bytes-in-order', ret == Sub(st.src, pos0, Len(ret)))
    v.check('returns-min-of-size-and-budget-short-only-at-end-of-source', Len(ret) == r)
    v.check('source-cursor-advances-by-exactly-the-returned-bytes', rf.pos == pos0 + Len(ret))
    v.check('budget-deducts-the-returned-bytes-and-drops-to-zero-at-end-of-source', rem == Ite(r == m, st.rem - r, 0))
    v.check('never-returns-more-than-the-declared-remaining-length', Len(ret) <= st.rem)
    v.check('buffer-untouched', frame_buffer(v, st))
    check_inv(v, s)
    if m > 0:
        v.cover('reads-from-source')
    if rf.calls >= 2:
        v.cover('loops-on-a-short-read')


# ---------------------------------------------------------------------------
# __init__


@harness(PROP, SR + '.__init__')
def init(v):
    src = v.bytes('src')
    rf = ReadFunc(v, src)
    L = v.int('max_stream_len', 0)
    kind = v.choose(3, 'chunk_size-kind')
    cs = [None, 0, None][kind] if kind < 2 else v.int('chunk_size', 1)
    s = v.obj(SR)
    rf.reader = s
    out = v.call(s, rf, L) if kind == 0 else v.call(s, rf, L, cs)
    v.check('no-exception', out.exc is None)
    if out.exc is not None:
        return
    check_inv(v, s)
    v.check('view-is-the-first-max_stream_len-bytes-of-the-source', view(v, s) == Sub(src, 0, L))
    v.check('source-not-touched', And(rf.pos == 0, rf.calls == 0))
    default = v.real(SM + ':DEFAULT_CHUNK_SIZE')
    v.check('chunk-size-is-the-given-one-or-the-default', v.get(s, '_chunk_size') == (cs if kind == 2 else default))
    v.check('chunk-size-positive', v.get(s, '_chunk_size') >= 1)
    v.check('join-limit-is-a-whole-number-of-chunks', v.get(s, '_max_join_size') == v.get(s, '_chunk_size') * v.real(SM + ':_MAX_JOIN_CHUNKS'))


# ---------------------------------------------------------------------------
# _normalize_size


def peek_size(size, cs):
    return Ite(Or(size < 0, size > cs), cs, size)


def size_arg(v, allow_none=True):
    """A size argument of the public API: None, -1 (both: everything) or >= 0."""
    kind = v.choose(3 if allow_none else 2, 'size-kind')
    if kind == 0:
        return -1, kind
    if kind == 1:
        return v.int('size', 0), kind
    return None, kind


@harness(PROP, SR + '._normalize_size')
def normalize_size(v):
    st = mk(v)
    size, kind = size_arg(v)
    out = v.call(st.s, size)
    v.check('no-exception', out.exc is None)
    if out.exc is not None:
        return
    k = out.value
    v.check('state-untouched', And(frame_buffer(v, st), v.get(st.s, '_max_bytes_remaining') == st.rem, st.rf.pos == 0))
    v.check('never-negative', k >= 0)
    v.check('never-more-than-buffered-plus-declared-remaining', k <= st.rem + st.nB)
    if kind == 1:
        v.check('a-given-size-is-only-ever-reduced', k <= size)
        v.check('covers-min-of-size-and-view', k >= Min(size, st.nV))
    else:
        v.check('no-size-means-everything', And(k == st.rem + st.nB, k >= st.nV))


# ===========================================================================
# PART B -- the window domain.
#
# Every bytes value the readers ever handle is a *window* T[a:b] of one fixed
# prophecy string T = (initial buffer content) ++ (everything the source will
# deliver): the readers only slice and concatenate what they were given.  In
# this part bytes values are therefore represented by their two indices (class
# Win); slicing is index arithmetic, and `x + y` is the window [x.a, y.b) --
# with the proof obligation, generated at EVERY concatenation the code
# performs, that y starts where x ends ("consumed data is never returned twice
# or skipped", "in order").  All obligations become linear integer arithmetic,
# decided by z3 in milliseconds, for all data, chunkings and sizes.
#
# Delimiter search: first(x) = index of the first occurrence of the (one)
# delimiter of the harness in T at or after x, or -1.  window.find(d, s) is, by
# definition of bytes.find for a non-empty d, first(a+s) if that occurrence lies
# wholly inside the window, else -1.  `first` is an uninterpreted function; for
# the finitely many points x it is applied to on a path, the ground instances of
# its defining property are assumed:
#     first(x) == -1  or  x <= first(x) <= len(T) - len(d)
#     x <= y and (first(x) == -1 or y <= first(x))  ==>  first(y) == first(x)
# (both are true of the real first-occurrence function), and
#     T[p:p+n] == d   <=>   n == len(d) and first(p) == p.
# In concrete replay windows are plain bytes over a patterned T.

_CURW = [None]


class World:
    """The prophecy string T in which all bytes values of one path live (T itself is never needed symbolically)."""

    def __init__(self, v):
        self.v = v
        self.T = None  # concrete replay only
        self.dl = None
        self.delim = None
        self.points = []
        self.memo = {}
        self.F = z3.Function('first_occurrence_at_or_after', z3.IntSort(), z3.IntSort())
        self.lenT = 0
        _CURW[0] = self

    def win(self, a, b):
        """T[a:b] (0 <= a <= b)."""
        if self.v.concrete:
            return self.T[a:b] if b > a else b''
        return Win(self, a, b)

    def fresh_win(self, ctx, base='w'):
        a = ctx.fresh_int(base + '_a')
        b = ctx.fresh_int(base + '_b')
        ctx.assume(And(0 <= a, a <= b))
        return Win(self, a, b)

    def first(self, x):
        """Index of the first occurrence of the delimiter in T at or after x (x >= 0), or -1."""
        if self.v.concrete:
            return self.T.find(self.delim, x)
        xt = z3.simplify(_i(x))
        key = xt.get_id()  # hash-consed term identity (the term is kept alive in the memo)
        if key in self.memo:
            return self.memo[key][1]
        ctx = self.v.ctx
        j = mk_int(self.F(_i(x)))
        ctx.assume(Or(j == -1, And(j >= x, j + self.dl <= self.lenT)))
        for y, jy in self.points:
            ctx.assume(Implies(And(x <= y, Or(j == -1, y <= j)), jy == j))
            ctx.assume(Implies(And(y <= x, Or(jy == -1, x <= jy)), j == jy))
        self.points.append((x, j))
        self.memo[key] = (xt, j)
        return j

    def is_delim_at(self, p, n):
        """T[p:p+n] == delimiter."""
        return And(n == self.dl, self.first(p) == p)


def mk_int(t):
    from pyvc.core import mk_int as _mk

    return _mk(t)


def _sym_false(c):
    """True iff the condition c cannot be excluded on this path (non-forking feasibility test)."""
    if isinstance(c, bool):
        return c
    ctx = cur()
    return ctx._safe_check(c.t) != z3.unsat


@stubclass
class Win:
    """The bytes value T[a:b]."""

    def __init__(self, w, a, b):
        self.w, self.a, self.b = w, a, b

    def __repr__(self):
        return '<Win %s:%s>' % (self.a, self.b)

    def __pyvc_len__(self):
        return self.b - self.a

    def __pyvc_truth__(self):
        return self.b > self.a

    def __pyvc_isinstance__(self, cls):
        return cls in (bytes, object) or (isinstance(cls, tuple) and bytes in cls)

    def __pyvc_getitem__(self, k):
        if not isinstance(k, slice) or k.step not in (None, 1):
            raise Unreached('indexing a single byte of a window')
        n = self.b - self.a

        def clamp(x, default):
            if x is None:
                return default
            return Ite(x < 0, Max(n + x, 0), Min(x, n))

        lo = clamp(k.start, 0)
        hi = Max(clamp(k.stop, n), lo)
        return Win(self.w, self.a + lo, self.a + hi)

    def _cat(self, x, y):
        """x ++ y for two windows: defined (as a window) only when y starts where x ends -- an obligation on the subject."""
        lx, ly = x.b - x.a, y.b - y.a
        self.w.v.check('bytes-are-joined-in-stream-order-without-gap-or-overlap', Or(lx == 0, ly == 0, x.b == y.a))
        a = Ite(lx == 0, y.a, x.a)
        b = Ite(ly == 0, Ite(lx == 0, y.b, x.b), y.b)
        return Win(self.w, a, b)

    def __pyvc_add__(self, o):
        if isinstance(o, Win):
            return self._cat(self, o)
        if isinstance(o, (bytes, bytearray)) and len(o) == 0:
            return self
        raise Unreached('window + %r' % (o,))

    def __pyvc_radd__(self, o):
        if isinstance(o, Win):
            return self._cat(o, self)
        if isinstance(o, (bytes, bytearray)) and len(o) == 0:
            return self
        raise Unreached('%r + window' % (o,))

    def find(self, sub, start=0):
        w = self.w
        if not (sub is w.delim or (isinstance(sub, bytes) and sub == w.delim_bytes)):
            raise Unreached('find of something that is not the delimiter of this harness')
        if _sym_false(Or(start < 0, w.dl < 1)):
            raise Unreached('find with a negative start or an empty delimiter')
        j = w.first(self.a + start)
        return Ite(And(j != -1, j + w.dl <= self.b), j - self.a, -1)

    def __pyvc_eq__(self, o):
        if isinstance(o, Delim) or (isinstance(o, bytes) and o and o == self.w.delim_bytes):
            return self.w.is_delim_at(self.a, self.b - self.a)
        if isinstance(o, (bytes, bytearray)) and len(o) == 0:
            return self.b == self.a
        raise Unreached('comparison of a window with %r' % (o,))

    def __pyvc_havoc__(self, ctx, base):
        return self.w.fresh_win(ctx, base)


@stubclass
class Delim:
    """The delimiter of the harness (symbolic mode): only its length and its occurrences in T matter."""

    def __init__(self, w):
        self.w = w

    def __pyvc_len__(self):
        return self.w.dl

    def __pyvc_truth__(self):
        return self.w.dl > 0

    def __pyvc_eq__(self, o):
        if isinstance(o, Win):
            return o.__pyvc_eq__(self)
        if isinstance(o, (bytes, bytearray)) and len(o) == 0:
            return self.w.dl == 0
        raise Unreached('comparison of the delimiter with %r' % (o,))


@stubclass
class WinList:
    """A list of windows of symbolic length, kept as a summary: length, concatenation, first element."""

    __pyvc_list_summary__ = True

    def __init__(self, n=0, joined=b'', first=b''):
        self.n, self.joined, self.first_ = n, joined, first

    @staticmethod
    def of(items):
        wl = WinList()
        for x in items:
            wl.append(x)
        return wl

    def append(self, x):
        w = _CURW[0]
        xw = x if isinstance(x, Win) else Win(w, 0, 0)
        if not isinstance(x, Win) and not (isinstance(x, (bytes, bytearray)) and len(x) == 0):
            raise Unreached('WinList.append of %r' % (x,))
        f = self.first_ if isinstance(self.first_, Win) else Win(w, 0, 0)
        e = self.n == 0
        self.first_ = Win(w, Ite(e, xw.a, f.a), Ite(e, xw.b, f.b))
        self.joined = cat(self.joined, x)
        self.n = self.n + 1

    def __pyvc_len__(self):
        return self.n

    def __pyvc_truth__(self):
        return self.n > 0

    def __pyvc_join__(self, interp, sep):
        if not (isinstance(sep, (bytes, bytearray)) and len(sep) == 0):
            raise Unreached('join of windows with a non-empty separator')
        return self.joined

    def __pyvc_getitem__(self, k):
        if isinstance(k, int) and k == 0:
            c = cur()
            if c.branch(z3.simplify(_i(self.n) == 0), label='index-oob'):
                c.raise_py(IndexError, 'list index out of range')
            return self.first_
        raise Unreached('WinList index other than 0')

    def __pyvc_havoc__(self, ctx, base):
        w = _CURW[0]
        n = ctx.fresh_int(base + '_n')
        j = w.fresh_win(ctx, base + '_joined')
        f = w.fresh_win(ctx, base + '_first')
        ctx.assume(n >= 0)
        ctx.assume(Implies(n == 0, j.b == j.a))
        ctx.assume(Implies(n == 1, Or(And(f.a == j.a, f.b == j.b), And(f.a == f.b, j.a == j.b))))
        ctx.assume(Implies(n >= 1, Or(f.a == f.b, And(f.a == j.a, f.b <= j.b))))
        return WinList(n, j, f)

    def __pyvc_iter__(self):
        raise Unreached('iteration over a list of symbolic length without an invariant')


def cat(x, y):
    """x ++ y over windows / plain bytes."""
    if isinstance(x, Win):
        return x.__pyvc_add__(y)
    if isinstance(y, Win):
        return y.__pyvc_radd__(x)
    return x + y


def WJoined(xs):
    if isinstance(xs, WinList):
        return xs.joined
    out = b''
    for x in xs:
        out = cat(out, x)
    return out


def bounds(x):
    """(a, b) of a bytes value of the window domain; the empty constant has no position."""
    if isinstance(x, Win):
        return x.a, x.b
    if isinstance(x, (bytes, bytearray)) and len(x) == 0:
        return 0, 0
    raise Unreached('not a window: %r' % (x,))


def is_window(w, x, a, n):
    """x == T[a : a+n]   (n <= 0: x is empty)."""
    if w.v.concrete:
        return x == (w.T[a : a + n] if n > 0 else b'')
    xa, xb = bounds(x)
    return Or(And(n <= 0, xb == xa), And(n > 0, xa == a, xb == a + n))


def _pattern(n, delim=None, at=-1):
    t = bytearray(1 + (i * 7) % 250 for i in range(max(n, 0)))
    if delim and 0 <= at and at + len(delim) <= n:
        t[at : at + len(delim)] = delim
    return bytes(t)


@stubclass
class WGhostBytesIO(GhostBytesIO):
    def seek(self, pos, whence=0):
        if whence != 0 or _sym_false(pos != Len(self.value)):
            raise Unreached('io.BytesIO.seek to a position other than the end of the accumulated value')
        return pos

    def write(self, data):
        self.value = cat(self.value, data)
        return Len(data)


@stubclass
class WSink:
    """A destination with write(): accumulates what was written (ghost)."""

    def __init__(self):
        self.written = b''
        self.writes = 0

    def write(self, data):
        self.written = cat(self.written, data)
        self.writes = self.writes + 1
        return Len(data)


@stubclass
class WReadFunc:
    """The source callable: a cursor over T[base : base+srclen]."""

    def __init__(self, v, w, srclen):
        self.v, self.w, self.srclen = v, w, srclen
        self.pos = 0
        self.reader = None
        self.calls = 0

    def __call__(self, n):
        v = self.v
        rem = v.get(self.reader, '_max_bytes_remaining')
        v.check('source-asked-for-a-positive-size-within-the-declared-remaining-length', And(n > 0, n <= rem))
        avail = self.srclen - self.pos
        k = v.int('k_read', 0)
        if v.concrete and (k == 0 or k > min(n, avail)):
            k = min(n, avail)
        v.assume(And(k <= n, k <= avail, Implies(k == 0, avail == 0)))
        base = self.w.base
        r = self.w.win(base + self.pos, base + self.pos + k)
        self.pos = self.pos + k
        self.calls += 1
        return r


def mkw(v, delim=None):
    """A sync reader in an arbitrary state satisfying the representation invariant (window domain).

    delim: None (no delimiter in this harness) | 'any' (symbolic delimiter of any length) | bytes (that literal)."""
    st = St()
    w = World(v)
    st.w = w
    st.bl0 = v.int('buf_len', 0)
    st.bp = v.int('bp', 0)
    v.assume(st.bp <= st.bl0)
    st.rem = v.int('rem', 0)
    st.cs = v.int('chunk_size', 1)
    st.srclen = v.int('src_len', 0)
    w.base = st.bl0
    w.lenT = st.bl0 + st.srclen
    st.a0 = st.bp
    st.nB = st.bl0 - st.bp
    st.nS = Min(st.rem, st.srclen)
    st.nV = st.nB + st.nS
    st.end = st.a0 + st.nV
    w.delim_bytes = None
    if delim is not None:
        if delim == 'any':
            w.dl = v.int('delim_len', 0)
        else:
            w.dl = len(delim)
            w.delim_bytes = delim
        j0 = v.int('first_occurrence', -1)
        if v.concrete:
            d = delim if delim != 'any' else bytes([255] + [254] * (w.dl - 1))[: max(w.dl, 0)]
            w.delim = d
            w.delim_bytes = d
            w.T = _pattern(w.lenT, d, j0)
        else:
            w.delim = Delim(w) if delim == 'any' else delim
            v.assume(Implies(w.dl >= 1, j0 == w.first(st.a0)))
        st.delim = w.delim
    elif v.concrete:
        w.T = _pattern(w.lenT)
    st.buf = w.win(0, st.bl0)
    st.rf = WReadFunc(v, w, st.srclen)
    st.s = v.obj(SR, _read_func=st.rf, _chunk_size=st.cs, _max_join_size=st.cs * v.real(SM + ':_MAX_JOIN_CHUNKS'), _buffer=st.buf,
                 _buffer_len=st.bl0, _buffer_pos=st.bp, _max_bytes_remaining=st.rem)
    st.rf.reader = st.s
    st.rf.st = st
    return st


def wcoupled_term(st, buf, bl, bp, rem, rf, c):
    """The reader is the flat cursor over V0 = T[a0 : a0+nV] at offset c: its look-ahead window is T[a0+c : a0+c+nB], the source
    cursor stands right behind it, the budget is what is left of the declared length (0 once the end of the source was seen).
    Hence V(state) = V0[c:]; the three conjuncts of the representation invariant are part of it."""
    w = st.w
    nB = bl - bp
    pos = rf.pos
    ints = And(0 <= bp, bp <= bl, rem >= 0, c >= 0, w.base + pos == st.a0 + c + nB, 0 <= pos, pos <= st.srclen, pos <= st.rem,
               Or(rem == st.rem - pos, And(rem == 0, pos == st.srclen)))
    if w.v.concrete:
        return bool(ints) and bl == len(buf) and (buf[bp:bl] == w.T[st.a0 + c : st.a0 + c + nB])
    ba, bb = bounds(buf)
    return And(ints, bl == bb - ba, Implies(bl > 0, ba + bp == st.a0 + c))  # (a consumed-but-kept buffer prefix still lies right before the cursor)


def wcoupled(v, st, c):
    return wcoupled_term(st, *fields(v, st.s), c)


def wcheck_inv(v, s):
    buf, bl, bp, rem, rf = fields(v, s)
    v.check('invariant-buffer-len-is-len-of-buffer', bl == Len(buf))
    v.check('invariant-buffer-pos-within-buffer', And(0 <= bp, bp <= bl))
    v.check('invariant-budget-nonnegative', rem >= 0)


def wpr_contract(I, self, size):
    """Callee contract of _perform_read (proved by `perform_read` / `w_perform_read`), exact and deterministic."""
    rf = self._fields['_read_func']
    rem = self._fields['_max_bytes_remaining']
    m = Max(0, Min(size, rem))
    r = Min(m, rf.srclen - rf.pos)
    base = rf.w.base
    out = rf.w.win(base + rf.pos, base + rf.pos + r)
    rf.pos = rf.pos + r
    self._fields['_max_bytes_remaining'] = Ite(r == m, rem - r, 0)
    return out


def _wbytesio(reg):
    import io

    reg.add_model(io.BytesIO, lambda I, *a: WGhostBytesIO(*a))


def _w(reg, ex):
    _wbytesio(reg)
    reg.stubs[SR + '._perform_read'] = wpr_contract


# --- _perform_read once more, over windows (cross-check of the string-level proof above; same contract) -------------


def _wpr_loop(reg, ex):
    _wbytesio(reg)

    def linv(L):
        s = L['self']
        rf = s._read_func
        got = rf.pos - rf.pos0
        return And(rf.pos0 <= rf.pos, rf.pos <= rf.srclen, is_window(rf.w, L['result'].value, rf.w.base + rf.pos0, got), got > 0,
                   s._max_bytes_remaining == rf.rem0 - got, L['size'] - L['chunk_len'] == rf.m - got, L['size'] - L['chunk_len'] >= 0)

    def havoc(ctx, L):
        L['result'].value = L['self']._read_func.w.fresh_win(ctx, 'hv_acc')
        L['self']._read_func.pos = ctx.fresh_int('hv_pos')

    reg.loops[(SR + '._perform_read', 'while#0')] = LoopSpec(inv=linv, havoc=havoc)


@harness(PROP, SR + '._perform_read', name='w_perform_read', setup=_wpr_loop)
def w_perform_read(v):
    st = mkw(v)
    s, rf, w = st.s, st.rf, st.w
    pos0 = v.int('pos0', 0)
    v.assume(pos0 <= st.srclen)
    rf.pos = pos0
    n = v.int('n')
    m = Max(0, Min(n, st.rem))
    r = Min(m, st.srclen - pos0)
    rf.pos0, rf.rem0, rf.m = pos0, st.rem, m
    out = v.call(s, n)
    v.check('no-exception', out.exc is None)
    if out.exc is not None:
        return
    buf, bl, bp, rem, _ = fields(v, s)
    v.check('returns-the-next-source-bytes-min-of-size-and-budget-short-only-at-end-of-source', is_window(w, out.value, w.base + pos0, r))
    v.check('source-cursor-advances-by-exactly-the-returned-bytes', rf.pos == pos0 + r)
    v.check('budget-deducts-the-returned-bytes-and-drops-to-zero-at-end-of-source', rem == Ite(r == m, st.rem - r, 0))
    v.check('buffer-untouched', And(buf is st.buf, bl == st.bl0, bp == st.bp))
    wcheck_inv(v, s)
    if rf.calls >= 2:
        v.cover('loops-on-a-short-read')


# --- flat-cursor contracts over windows: _fill_buffer / peek / _read / read ---------------------------------------------


def _ret_ok(v, out):
    v.check('no-exception', out.exc is None)
    return out.exc is None


@harness(PROP, SR + '._fill_buffer', name='w_fill_buffer', setup=_w)
def w_fill_buffer(v):
    st = mkw(v)
    out = v.call(st.s)
    if not _ret_ok(v, out):
        return
    buf, bl, bp, rem, rf = fields(v, st.s)
    wcheck_inv(v, st.s)
    v.check('view-unchanged', wcoupled(v, st, 0))
    v.check('buffered-at-least-a-chunk-or-all-of-the-view', bl - bp == Ite(st.nB >= st.cs, st.nB, Min(st.cs, st.nV)))
    if st.nB < st.cs:
        v.cover('refills')


@harness(PROP, SR + '.peek', name='w_peek', setup=_w, inline=[SR + '._fill_buffer'])
def w_peek(v):
    st = mkw(v)
    given = v.choose(2, 'size-given?')
    size = v.int('size') if given else -1
    out = v.call(st.s, size) if given else v.call(st.s)
    if not _ret_ok(v, out):
        return
    n = peek_size(size, st.cs)
    wcheck_inv(v, st.s)
    v.check('returns-the-next-bytes-of-the-view-up-to-the-clamped-size', is_window(st.w, out.value, st.a0, Min(n, st.nV)))
    v.check('view-unchanged', wcoupled(v, st, 0))
    v.check('returned-bytes-are-buffered', v.get(st.s, '_buffer_len') - v.get(st.s, '_buffer_pos') >= Len(out.value))
    v.cover('returns')


def wpost_read(v, st, out, k):
    """Flat cursor: returned V0[:k] (all of V0 when shorter), left the rest."""
    if not _ret_ok(v, out):
        return False
    n = Min(k, st.nV)
    wcheck_inv(v, st.s)
    v.check('returns-the-next-bytes-of-the-view', is_window(st.w, out.value, st.a0, n))
    v.check('view-advances-by-exactly-the-returned-bytes', wcoupled(v, st, n))
    return True


@harness(PROP, SR + '._read', name='w__read', setup=_w)
def w__read(v):
    st = mkw(v)
    k = v.int('size', 0)  # _read_until calls it with sizes beyond the normalized bound, so: any size >= 0
    out = v.call(st.s, k)
    if wpost_read(v, st, out, k):
        if st.nB >= k:
            v.cover('from-buffer')
        elif st.nB == 0:
            if k >= st.cs:
                v.cover('pass-through')
        elif k - st.nB >= st.cs:
            v.cover('buffer-plus-large-read')
        else:
            v.cover('buffer-plus-refill')


def wnorm_size(size, st):
    mx = st.rem + st.nB
    if size is None:
        return mx
    return Ite(Or(size == -1, size > mx), mx, size)


@harness(PROP, SR + '.read', name='w_read', setup=lambda reg, ex: _w2(reg, ex), inline=[SR + '._normalize_size'])
def w_read(v):
    st = mkw(v)
    size, kind = size_arg(v)
    omitted = kind == 0 and v.choose(2, 'size-omitted?')
    out = v.call(st.s) if omitted else v.call(st.s, size)
    if wpost_read(v, st, out, wnorm_size(size, st)):
        if kind != 1:
            v.check('unsized-read-returns-the-whole-view', And(is_window(st.w, out.value, st.a0, st.nV), wcoupled(v, st, st.nV)))
        else:
            v.check('sized-read-bounded', Len(out.value) <= size)
        v.cover('returns')


# --- _read_until with _finalize_read_until, _read, peek, _fill_buffer inlined ----------------------------------------------

RU_INLINE = [SR + '._finalize_read_until', SR + '._read', SR + '.peek', SR + '._fill_buffer', SR + '._normalize_size']


def _ru_loop(reg, ex):
    _w2(reg, ex)

    def linv(L):
        s = L['self']
        rf = s._read_func
        st = rf.st
        J = WJoined(L['result'])
        have = L['have_bytes']
        return And(
            have == Len(J),
            is_window(st.w, J, st.a0, have),  # the backlog is what was taken so far, in order ...
            wcoupled_term(st, s._buffer, s._buffer_len, s._buffer_pos, s._max_bytes_remaining, rf, have),  # ... the reader stands right behind it
            have <= L['size'],
            none_before(st, have),  # ... and no occurrence of the delimiter (lying wholly inside the view) starts inside the backlog
        )

    reg.loops[(SR + '._read_until', 'while#0')] = LoopSpec(inv=linv, lists={'result': WinList.of})


def none_before(st, c):
    """No occurrence of the delimiter that lies wholly inside the view V0 starts before offset c."""
    j0 = st.j0
    return Or(j0 == -1, j0 + st.w.dl > st.end, j0 >= st.a0 + c)


def until_spec(st, x, size):
    """Flat cursor at T-index x: stop at the first delimiter occurrence lying wholly inside the view, at `size`, or at the end."""
    w = st.w
    j = w.first(x)
    found = And(j != -1, j + w.dl <= st.end)
    return found, j, Ite(found, Min(size, j - x), Min(size, st.end - x))


def delim_at(st, p):
    """The view continues with the delimiter at T-index p."""
    return And(st.w.first(p) == p, p + st.w.dl <= st.end)


def wpost_until(v, st, out, size, consume):
    s, w = st.s, st.w
    dl = w.dl
    DelimiterError = v.real('falcon.errors:DelimiterError')
    bad = Or(dl < 1, dl > st.cs)
    v.check('delimiter-length-outside-1..chunk_size-raises-valueerror', Iff(out.exc is not None and out.exc.isa(ValueError), bad))
    if out.exc is not None and out.exc.isa(ValueError):
        v.check('valueerror-consumes-nothing', And(wcoupled(v, st, 0), st.rf.pos == 0))
        v.cover('bad-delimiter')
        return None
    found, j, tgt = until_spec(st, st.a0, size)
    if out.exc is not None:
        v.check('only-delimiter-error-escapes', And(out.exc.isa(DelimiterError), bool(consume)))
        wcheck_inv(v, s)
        v.check('delimiter-error-only-if-the-bytes-after-the-result-are-not-the-delimiter', Not(delim_at(st, st.a0 + tgt)))
        v.cover('delimiter-error')
        return None
    ret = out.value
    n = Len(ret)
    c = dl if consume else 0
    wcheck_inv(v, s)
    v.check('returns-the-next-bytes-of-the-view', is_window(w, ret, st.a0, n))
    v.check('never-more-than-size', n <= size)
    v.check('stops-at-the-first-delimiter-or-size-or-end', n == tgt)
    v.check('returned-bytes-contain-no-delimiter', Or(j == -1, j + dl > st.a0 + n))
    if consume:
        v.check('consumed-bytes-are-the-delimiter', delim_at(st, st.a0 + n))
    v.check('view-advances-by-the-returned-bytes-plus-the-consumed-delimiter', wcoupled(v, st, n + c))
    v.cover('returns')
    if found:
        if n < size:
            v.cover('stops-at-delimiter')
    return n


def w__read_until(v):
    st = mkw(v, delim='any')
    size = v.int('size', 0)  # any size >= 0: pipe_until passes min(chunk_size, remaining), which may exceed what is left
    consume = bool(v.choose(2, 'consume_delimiter'))
    st.j0 = st.w.first(st.a0) if not v.concrete else None
    out = v.call(st.s, st.delim, size, consume)
    wpost_until(v, st, out, size, consume)


for _c in (0, 1):
    harness(PROP, SR + '._read_until', name='w__read_until[consume=%d]' % _c, setup=_ru_loop, inline=RU_INLINE, fix={'consume_delimiter': _c})(w__read_until)


# --- callee contracts (each proved by the harness named in its docstring), used at call sites of the composite operations ---


def offset(st, s_fields):
    """The flat-cursor offset c of a coupled state (solves  base + pos == a0 + c + nB  for c)."""
    buf, bl, bp, rem, rf = s_fields
    return st.w.base + rf.pos - (bl - bp) - st.a0


def obj_fields(o):
    f = o._fields
    return f['_buffer'], f['_buffer_len'], f['_buffer_pos'], f['_max_bytes_remaining'], f['_read_func']


def havoc_state(ctx, st, o):
    """Any representation whatsoever (the caller then assumes what the callee contract says about it)."""
    buf = st.w.fresh_win(ctx, 'st_buffer')
    o._fields['_buffer'] = buf
    o._fields['_buffer_len'] = buf.b - buf.a
    o._fields['_buffer_pos'] = ctx.fresh_int('st_buffer_pos')
    o._fields['_max_bytes_remaining'] = ctx.fresh_int('st_rem')
    o._fields['_read_func'].pos = ctx.fresh_int('st_pos')


def move_to(ctx, st, o, c):
    """Post-state of a flat-cursor contract: some representation of the cursor at offset c."""
    havoc_state(ctx, st, o)
    ctx.assume(wcoupled_term(st, *obj_fields(o), c))


def _norm(o, size):
    buf, bl, bp, rem, rf = obj_fields(o)
    mx = rem + bl - bp
    if size is None:
        return mx
    return Ite(Or(size == -1, size > mx), mx, size)


def c_read(I, self, size=-1):
    """BufferedReader.read (harness w_read): returns V[:k], leaves V[k:]."""
    st = self._fields['_read_func'].st
    c = offset(st, obj_fields(self))
    n = Min(_norm(self, size), st.nV - c)
    move_to(I.ctx, st, self, c + n)
    return st.w.win(st.a0 + c, st.a0 + c + n)


def c_peek(I, self, size=-1):
    """BufferedReader.peek (harness w_peek): returns V[:n'] with n' = size clamped to 0..chunk_size, V unchanged, the returned bytes are buffered."""
    st = self._fields['_read_func'].st
    c = offset(st, obj_fields(self))
    n = Min(peek_size(size, self._fields['_chunk_size']), st.nV - c)
    move_to(I.ctx, st, self, c)
    I.ctx.assume(self._fields['_buffer_len'] - self._fields['_buffer_pos'] >= n)
    return st.w.win(st.a0 + c, st.a0 + c + n)


def c__read_until(I, self, delimiter, size, consume_delimiter):
    """BufferedReader._read_until (harnesses w__read_until[consume=0/1])."""
    st = self._fields['_read_func'].st
    w = st.w
    ctx = I.ctx
    ctx.check(SR + '._read_until#pre:size-nonnegative', size >= 0)
    if not (delimiter is w.delim):
        raise Unreached('_read_until with a delimiter other than the one of this harness')
    if ctx.branch(_b(Or(w.dl < 1, w.dl > self._fields['_chunk_size'])), label='bad-delimiter'):
        ctx.raise_py(ValueError, 'delimiter length must be within [1, chunk_size]')
    c = offset(st, obj_fields(self))
    x = st.a0 + c
    found, j, tgt = until_spec(st, x, size)
    ret = w.win(x, x + tgt)
    if consume_delimiter:
        if ctx.branch(_b(delim_at(st, x + tgt)), label='delimiter-follows'):
            move_to(ctx, st, self, c + tgt + w.dl)
        else:
            move_to(ctx, st, self, c + tgt)
            ctx.raise_py(I.load_name('DelimiterError', _frame_of(SM)), 'expected delimiter missing')
    else:
        move_to(ctx, st, self, c + tgt)
    return ret


def c_read_until(I, self, delimiter, size=-1, consume_delimiter=False):
    """BufferedReader.read_until (harness w_read_until): _read_until on the normalized size."""
    return c__read_until(I, self, delimiter, _norm(self, size), consume_delimiter)


def _b(x):
    from pyvc.core import _b as b

    return z3.simplify(b(x))


def _frame_of(modname):
    import importlib

    from pyvc.interp import Frame

    return Frame(None, importlib.import_module(modname), None)


def _read_assuming_its_contract(I, self, size):
    """_read executed from its source; at its return the callers rely on _read's own post-condition (harness w__read),
    in particular on the clause `invariant-buffer-pos-within-buffer` -- a violation is reported once, at _read."""
    c = I.closure_for(SM, 'BufferedReader._read', self._cls)
    r = I.invoke(c, [self, size], {})
    f = self._fields
    I.ctx.assume(And(0 <= f['_buffer_pos'], f['_buffer_pos'] <= f['_buffer_len']))
    return r


def _w2(reg, ex):
    _w(reg, ex)
    reg.stubs[SR + '._read'] = _read_assuming_its_contract


# --- pipe / exhaust ---------------------------------------------------------------------------------------------------------


def _pipe_loop(reg, ex):
    _w2(reg, ex)

    def linv(L):
        s = L['self']
        rf = s._read_func
        st = rf.st
        fs = obj_fields(s)
        c = offset(st, fs)
        d = L['destination']
        return And(wcoupled_term(st, *fs, c), c <= st.nV, True if d is None else is_window(st.w, d.written, st.a0, c))

    def havoc(ctx, L):
        s = L['self']
        havoc_state(ctx, s._read_func.st, s)
        if L['destination'] is not None:
            L['destination'].written = s._read_func.st.w.fresh_win(ctx, 'hv_written')

    reg.loops[(SR + '.pipe', 'while#0')] = LoopSpec(inv=linv, havoc=havoc)


PIPE_INLINE = [SR + '.read', SR + '._normalize_size']


def _w_pipe(v):
    st = mkw(v)
    has_dest = v.choose(2, 'destination?')
    dest = WSink() if has_dest and not v.concrete else (_RealSink() if has_dest else None)
    via_exhaust = v.hdef.target.endswith('.exhaust')
    out = v.call(st.s) if via_exhaust else (v.call(st.s, dest) if has_dest else v.call(st.s))
    if not _ret_ok(v, out):
        return
    wcheck_inv(v, st.s)
    v.check('leaves-the-view-empty', wcoupled(v, st, st.nV))
    if has_dest and not via_exhaust:
        v.check('destination-received-exactly-the-view-in-order', is_window(st.w, dest.written, st.a0, st.nV))
    v.cover('returns')


class _RealSink:
    def __init__(self):
        self.written = b''

    def write(self, data):
        self.written += data
        return len(data)


harness(PROP, SR + '.pipe', name='w_pipe', setup=_pipe_loop, inline=PIPE_INLINE)(_w_pipe)
harness(PROP, SR + '.exhaust', name='w_exhaust', setup=_pipe_loop, inline=PIPE_INLINE + [SR + '.pipe'], fix={'destination?': 0})(_w_pipe)


# --- read_until (public): normalisation + _read_until; sizes beyond the join limit go through pipe_until ----------------------------


def c_pipe_until(I, self, delimiter, destination=None, consume_delimiter=False, _size=None):
    """BufferedReader.pipe_until (harness w_pipe_until)."""
    st = self._fields['_read_func'].st
    w = st.w
    ctx = I.ctx
    if not (delimiter is w.delim):
        raise Unreached('pipe_until with a delimiter other than the one of this harness')
    ctx.check(SR + '.pipe_until#pre:delimiter-length-within-1..chunk_size', And(w.dl >= 1, w.dl <= self._fields['_chunk_size']))
    c = offset(st, obj_fields(self))
    x = st.a0 + c
    found, j, tgt = until_spec(st, x, _norm(self, _size))
    if destination is not None:
        I.call(I.getattr(destination, 'write'), [w.win(x, x + tgt)], {})
    if consume_delimiter:
        if ctx.branch(_b(delim_at(st, x + tgt)), label='delimiter-follows'):
            move_to(ctx, st, self, c + tgt + w.dl)
        else:
            move_to(ctx, st, self, c + tgt)
            ctx.raise_py(I.load_name('DelimiterError', _frame_of(SM)), 'expected delimiter missing')
    else:
        move_to(ctx, st, self, c + tgt)
    return None


def _read_until_setup(reg, ex):
    _w2(reg, ex)
    reg.stubs[SR + '._read_until'] = c__read_until
    reg.stubs[SR + '.pipe_until'] = c_pipe_until


@harness(PROP, SR + '.read_until', name='w_read_until', setup=_read_until_setup, inline=[SR + '._normalize_size'])
def w_read_until(v):
    st = mkw(v, delim='any')
    v.assume(And(st.w.dl >= 1, st.w.dl <= st.cs))  # (the ValueError for other lengths is _read_until's, proved there)
    size, kind = size_arg(v, allow_none=False)
    consume = bool(v.choose(2, 'consume_delimiter'))
    shape = v.choose(3, 'call-shape') if kind == 0 else 2
    if shape == 0:
        if consume:
            v.cut()
        out = v.call(st.s, st.delim)
    elif shape == 1:
        out = v.call(st.s, st.delim, consume_delimiter=consume)
    else:
        out = v.call(st.s, st.delim, size, consume)
    k = wnorm_size(size, st)
    n = wpost_until(v, st, out, k, consume)
    if n is not None:
        if kind == 1:
            v.check('sized-read-until-bounded', n <= size)
        # what makes read_until usable as the source callable of a delimited sub-reader (delimit):
        v.check('empty-result-only-at-the-delimiter-or-at-the-end-of-the-view', Implies(And(n == 0, k > 0), Or(delim_at(st, st.a0), st.nV == 0)))
        if k > st.cs * v.real(SM + ':_MAX_JOIN_CHUNKS'):
            v.cover('beyond-the-join-limit')


# --- pipe_until ----------------------------------------------------------------------------------------------------------------------


def stopped(st, c):
    """Nothing more can be taken before the delimiter: the cursor stands at a delimiter occurrence or at the end of the view."""
    return Or(delim_at(st, st.a0 + c), c == st.nV)


def _pipe_until_loop(reg, ex):
    _w2(reg, ex)
    reg.stubs[SR + '._read_until'] = c__read_until
    reg.stubs[SR + '.peek'] = c_peek

    def linv(L):
        s = L['self']
        rf = s._read_func
        st = rf.st
        fs = obj_fields(s)
        c = offset(st, fs)
        d = L['destination']
        asked = st.R0 - L['remaining']  # a whole number of chunks
        return And(
            wcoupled_term(st, *fs, c), c <= st.nV,
            True if d is None else is_window(st.w, d.written, st.a0, c),
            none_before(st, c),  # no delimiter occurrence (lying wholly inside the view) starts in what was piped
            asked >= 0, c <= Min(asked, st.R0), Or(c == Min(asked, st.R0), stopped(st, c)),
        )

    def havoc(ctx, L):
        s = L['self']
        havoc_state(ctx, s._read_func.st, s)
        if L['destination'] is not None:
            L['destination'].written = s._read_func.st.w.fresh_win(ctx, 'hv_written')

    reg.loops[(SR + '.pipe_until', 'while#0')] = LoopSpec(inv=linv, havoc=havoc)


def w_pipe_until(v):
    st = mkw(v, delim='any')
    v.assume(And(st.w.dl >= 1, st.w.dl <= st.cs))
    has_dest = v.choose(2, 'destination?')
    dest = (WSink() if not v.concrete else _RealSink()) if has_dest else None
    consume = bool(v.choose(2, 'consume_delimiter'))
    capped = v.choose(2, '_size-given?')  # the private cap used by read_until beyond the join limit
    size = v.int('_size', 0) if capped else None
    st.R0 = wnorm_size(size, st)
    st.j0 = st.w.first(st.a0) if not v.concrete else None
    out = v.call(st.s, st.delim, dest, consume, size) if capped else v.call(st.s, st.delim, dest, consume)
    DelimiterError = v.real('falcon.errors:DelimiterError')
    found, j, tgt = until_spec(st, st.a0, st.R0)
    if out.exc is not None:
        v.check('only-delimiter-error-escapes', And(out.exc.isa(DelimiterError), consume))
        wcheck_inv(v, st.s)
        v.check('delimiter-error-only-if-the-bytes-after-the-piped-ones-are-not-the-delimiter', Not(delim_at(st, st.a0 + tgt)))
        if has_dest:
            v.check('destination-received-the-view-up-to-the-first-delimiter', is_window(st.w, dest.written, st.a0, tgt))
        v.cover('delimiter-error')
        return
    c = st.w.dl if consume else 0
    wcheck_inv(v, st.s)
    if has_dest:
        v.check('destination-received-the-view-up-to-the-first-delimiter', is_window(st.w, dest.written, st.a0, tgt))
    if consume:
        v.check('consumed-bytes-are-the-delimiter', delim_at(st, st.a0 + tgt))
    v.check('view-advances-by-the-piped-bytes-plus-the-consumed-delimiter', wcoupled(v, st, tgt + c))
    if not capped:
        v.check('uncapped-pipe-stops-exactly-at-the-first-delimiter-or-the-end', tgt == Ite(found, j - st.a0, st.nV))
    v.cover('returns')


for _c in (0, 1):
    harness(PROP, SR + '.pipe_until', name='w_pipe_until[consume=%d]' % _c, setup=_pipe_until_loop, inline=[SR + '._normalize_size'],
            fix={'consume_delimiter': _c})(w_pipe_until)


# --- readline / readlines ---------------------------------------------------------------------------------------------------------------


def line_spec(st, x, size):
    """Flat cursor at T-index x: a line ends behind the first b'\\n', at `size`, or at the end."""
    w = st.w
    j = w.first(x)
    found = And(j != -1, j + 1 <= st.end)
    return Ite(found, Min(size, j + 1 - x), Min(size, st.end - x))


def _readline_setup(reg, ex):
    _w2(reg, ex)
    reg.stubs[SR + '.read_until'] = c_read_until
    reg.stubs[SR + '.read'] = c_read


@harness(PROP, SR + '.readline', name='w_readline', setup=_readline_setup, inline=[SR + '._normalize_size'])
def w_readline(v):
    st = mkw(v, delim=b'\n')
    size, kind = size_arg(v, allow_none=False)
    omitted = kind == 0 and v.choose(2, 'size-omitted?')
    out = v.call(st.s) if omitted else v.call(st.s, size)
    if not _ret_ok(v, out):
        return
    n = line_spec(st, st.a0, wnorm_size(size, st))
    wcheck_inv(v, st.s)
    v.check('returns-the-next-line-including-its-newline-or-size-bytes-or-the-rest', is_window(st.w, out.value, st.a0, n))
    v.check('view-advances-by-exactly-the-returned-bytes', wcoupled(v, st, n))
    if kind == 1:
        v.check('sized-readline-bounded', Len(out.value) <= size)
    v.check('empty-line-only-at-the-end-of-the-view-or-for-size-zero', Implies(n == 0, Or(st.nV == 0, size == 0)))
    v.cover('returns')


def c_readline(I, self, size=-1):
    """BufferedReader.readline (harness w_readline)."""
    st = self._fields['_read_func'].st
    c = offset(st, obj_fields(self))
    n = line_spec(st, st.a0 + c, _norm(self, size))
    move_to(I.ctx, st, self, c + n)
    return st.w.win(st.a0 + c, st.a0 + c + n)


def _readlines_loop(reg, ex):
    _w2(reg, ex)
    reg.stubs[SR + '.readline'] = c_readline

    def linv(L):
        s = L['self']
        st = s._read_func.st
        fs = obj_fields(s)
        c = offset(st, fs)
        lines = L['result']
        hint = L['hint']
        return And(wcoupled_term(st, *fs, c), c <= st.nV, is_window(st.w, WJoined(lines), st.a0, c),
                   Implies(hint >= 0, And(L['read'] == c, Or(c < hint, Len(lines) == 0))), Implies(Len(lines) == 0, c == 0))

    def havoc(ctx, L):
        s = L['self']
        havoc_state(ctx, s._read_func.st, s)

    reg.loops[(SR + '.readlines', 'while#0')] = LoopSpec(inv=linv, havoc=havoc, lists={'result': WinList.of})


@harness(PROP, SR + '.readlines', name='w_readlines', setup=_readlines_loop)
def w_readlines(v):
    st = mkw(v, delim=b'\n')
    given = v.choose(2, 'hint-given?')
    hint = v.int('hint') if given else -1
    out = v.call(st.s, hint) if given else v.call(st.s)
    if not _ret_ok(v, out):
        return
    lines = out.value
    total = Len(WJoined(lines)) if not v.concrete else sum(len(x) for x in lines)
    joined = WJoined(lines) if not v.concrete else b''.join(lines)
    wcheck_inv(v, st.s)
    v.check('lines-concatenate-to-the-next-bytes-of-the-view', is_window(st.w, joined, st.a0, total))
    v.check('view-advances-by-exactly-the-returned-lines', wcoupled(v, st, total))
    v.check('without-a-hint-everything-is-read', Implies(hint < 0, total == st.nV))
    v.check('with-a-hint-reading-stops-once-it-is-reached-or-at-the-end', Implies(hint >= 0, Or(total >= hint, total == st.nV)))
    v.cover('returns')


# --- delimit -------------------------------------------------------------------------------------------------------------------------------


@stubclass
class Partial:
    """functools.partial(func, *args)."""

    def __init__(self, func, args, kwargs):
        self.func, self.args, self.keywords = func, args, kwargs


def _delimit_setup(reg, ex):
    import functools

    _w2(reg, ex)
    reg.add_model(functools.partial, lambda I, f, *a, **k: Partial(f, a, k))


@harness(PROP, SR + '.delimit', name='w_delimit', setup=_delimit_setup, inline=[SR + '._normalize_size', SR + '.__init__'])
def w_delimit(v):
    st = mkw(v, delim='any')
    out = v.call(st.s, st.delim)
    if not _ret_ok(v, out):
        return
    child = out.value
    v.check('parent-untouched', And(wcoupled(v, st, 0), st.rf.pos == 0, st.rf.calls == 0))
    if v.concrete:
        src_ok = child._read_func.func == st.s.read_until and child._read_func.args == (st.delim,) and not child._read_func.keywords
        is_reader = type(child) is type(st.s)
    else:
        rfc = v.get(child, '_read_func')
        src_ok = isinstance(rfc, Partial) and rfc.func.func.qualname == 'BufferedReader.read_until' and rfc.func.self_obj is st.s \
            and len(rfc.args) == 1 and rfc.args[0] is st.delim and not rfc.keywords
        is_reader = child._cls is st.s._cls
    v.check('sub-reader-is-a-buffered-reader-whose-source-is-read_until-of-the-parent-with-this-delimiter', is_reader and src_ok)
    g = lambda n: v.get(child, n)
    v.check('sub-reader-starts-empty-with-the-parent-chunk-size', And(Len(g('_buffer')) == 0, g('_buffer_len') == 0, g('_buffer_pos') == 0, g('_chunk_size') == st.cs))
    v.check('sub-reader-budget-covers-the-whole-parent-view', And(g('_max_bytes_remaining') >= st.nV, g('_max_bytes_remaining') >= 0))


# ===========================================================================
# PART C -- the async reader (falcon/asgi/reader.py), window domain.
#
# T = initial buffer content ++ everything the (normalised) source `_source` will still deliver.
# V(self) = _buffer[_buffer_pos:_buffer_len] ++ (undelivered rest of the source);  tell() = _consumed - buffered = bytes handed out.
# Source contract (established by _iter_normalized, harness a_iter_normalized): non-empty chunks, every chunk but the last at
# least chunk_size long; each delivered chunk adds its length to _consumed; _exhausted is set when the iterator finishes.


@stubclass
class ASource:
    """self._source as its consumers see it: an async iterator that can be resumed across operations."""

    def __init__(self, v, w, srclen, cs, n_left):
        self.v, self.w, self.srclen, self.cs = v, w, srclen, cs
        self.spos = 0
        self.n_left = n_left
        self.done = False
        self.ended_now = False
        self.reader = None
        self.fetched = 0

    def _item(self, i, n):
        """The i-th of the n chunks that were still to come when the loop started."""
        v = self.v
        rest = self.srclen - self.spos
        k = v.int('chunk_len', 1)
        if v.concrete:
            k = rest if i == n - 1 else max(self.cs, min(k, rest - 1))
        v.assume(And(k <= rest, Implies(i < n - 1, And(k >= self.cs, k < rest)), Implies(i == n - 1, k == rest)))
        base = self.w.base
        r = self.w.win(base + self.spos, base + self.spos + k)
        self.spos = self.spos + k
        self.n_left = n - i - 1
        self.fetched += 1
        rd = self.reader
        v.set(rd, '_consumed', v.get(rd, '_consumed') + k)
        return r

    def __pyvc_seq__(self):
        from pyvc.core import FnSeq

        n = self.n_left
        self.n_at_loop = n  # (invariants speak about "the n chunks still to come when this loop started")
        self.exh_at_loop = self.v.get(self.reader, '_exhausted')
        g = lambda f: self.v.get(self.reader, f)
        self.c_at_loop = self.w.base + self.spos - (g('_buffer_len') - g('_buffer_pos')) - self.st.a0  # cursor offset when the loop starts
        return FnSeq(n, lambda i: self._item(i, n))

    def __pyvc_for_end__(self):
        self.n_left = 0
        self.done = True
        self.ended_now = True
        self.v.set(self.reader, '_exhausted', True)

    def __pyvc_iter__(self):
        n = self.n_left
        if not isinstance(n, int):
            raise Unreached('iteration over the source without a loop invariant')
        for i in range(n):
            yield self._item(i, n)
        self.__pyvc_for_end__()

    async def agen(self):
        """Concrete replay: the real async iterator."""
        n = self.n_left
        for i in range(n):
            yield self._item(i, n)
        self.__pyvc_for_end__()


def mka(v, delim=None, tail=False):
    """An async reader in an arbitrary state satisfying the representation invariant."""
    st = St()
    w = World(v)
    st.w = w
    st.bl0 = v.int('buf_len', 0)
    st.bp = v.int('bp', 0)
    v.assume(st.bp <= st.bl0)
    st.cs = v.int('chunk_size', 1)
    st.srclen = v.int('src_len', 0)
    st.cons0 = v.int('consumed', 0)
    st.exh0 = v.bool('exhausted')
    n_left = v.choose(2, 'chunks-left') if tail else v.int('chunks_left', 0)
    v.assume(Iff(n_left == 0, st.srclen == 0))
    v.assume(Implies(st.exh0, n_left == 0))
    v.assume(st.cons0 >= st.bl0 - st.bp)  # tell() >= 0
    w.base = st.bl0
    w.lenT = st.bl0 + st.srclen
    st.a0 = st.bp
    st.nB = st.bl0 - st.bp
    st.nV = st.nB + st.srclen
    st.end = st.a0 + st.nV
    st.tell0 = st.cons0 - st.nB
    w.delim_bytes = None
    if delim is not None:
        w.dl = v.int('delim_len', 0)
        j0 = v.int('first_occurrence', -1)
        if v.concrete:
            d = bytes([255] + [254] * (w.dl - 1))[: max(w.dl, 0)]
            w.delim = w.delim_bytes = d
            w.T = _pattern(w.lenT, d, j0)
        else:
            w.delim = Delim(w)
            v.assume(Implies(w.dl >= 1, j0 == w.first(st.a0)))
            st.j0 = j0
        st.delim = w.delim
    elif v.concrete:
        w.T = _pattern(w.lenT)
    st.buf = w.win(0, st.bl0)
    st.src = ASource(v, w, st.srclen, st.cs, n_left)
    st.s = v.obj(AR, _buffer=st.buf, _buffer_len=st.bl0, _buffer_pos=st.bp, _chunk_size=st.cs, _consumed=st.cons0, _exhausted=st.exh0,
                 _iteration_started=False, _max_join_size=st.cs * v.real(AM + ':_MAX_JOIN_CHUNKS'), _source=st.src if not v.concrete else None)
    st.src.reader = st.s
    st.src.st = st
    if v.concrete:
        v.set(st.s, '_source', st.src.agen())
    return st


def acoupled_term(st, buf, bl, bp, consumed, exhausted, c):
    """The async reader is the flat cursor over V0 at offset c (c < 0: bytes were pushed back in front of V0)."""
    w, src = st.w, st.src
    nB = bl - bp
    ints = And(0 <= bp, bp <= bl, w.base + src.spos == st.a0 + c + nB, 0 <= src.spos, src.spos <= st.srclen,
               consumed == st.cons0 + src.spos, Implies(exhausted, src.spos == st.srclen))
    if w.v.concrete:
        return bool(ints) and bl == len(buf) and buf[bp:bl] == w.T[st.a0 + c : st.a0 + c + nB]
    ba, bb = bounds(buf)
    # (a fully consumed buffer may stay behind while chunks are passed through; it is trimmed before it is ever extended)
    return And(ints, bl == bb - ba, Implies(nB > 0, ba + bp == st.a0 + c))


def afields(v, s):
    g = lambda n: v.get(s, n)
    return g('_buffer'), g('_buffer_len'), g('_buffer_pos'), g('_consumed'), g('_exhausted')


def acoupled(v, st, c):
    return acoupled_term(st, *afields(v, st.s), c)


def aobj_fields(o):
    f = o._fields
    return f['_buffer'], f['_buffer_len'], f['_buffer_pos'], f['_consumed'], f['_exhausted']


def acheck_inv(v, s):
    buf, bl, bp, consumed, exhausted = afields(v, s)
    v.check('invariant-buffer-len-is-len-of-buffer', bl == Len(buf))
    v.check('invariant-buffer-pos-within-buffer', And(0 <= bp, bp <= bl))


def a_tell(v, st):
    buf, bl, bp, consumed, exhausted = afields(v, st.s)
    return consumed - (bl - bp)


def acheck_cursor(v, st, c, clause='view-advances-by-exactly-the-returned-bytes'):
    """Invariant, view, position and end-of-stream indicator agree with the flat cursor at offset c."""
    acheck_inv(v, st.s)
    v.check(clause, acoupled(v, st, c))
    v.check('tell-matches-the-cursor', a_tell(v, st) == st.tell0 + c)
    buf, bl, bp, consumed, exhausted = afields(v, st.s)
    v.check('eof-only-at-the-end-of-the-view', Implies(And(exhausted, bl == bp), c == st.nV))


def _aloop_havoc(ctx, L):
    s = L['self']
    s._consumed = ctx.fresh_int('hv_consumed')
    s._source.spos = ctx.fresh_int('hv_spos')


# --- the non-generator methods --------------------------------------------------------------------------------------------


@harness(PROP, AR + '.__init__', name='a_init')
def a_init(v):
    @stubclass
    class Gen:
        pass

    token = Gen()
    kind = v.choose(3, 'chunk_size-kind')
    cs = [None, 0, None][kind] if kind < 2 else v.int('chunk_size', 1)
    s = v.obj(AR)
    if v.concrete:
        return
    v.registry.stubs[AR + '._iter_normalized'] = lambda I, self, source: token
    source = Gen()
    out = v.call(s, source) if kind == 0 else v.call(s, source, cs)
    if not _ret_ok(v, out):
        return
    g = lambda n: v.get(s, n)
    default = v.real(AM + ':DEFAULT_CHUNK_SIZE')
    v.check('starts-with-an-empty-buffer-at-position-zero', And(Len(g('_buffer')) == 0, g('_buffer_len') == 0, g('_buffer_pos') == 0, g('_consumed') == 0))
    v.check('not-exhausted-not-iterating', And(Not(g('_exhausted')), Not(g('_iteration_started'))))
    v.check('reads-from-the-normalised-source', g('_source') is token)
    v.check('chunk-size-is-the-given-one-or-the-default', g('_chunk_size') == (cs if kind == 2 else default))
    v.check('join-limit-is-a-whole-number-of-chunks', g('_max_join_size') == g('_chunk_size') * v.real(AM + ':_MAX_JOIN_CHUNKS'))


@harness(PROP, AR + '._trim_buffer', name='a_trim_buffer')
def a_trim_buffer(v):
    st = mka(v)
    out = v.call(st.s)
    if not _ret_ok(v, out):
        return
    acheck_cursor(v, st, 0, 'view-unchanged')
    v.check('buffer-starts-at-the-cursor', v.get(st.s, '_buffer_pos') == 0)


@harness(PROP, AR + '._prepend_buffer', name='a_prepend_buffer')
def a_prepend_buffer(v):
    st = mka(v)
    k = v.int('pushed_back', 0)
    v.assume(k <= st.bp)
    chunk = st.w.win(st.bp - k, st.bp)  # the k bytes handed out last (they lie right before the view)
    out = v.call(st.s, chunk)
    if not _ret_ok(v, out):
        return
    acheck_cursor(v, st, -k, 'pushed-back-bytes-are-in-front-of-the-view-again')
    v.check('buffer-starts-at-the-cursor', v.get(st.s, '_buffer_pos') == 0)


@harness(PROP, AR + '.tell', name='a_tell')
def a_tell_h(v):
    st = mka(v)
    out = v.call(st.s)
    v.check('tell-is-the-number-of-bytes-handed-out', And(out.exc is None, out.value == st.tell0))
    v.check('state-untouched', acoupled(v, st, 0))


@harness(PROP, AR + '.eof', name='a_eof')
def a_eof(v):
    st = mka(v)
    out = v.call(st.s)
    if not _ret_ok(v, out):
        return
    v.check('eof-iff-source-finished-and-nothing-buffered', Iff(out.value, And(st.exh0, st.nB == 0)))
    v.check('eof-implies-the-view-is-empty', Implies(out.value, st.nV == 0))
    v.check('state-untouched', acoupled(v, st, 0))


def _peek_loop(reg, ex):
    def linv(L):
        s = L['self']
        st = s._source.st
        i = L['_i_for0']
        src = s._source
        return And(acoupled_term(st, *aobj_fields(s), src.c_at_loop), s._buffer_pos == 0, Iff(i == src.n_at_loop, src.spos == st.srclen),
                   s._exhausted == src.exh_at_loop, s._buffer_len < L['size'])

    reg.loops[(AR + '.peek', 'for#0')] = LoopSpec(inv=linv, havoc=_aloop_havoc)


@harness(PROP, AR + '.peek', name='a_peek', setup=_peek_loop, inline=[AR + '._trim_buffer'])
def a_peek(v):
    st = mka(v)
    st.n0 = st.src.n_left
    given = v.choose(2, 'size-given?')
    size = v.int('size') if given else -1
    out = v.call(st.s, size) if given else v.call(st.s)
    if not _ret_ok(v, out):
        return
    n = peek_size(size, st.cs)
    v.check('returns-the-next-bytes-of-the-view-up-to-the-clamped-size', is_window(st.w, out.value, st.a0, Min(n, st.nV)))
    acheck_cursor(v, st, 0, 'view-unchanged')
    v.check('returned-bytes-are-buffered', v.get(st.s, '_buffer_len') - v.get(st.s, '_buffer_pos') >= Len(out.value))
    v.cover('returns')
    if st.src.fetched:
        v.cover('pulls-from-the-source')


@harness(PROP, AR + '._consume_delimiter', name='a_consume_delimiter', setup=_peek_loop, inline=[AR + '._trim_buffer', AR + '.peek'])
def a_consume_delimiter(v):
    st = mka(v, delim='any')
    st.n0 = st.src.n_left
    v.assume(And(st.w.dl >= 1, st.w.dl <= st.cs))  # checked by _iter_delimited before any delimiter is consumed
    out = v.call(st.s, st.delim)
    DelimiterError = v.real('falcon.errors:DelimiterError')
    v.check('delimiter-error-iff-the-view-does-not-continue-with-the-delimiter', Iff(out.exc is not None, Not(delim_at(st, st.a0))))
    if out.exc is not None:
        v.check('only-delimiter-error-escapes', out.exc.isa(DelimiterError))
        acheck_cursor(v, st, 0, 'a-missing-delimiter-consumes-nothing')
        v.cover('delimiter-error')
        return
    acheck_cursor(v, st, st.w.dl, 'view-advances-by-exactly-the-delimiter')
    v.cover('returns')


# --- the generator methods (run eagerly; the clause at every `yield` is what makes the suspended composition sound) ------------


def _yield_hook(interp, frame, item):
    key = frame.closure.key if frame.closure is not None else ''
    if not key.startswith(AR + '._iter_'):
        return
    w = _CURW[0]
    v = w.v
    s = frame.locals['self']
    name = key.split('.')[-1]
    if name == '_iter_normalized':
        st = w.st
        ys = frame.locals['$yields']
        Y = WJoined(ys)
        nonlast = Not(st.raw.ended_now)
        v.ctx.check(key + '#every-chunk-is-non-empty-and-all-but-the-last-are-at-least-chunk_size-long',
                    And(Len(item) >= 1, Implies(nonlast, Len(item) >= st.cs)))
        v.ctx.check(key + '#chunks-concatenate-to-the-items-received-so-far-minus-the-one-held-back',
                    is_window(w, Y, w.base, Len(Y)))
        v.ctx.check(key + '#consumed-counts-exactly-the-yielded-bytes', s._consumed == st.cons0 + Len(Y))
        v.ctx.check(key + '#not-exhausted-while-yielding', Not(s._exhausted))
        return
    st = s._source.st
    Y = WJoined(frame.locals['$yields'])
    cond = And(is_window(w, Y, st.a0, Len(Y)), acoupled_term(st, *aobj_fields(s), Len(Y)))
    if name == '_iter_delimited' and st.src.ended_now:
        v.ctx.check(key + '#yielded-bytes-are-consumed', cond)
    else:
        v.ctx.check(key + '#at-every-yield-the-yielded-bytes-are-removed-from-the-view', cond)
    if name == '_iter_delimited':
        v.ctx.check(key + '#never-yields-past-the-first-delimiter', none_before_a(st, Len(Y)))


def none_before_a(st, c):
    """No occurrence of the delimiter ENDS at or before offset c + (len-1), i.e. none starts before c ... (async: no budget cut)."""
    return Or(st.j0 == -1, st.j0 >= st.a0 + c)


def _iwb_loop(reg, ex):
    reg.yield_hook = _yield_hook

    def linv(L):
        s = L['self']
        st = s._source.st
        Y = WJoined(L['$yields'])
        return And(is_window(st.w, Y, st.a0, Len(Y)), acoupled_term(st, *aobj_fields(s), Len(Y)), s._buffer_pos == s._buffer_len,
                   Iff(L['_i_for0'] == s._source.n_at_loop, s._source.spos == st.srclen), s._exhausted == s._source.exh_at_loop)

    reg.loops[(AR + '._iter_with_buffer', 'for#0')] = LoopSpec(inv=linv, havoc=_aloop_havoc, lists={'$yields': WinList.of})


@harness(PROP, AR + '._iter_with_buffer', name='a_iter_with_buffer', setup=_iwb_loop)
def a_iter_with_buffer(v):
    st = mka(v)
    st.n0 = st.src.n_left
    hint_given = v.choose(2, 'size_hint-given?')
    hint = v.int('size_hint') if hint_given else 0
    out = v.call(st.s, hint) if hint_given else v.call(st.s)
    if not _ret_ok(v, out):
        return
    items = out.value.items
    Y = WJoined(items) if not v.concrete else b''.join(items)
    v.check('chunks-concatenate-to-the-whole-view', is_window(st.w, Y, st.a0, st.nV))
    acheck_cursor(v, st, st.nV, 'iteration-leaves-the-view-empty')
    v.check('source-finished', v.get(st.s, '_exhausted'))
    v.cover('returns')


def _idl_loop(reg, ex):
    reg.yield_hook = _yield_hook

    def linv(L):
        s = L['self']
        st = s._source.st
        w = st.w
        Y = WJoined(L['$yields'])
        c = Len(Y)
        jc = w.first(st.a0 + c)
        return And(is_window(w, Y, st.a0, c), acoupled_term(st, *aobj_fields(s), c), s._buffer_pos == 0,
                   Iff(L['_i_for0'] == s._source.n_at_loop, s._source.spos == st.srclen), s._exhausted == s._source.exh_at_loop,
                   none_before_a(st, c),                                  # nothing yielded reaches into a delimiter occurrence
                   Or(jc == -1, jc + w.dl > st.a0 + c + s._buffer_len))   # and no occurrence lies wholly inside the buffer

    reg.loops[(AR + '._iter_delimited', 'for#0')] = LoopSpec(inv=linv, havoc=_aloop_havoc, lists={'$yields': WinList.of})


def _idl_tail(reg, ex):
    reg.yield_hook = _yield_hook


def a_iter_delimited(v, tail):
    st = mka(v, delim='any', tail=tail)
    st.n0 = st.src.n_left
    hint_given = v.choose(2, 'size_hint-given?')
    hint = v.int('size_hint') if hint_given else 0
    out = v.call(st.s, st.delim, hint) if hint_given else v.call(st.s, st.delim)
    dl = st.w.dl
    bad = Or(dl < 1, dl > st.cs)
    v.check('delimiter-length-outside-1..chunk_size-raises-valueerror', Iff(out.exc is not None, bad))
    if out.exc is not None:
        v.check('only-valueerror-escapes', out.exc.isa(ValueError))
        v.check('valueerror-consumes-nothing', acoupled(v, st, 0))
        return
    items = out.value.items
    Y = WJoined(items) if not v.concrete else b''.join(items)
    j = st.w.first(st.a0)
    stop = Ite(j != -1, j - st.a0, st.nV)
    v.check('chunks-concatenate-to-the-view-up-to-the-first-delimiter-or-the-end', is_window(st.w, Y, st.a0, stop))
    acheck_inv(v, st.s)
    v.check('yielded-bytes-are-consumed', acoupled(v, st, Len(Y)))  # what was yielded is removed from the view: V' == V minus the yielded bytes
    v.check('tell-matches-the-cursor', a_tell(v, st) == st.tell0 + Len(Y))
    v.cover('returns')
    if j != -1:
        v.cover('stops-at-delimiter')


# first with the source at most one chunk from its end: no loop cut, so counter-models are replayable on the real code
harness(PROP, AR + '._iter_delimited', name='a_iter_delimited[at-most-one-more-chunk]', setup=_idl_tail, inline=[AR + '._trim_buffer'])(lambda v: a_iter_delimited(v, True))
# then for any number of chunks still to come (loop invariant)
harness(PROP, AR + '._iter_delimited', name='a_iter_delimited', setup=_idl_loop, inline=[AR + '._trim_buffer'])(lambda v: a_iter_delimited(v, False))


# --- _iter_normalized: what the reader's own source wrapper guarantees to the consumers above -------------------------------------------


@stubclass
class RawSource:
    """The user's source: an async iterable of arbitrary bytes items (empty ones included)."""

    def __init__(self, v, w, total):
        self.v, self.w, self.total = v, w, total
        self.spos = 0
        self.n = v.int('items', 0)
        v.assume(Implies(self.n == 0, total == 0))
        self.ended_now = False

    def _item(self, i, n):
        v = self.v
        rest = self.total - self.spos
        k = v.int('item_len', 0)
        if v.concrete:
            k = rest if i == n - 1 else min(k, rest)
        v.assume(And(k <= rest, Implies(i == n - 1, k == rest)))
        r = self.w.win(self.spos, self.spos + k)
        self.spos = self.spos + k
        return r

    def __pyvc_seq__(self):
        from pyvc.core import FnSeq

        n = self.n
        return FnSeq(n, lambda i: self._item(i, n))

    def __pyvc_for_end__(self):
        self.ended_now = True

    async def agen(self):
        for i in range(self.n):
            yield self._item(i, self.n)
        self.ended_now = True


def _inorm_loop(reg, ex):
    reg.yield_hook = _yield_hook

    def linv(L):
        s = L['self']
        st = _CURW[0].st
        w = st.w
        Y = WJoined(L['$yields'])
        chunk = L['chunk']
        return And(is_window(w, Y, 0, Len(Y)), is_window(w, chunk, Len(Y), Len(chunk)), Len(Y) + Len(chunk) == st.raw.spos,
                   s._consumed == st.cons0 + Len(Y), Not(s._exhausted), L['chunk_size'] == st.cs,
                   Implies(L['_i_for0'] == st.raw.n, st.raw.spos == st.total))

    def havoc(ctx, L):
        _CURW[0].st.raw.spos = ctx.fresh_int('hv_rawpos')
        L['chunk'] = _CURW[0].fresh_win(ctx, 'hv_chunk')

    reg.loops[(AR + '._iter_normalized', 'for#0')] = LoopSpec(inv=linv, havoc=havoc, no_auto=('chunk',), lists={'$yields': WinList.of})


@harness(PROP, AR + '._iter_normalized', name='a_iter_normalized', setup=_inorm_loop)
def a_iter_normalized(v):
    st = St()
    w = World(v)
    w.st = st
    st.w = w
    st.cs = v.int('chunk_size', 1)
    st.total = v.int('total_len', 0)
    st.cons0 = v.int('consumed', 0)
    w.base = 0
    w.lenT = st.total
    if v.concrete:
        w.T = _pattern(st.total)
    st.raw = RawSource(v, w, st.total)
    st.s = v.obj(AR, _chunk_size=st.cs, _consumed=st.cons0, _exhausted=False)
    out = v.call(st.s, st.raw if not v.concrete else st.raw.agen())
    if not _ret_ok(v, out):
        return
    items = out.value.items
    Y = WJoined(items) if not v.concrete else b''.join(items)
    v.check('chunks-concatenate-to-exactly-the-items-of-the-source', is_window(w, Y, 0, st.total))
    v.check('consumed-counts-exactly-the-delivered-bytes', v.get(st.s, '_consumed') == st.cons0 + st.total)
    v.check('exhausted-once-the-source-is-finished', v.get(st.s, '_exhausted'))
    if v.concrete:
        v.check('every-chunk-is-non-empty-and-all-but-the-last-are-at-least-chunk_size-long',
                all(len(x) >= 1 for x in items) and all(len(x) >= st.cs for x in items[:-1]))
    v.cover('returns')


# --- _read_from against ANY generator that keeps the per-yield contract proved above ------------------------------------------------------------


def a_havoc_state(ctx, st, o):
    buf = st.w.fresh_win(ctx, 'st_buffer')
    f = o._fields
    f['_buffer'] = buf
    f['_buffer_len'] = buf.b - buf.a
    f['_buffer_pos'] = ctx.fresh_int('st_buffer_pos')
    f['_consumed'] = ctx.fresh_int('st_consumed')
    f['_exhausted'] = ctx.fresh_bool('st_exhausted')
    st.src.spos = ctx.fresh_int('st_spos')
    n = ctx.fresh_int('st_chunks_left')
    st.src.n_left = n
    ctx.assume(And(n >= 0, Iff(n == 0, st.src.spos == st.srclen), Implies(f['_exhausted'], n == 0)))


def a_move_to(ctx, st, o, c):
    a_havoc_state(ctx, st, o)
    ctx.assume(acoupled_term(st, *aobj_fields(o), c))


@stubclass
class ViewGen:
    """A suspended generator over the reader (contract of _iter_with_buffer / _iter_delimited, harnesses a_iter_with_buffer and
    a_iter_delimited): it will deliver V[:G] in consecutive chunks; whenever it is suspended at a yield, exactly the bytes
    yielded so far are removed from the reader's view; it touches the reader only while it runs."""

    def __init__(self, v, st, G, finishes_source=False):
        self.v, self.st, self.G = v, st, G
        self.o = 0
        self.n = v.int('gen_chunks', 0)
        v.assume(Implies(self.n == 0, G == 0))
        self.finishes_source = finishes_source
        self.fetched = 0

    def _item(self, i, n):
        v, st = self.v, self.st
        k = v.int('gen_chunk_len', 0)
        v.assume(And(self.o + k <= self.G, Implies(i == n - 1, self.o + k == self.G)))
        r = st.w.win(st.a0 + self.o, st.a0 + self.o + k)
        self.o = self.o + k
        a_move_to(v.ctx, st, st.s, self.o)
        self.fetched += 1
        return r

    def __pyvc_seq__(self):
        from pyvc.core import FnSeq

        n = self.n
        return FnSeq(n, lambda i: self._item(i, n))

    def __pyvc_for_end__(self):
        st = self.st
        self.o = self.G
        a_move_to(self.v.ctx, st, st.s, self.G)
        if self.finishes_source:
            self.v.ctx.assume(st.s._fields['_exhausted'])


def _gen_havoc(ctx, L):
    g = L['source'] if 'source' in L else None
    s = L['self']
    st = _CURW[0].st
    st.gen.o = ctx.fresh_int('hv_gen_o')
    a_havoc_state(ctx, st, s)


def _read_from_loops(reg, ex):
    _wbytesio(reg)

    def common(L, idx='_i_for0'):
        s = L['self']
        st = _CURW[0].st
        g = st.gen
        return st, g, And(acoupled_term(st, *aobj_fields(s), g.o), 0 <= g.o, g.o <= g.G, Implies(L[idx] == g.n, g.o == g.G))

    def inv0(L):  # size is None / -1: everything into a BytesIO
        st, g, c = common(L)
        return And(c, is_window(st.w, L['result_bytes'].value, st.a0, g.o))

    def inv1(L):  # size <= join limit: list of chunks
        st, g, c = common(L, '_i_for1')
        return And(c, is_window(st.w, WJoined(L['result']), st.a0, g.o), L['remaining'] == L['size'] - g.o, L['remaining'] > 0,
                   Implies(Len(L['result']) == 0, g.o == 0))

    def inv2(L):  # size > join limit: BytesIO
        st, g, c = common(L, '_i_for2')
        return And(c, is_window(st.w, L['result_bytes'].value, st.a0, g.o), L['remaining'] == L['size'] - g.o, L['remaining'] > 0)

    def havoc_io(ctx, L):
        _gen_havoc(ctx, L)
        L['result_bytes'].value = _CURW[0].fresh_win(ctx, 'hv_acc')

    reg.loops[(AR + '._read_from', 'for#0')] = LoopSpec(inv=inv0, havoc=havoc_io)
    reg.loops[(AR + '._read_from', 'for#1')] = LoopSpec(inv=inv1, havoc=_gen_havoc, lists={'result': WinList.of})
    reg.loops[(AR + '._read_from', 'for#2')] = LoopSpec(inv=inv2, havoc=havoc_io)


def asize_arg(v):
    kind = v.choose(4, 'size-kind')
    if kind == 0:
        return -1, kind
    if kind == 1:
        return None, kind
    if kind == 2:
        return v.int('size', 1), kind
    s = v.int('size')
    v.assume(And(s <= 0, s != -1))
    return s, kind


def post_async_read(v, st, out, size, kind, G):
    """Flat cursor over V[:G] (G = all of V, or V up to the first delimiter)."""
    if not _ret_ok(v, out):
        return None
    n = G if kind in (0, 1) else (Min(size, G) if kind == 2 else 0)
    v.check('returns-the-next-bytes-of-the-view', is_window(st.w, out.value, st.a0, n))
    acheck_cursor(v, st, n)
    if kind == 2:
        v.check('sized-read-bounded', Len(out.value) <= size)
    v.cover('returns')
    return n


def a_read_from(v):
    st = mka(v)
    _CURW[0].st = st
    G = v.int('gen_total', 0)
    v.assume(G <= st.nV)
    st.gen = ViewGen(v, st, G)
    size, kind = asize_arg(v)
    if v.concrete:
        return  # the generator is a contract stub here; replay is meaningful for the generator harnesses, not for this one
    out = v.call(st.s, st.gen, size)
    post_async_read(v, st, out, size, kind, G)
    if kind == 2 and st.gen.fetched:
        v.cover('pulls-chunks')


for _k, _n in enumerate(['minus-one', 'None', 'positive', 'nonpositive']):
    harness(PROP, AR + '._read_from', name='a_read_from[size=%s]' % _n, setup=_read_from_loops, inline=[AR + '._prepend_buffer'],
            fix={'size-kind': _k})(a_read_from)


# --- the public operations: generator contract + _read_from (inlined) / plain loops ----------------------------------------------------------


def _public_setup(reg, ex):
    _read_from_loops(reg, ex)
    _peek_loop(reg, ex)

    def iwb(I, self, size_hint=0):
        st = _CURW[0].st
        st.gen = ViewGen(st.w.v, st, st.nV, finishes_source=True)
        return st.gen

    def idl(I, self, delimiter, size_hint=0):
        st = _CURW[0].st
        w = st.w
        if delimiter is not w.delim:
            raise Unreached('_iter_delimited with a delimiter other than the one of this harness')
        I.ctx.check(AR + '._iter_delimited#pre:delimiter-length-within-1..chunk_size', And(w.dl >= 1, w.dl <= st.cs))
        j = w.first(st.a0)
        st.gen = ViewGen(w.v, st, Ite(j != -1, j - st.a0, st.nV))
        return st.gen

    reg.stubs[AR + '._iter_with_buffer'] = iwb
    reg.stubs[AR + '._iter_delimited'] = idl

    def pipe_inv(L):
        s = L['self']
        st = _CURW[0].st
        g = st.gen
        d = L['destination']
        return And(acoupled_term(st, *aobj_fields(s), g.o), 0 <= g.o, g.o <= g.G, Implies(L['_i_for0'] == g.n, g.o == g.G),
                   True if d is None else is_window(st.w, d.written, st.a0, g.o))

    def pipe_havoc(ctx, L):
        _gen_havoc(ctx, L)
        if L['destination'] is not None:
            L['destination'].written = _CURW[0].fresh_win(ctx, 'hv_written')

    reg.loops[(AR + '.pipe', 'for#0')] = LoopSpec(inv=pipe_inv, havoc=pipe_havoc)
    reg.loops[(AR + '.pipe_until', 'for#0')] = LoopSpec(inv=pipe_inv, havoc=pipe_havoc)


PUBLIC_INLINE = [AR + '._read_from', AR + '._prepend_buffer', AR + '._consume_delimiter', AR + '.peek', AR + '._trim_buffer', AR + '.pipe']


def _mkpub(v, delim=None):
    st = mka(v, delim=delim)
    _CURW[0].st = st
    if delim is not None:
        v.assume(And(st.w.dl >= 1, st.w.dl <= st.cs))
    return st


@harness(PROP, AR + '.read', name='a_read', setup=_public_setup, inline=PUBLIC_INLINE)
def a_read(v):
    st = _mkpub(v)
    size, kind = asize_arg(v)
    omitted = kind == 0 and v.choose(2, 'size-omitted?')
    if v.concrete:
        return
    out = v.call(st.s) if omitted else v.call(st.s, size)
    post_async_read(v, st, out, size, kind, st.nV)
    if out.exc is None and kind in (0, 1):
        v.check('unsized-read-reaches-end-of-stream', And(v.get(st.s, '_exhausted'), v.get(st.s, '_buffer_len') == v.get(st.s, '_buffer_pos')))


@harness(PROP, AR + '.readall', name='a_readall', setup=_public_setup, inline=PUBLIC_INLINE)
def a_readall(v):
    st = _mkpub(v)
    if v.concrete:
        return
    out = v.call(st.s)
    post_async_read(v, st, out, None, 1, st.nV)
    if out.exc is None:
        v.check('readall-reaches-end-of-stream', And(v.get(st.s, '_exhausted'), v.get(st.s, '_buffer_len') == v.get(st.s, '_buffer_pos')))


def a_read_until(v):
    st = _mkpub(v, delim='any')
    size, kind = asize_arg(v)
    consume = bool(v.choose(2, 'consume_delimiter'))
    if v.concrete:
        return
    shape = v.choose(2, 'call-shape') if kind == 0 else 1
    out = (v.call(st.s, st.delim, consume_delimiter=consume) if shape == 0 else v.call(st.s, st.delim, size, consume))
    j = st.w.first(st.a0)
    stop = Ite(j != -1, j - st.a0, st.nV)
    n = stop if kind in (0, 1) else (Min(size, stop) if kind == 2 else 0)
    DelimiterError = v.real('falcon.errors:DelimiterError')
    if consume:
        v.check('delimiter-error-iff-the-bytes-after-the-result-are-not-the-delimiter', Iff(out.exc is not None, Not(delim_at(st, st.a0 + n))))
    if out.exc is not None:
        v.check('only-delimiter-error-escapes', And(out.exc.isa(DelimiterError), consume))
        acheck_cursor(v, st, n, 'a-missing-delimiter-leaves-the-cursor-behind-the-result')
        v.cover('delimiter-error')
        return
    c = st.w.dl if consume else 0
    v.check('returns-the-view-up-to-the-first-delimiter-or-size-or-end', is_window(st.w, out.value, st.a0, n))
    v.check('returned-bytes-contain-no-delimiter', Or(j == -1, j + st.w.dl > st.a0 + n))
    acheck_cursor(v, st, n + c, 'view-advances-by-the-returned-bytes-plus-the-consumed-delimiter')
    v.cover('returns')


for _c in (0, 1):
    harness(PROP, AR + '.read_until', name='a_read_until[consume=%d]' % _c, setup=_public_setup, inline=PUBLIC_INLINE, fix={'consume_delimiter': _c})(a_read_until)


def a_pipe(v):
    st = _mkpub(v)
    has_dest = v.choose(2, 'destination?')
    dest = WSink() if has_dest else None
    if v.concrete:
        return
    via_exhaust = v.hdef.target.endswith('.exhaust')
    out = v.call(st.s) if (via_exhaust or not has_dest) else v.call(st.s, dest)
    if not _ret_ok(v, out):
        return
    acheck_cursor(v, st, st.nV, 'leaves-the-view-empty')
    v.check('reaches-end-of-stream', And(v.get(st.s, '_exhausted'), v.get(st.s, '_buffer_len') == v.get(st.s, '_buffer_pos')))
    if has_dest and not via_exhaust:
        v.check('destination-received-exactly-the-view-in-order', is_window(st.w, dest.written, st.a0, st.nV))
    v.cover('returns')


harness(PROP, AR + '.pipe', name='a_pipe', setup=_public_setup, inline=PUBLIC_INLINE)(a_pipe)
harness(PROP, AR + '.exhaust', name='a_exhaust', setup=_public_setup, inline=PUBLIC_INLINE, fix={'destination?': 0})(a_pipe)


def a_pipe_until(v):
    st = _mkpub(v, delim='any')
    has_dest = v.choose(2, 'destination?')
    dest = WSink() if has_dest else None
    consume = bool(v.choose(2, 'consume_delimiter'))
    if v.concrete:
        return
    out = v.call(st.s, st.delim, dest, consume)
    j = st.w.first(st.a0)
    stop = Ite(j != -1, j - st.a0, st.nV)
    DelimiterError = v.real('falcon.errors:DelimiterError')
    if consume:
        v.check('delimiter-error-iff-the-bytes-after-the-piped-ones-are-not-the-delimiter', Iff(out.exc is not None, Not(delim_at(st, st.a0 + stop))))
    if has_dest:
        v.check('destination-received-the-view-up-to-the-first-delimiter', is_window(st.w, dest.written, st.a0, stop))
    if out.exc is not None:
        v.check('only-delimiter-error-escapes', And(out.exc.isa(DelimiterError), consume))
        acheck_cursor(v, st, stop, 'a-missing-delimiter-leaves-the-cursor-behind-the-piped-bytes')
        return
    acheck_cursor(v, st, stop + (st.w.dl if consume else 0), 'view-advances-by-the-piped-bytes-plus-the-consumed-delimiter')
    v.cover('returns')


for _c in (0, 1):
    harness(PROP, AR + '.pipe_until', name='a_pipe_until[consume=%d]' % _c, setup=_public_setup, inline=PUBLIC_INLINE, fix={'consume_delimiter': _c})(a_pipe_until)


@harness(PROP, AR + '.__aiter__', name='a_aiter')
def a_aiter(v):
    st = mka(v)
    started = v.bool('iteration_started')
    v.set(st.s, '_iteration_started', started)
    if v.concrete:
        return

    @stubclass
    class Token:
        pass

    tok = Token()
    v.registry.stubs[AR + '._iter_with_buffer'] = lambda I, self, size_hint=0: tok
    out = v.call(st.s)
    v.check('second-iteration-is-refused', Iff(out.exc is not None, started))
    if out.exc is not None:
        v.check('refusal-is-operation-not-allowed-and-touches-nothing', And(out.exc.isa(v.real('falcon.errors:OperationNotAllowed')), acoupled(v, st, 0)))
        return
    v.check('iteration-marked-started', v.get(st.s, '_iteration_started'))
    v.check('buffered-bytes-come-first-then-the-source', (out.value is tok) if st.nB > 0 else (out.value is st.src))
    v.check('state-untouched', acoupled(v, st, 0))


@harness(PROP, AR + '.delimit', name='a_delimit', inline=[AR + '.__init__'])
def a_delimit(v):
    st = mka(v, delim='any')
    if v.concrete:
        return

    @stubclass
    class Token:
        def __init__(self, *a):
            self.a = a

    v.registry.stubs[AR + '._iter_delimited'] = lambda I, self, delimiter, size_hint=0: Token('delimited', self, delimiter, size_hint)
    v.registry.stubs[AR + '._iter_normalized'] = lambda I, self, source: Token('normalized', self, source)
    out = v.call(st.s, st.delim)
    if not _ret_ok(v, out):
        return
    child = out.value
    v.check('parent-untouched', acoupled(v, st, 0))
    src = v.get(child, '_source')
    ok = child._cls is st.s._cls and isinstance(src, Token) and src.a[0] == 'normalized' and src.a[1] is child
    inner = src.a[2] if ok else None
    ok = ok and isinstance(inner, Token) and inner.a[0] == 'delimited' and inner.a[1] is st.s and inner.a[2] is st.delim
    v.check('sub-reader-reads-the-normalised-delimited-iteration-of-the-parent', ok)
    g = lambda n: v.get(child, n)
    v.check('sub-reader-starts-empty-at-position-zero-with-the-parent-chunk-size',
            And(Len(g('_buffer')) == 0, g('_buffer_len') == 0, g('_buffer_pos') == 0, g('_consumed') == 0, Not(g('_exhausted')), g('_chunk_size') == st.cs))



# --- the known defect of _iter_delimited once more, through the public operations (read_until, then read) --------------------------------
# Unbounded reads only (size == -1): the consumer _read_from then never touches the reader between two yields, so running the
# generators eagerly is exactly what happens at run time.  Same clause name as at the root, so one finding covers both.


def _seq_setup(reg, ex):
    reg.yield_hook = None

    def read_from_unbounded(I, self, source, size=-1):
        # contract of _read_from for size == -1 (harness a_read_from[size=minus-one]): the concatenation of everything the generator yields
        if not (isinstance(size, int) and size == -1):
            raise Unreached('this harness only makes unbounded reads')
        return WJoined(source.items)

    reg.stubs[AR + '._read_from'] = read_from_unbounded


@harness(PROP, AR + '._iter_delimited', name='a_read_until_then_read[at-most-one-more-chunk]', setup=_seq_setup,
         inline=[AR + '.read_until', AR + '.read', AR + '._iter_delimited', AR + '._iter_with_buffer', AR + '._trim_buffer'])
def a_read_until_then_read(v):
    st = mka(v, delim='any', tail=True)
    v.assume(And(st.w.dl >= 1, st.w.dl <= st.cs))
    out1 = v.call(st.s, st.delim, target=AR + '.read_until')
    if not _ret_ok(v, out1):
        return
    j = st.w.first(st.a0)
    stop = Ite(j != -1, j - st.a0, st.nV)
    v.check('read_until-returns-the-view-up-to-the-first-delimiter-or-the-end', is_window(st.w, out1.value, st.a0, stop))
    out2 = v.call(st.s, target=AR + '.read')
    if not _ret_ok(v, out2):
        return
    # a following read() delivers exactly the rest: nothing twice, nothing skipped
    v.check('yielded-bytes-are-consumed', is_window(st.w, out2.value, st.a0 + stop, st.nV - stop))
    v.cover('returns')


# --- the defect of _read once more, through the public read(size): the source ends before the declared maximum length ---------------


@harness(PROP, SR + '._read', name='w_read_public[representation-invariant]', setup=_w, inline=[SR + '.read', SR + '._normalize_size', SR + '._read'])
def w_read_public(v):
    st = mkw(v)
    size, kind = size_arg(v)
    out = v.call(st.s, size, target=SR + '.read')
    if not _ret_ok(v, out):
        return
    wcheck_inv(v, st.s)  # same clause names as at the root (_read), so one finding covers both
    v.cover('returns')


def _public_witness_first():
    """Report the known defect with the counter-model that replays through the public operations (first refuted obligation of a name is the one replayed)."""
    from pyvc.harness import HARNESSES

    mine = [h for h in HARNESSES if h.fn.__module__ == __name__]
    for prefix, target in (('a_read_until_then_read', AR + '._iter_delimited'), ('w_read_public', SR + '._read')):
        pub = [h for h in mine if h.name.startswith(prefix)]
        for h in pub:
            HARNESSES.remove(h)
        at = min(i for i, h in enumerate(HARNESSES) if h.fn.__module__ == __name__ and h.target == target)
        HARNESSES[at:at] = pub


_public_witness_first()


# ===========================================================================
# BOUNDED STAND-IN -- labelled, never counted as proved.
#
# A differential test of BOTH real readers (pure-Python classes of the source-only overlay) against a trivially correct flat
# cursor over the whole byte string, run in a subprocess with /venv/bin/python.  It exercises what the proof leaves to
# inspection or to paper (see NOT_DECIDED): suspended generators composed with their consumers, nested delimit(), termination
# (every operation under a watchdog), and it re-checks everything else end to end on concrete bytes.
# The two defects found by proof surface here under the SAME obligation names as in the proof part; anything else gets a
# `C14.bounded#...` name.


def bounded(tier, seed, overlay_dir):
    import json
    import os
    import subprocess
    import tempfile

    base = os.environ.get('TMPDIR') or '/var/tmp'
    with tempfile.TemporaryDirectory(prefix='verif.c14b.', dir=base) as d:
        path = os.path.join(d, 'c14_bounded_child.py')
        with open(path, 'w', encoding='utf-8') as f:
            f.write(_BOUNDED_CHILD)
        env = {k: v for k, v in os.environ.items() if k not in ('PYTHONHOME', 'PYTHONSTARTUP', 'VIRTUAL_ENV')}
        env.update(PYTHONPATH=overlay_dir, PYTHONDONTWRITEBYTECODE='1')
        limit = 3600 if tier == 'thorough' else 600
        try:
            p = subprocess.run(['/venv/bin/python', '-B', path, 'thorough' if tier == 'thorough' else 'quick', str(int(seed or 0))],
                               cwd=d, env=env, capture_output=True, text=True, timeout=limit)
        except subprocess.TimeoutExpired:
            return [{'name': 'C14.bounded', 'bound': '', 'cases': 0, 'failures': [], 'error': 'bounded stand-in timed out after %d s' % limit}]
        try:
            out = json.loads(p.stdout)
            assert isinstance(out, list) and all(isinstance(r, dict) and 'failures' in r for r in out)
        except Exception:
            return [{'name': 'C14.bounded', 'bound': '', 'cases': 0, 'failures': [],
                     'error': 'bounded stand-in did not produce its report (exit %s): %s' % (p.returncode, (p.stderr or p.stdout)[-2000:])}]
        for r in out:
            r['label'] = 'bounded -- not counted as proved'
        return out


_BOUNDED_CHILD = r'''#!/usr/bin/env python
"""C14 bounded differential test: falcon's two buffered readers vs. a flat cursor.

usage: PYTHONPATH=<source-only overlay> python child.py <quick|thorough> <seed>
prints ONE JSON document (list of two dicts) on stdout.
"""
import json
import multiprocessing as mp
import random
import signal
import sys
import warnings
import zlib

from falcon.asgi.reader import BufferedReader as AsyncReader
from falcon.errors import DelimiterError
from falcon.util.reader import BufferedReader as SyncReader

NAME_SYNC = 'C14.bounded.sync-reader-vs-flat-cursor'
NAME_ASYNC = 'C14.bounded.async-reader-vs-flat-cursor'

OB_KNOWN_ASYNC = 'falcon.asgi.reader:BufferedReader._iter_delimited#yielded-bytes-are-consumed'
OB_KNOWN_SYNC = 'falcon.util.reader:BufferedReader._read#invariant-buffer-pos-within-buffer'
OB_SYNC_RET = 'C14.bounded#sync-op-returns-what-the-flat-cursor-returns'
OB_ASYNC_RET = 'C14.bounded#async-op-returns-what-the-flat-cursor-returns'
OB_SYNC_INV = 'C14.bounded#sync-representation-invariant'
OB_ASYNC_INV = 'C14.bounded#async-representation-invariant'
OB_TELL = 'C14.bounded#async-tell-matches-cursor'
OB_EOF = 'C14.bounded#async-eof-matches-cursor'
OB_SRC = 'C14.bounded#source-never-asked-beyond-declared-length'
OB_TERM = 'C14.bounded#operation-terminates'

WATCHDOG_S = 2.0
WATCHDOG_CONFIRM_S = 4.0
MAX_HANGS_PER_UNIT = 2
KEEP_PER_OBLIGATION = 5
ALPHABET = (b'\r', b'\n', b'x')
# master delimiter list; a configuration with chunk size cs uses those of length <= cs
DELIMS = (b'\n', b'\r\n', b'\n\n', b'\r\r\n', b'\r\n\r\n')
MAX_CS = 4


class Hang(BaseException):
    pass


class StopUnit(BaseException):
    pass


class RetryHistory(BaseException):
    pass


def _on_alarm(signum, frame):
    raise Hang()


# --------------------------------------------------------------------------
# JSON helpers
# --------------------------------------------------------------------------


def jb(v):
    if isinstance(v, (bytes, bytearray)):
        return bytes(v).decode('latin-1')
    if isinstance(v, (list, tuple)):
        return [jb(x) for x in v]
    if isinstance(v, dict):
        return {str(k): jb(x) for k, x in v.items()}
    return v


def op_json(op):
    k = op[0]
    if k == 'read':
        return {'op': 'read', 'size': op[1]}
    if k == 'peek':
        return {'op': 'peek', 'size': op[1]}
    if k == 'ru':
        return {'op': 'read_until', 'delimiter': jb(op[1]), 'size': op[2], 'consume_delimiter': op[3]}
    if k == 'bad':
        return {'op': 'read_until_bad_delim', 'delimiter': jb(op[1])}
    if k == 'pipe':
        return {'op': 'pipe', 'with_destination': op[1]}
    if k == 'pu':
        return {'op': 'pipe_until', 'delimiter': jb(op[1]), 'with_destination': op[2], 'consume_delimiter': op[3]}
    if k == 'readline':
        return {'op': 'readline', 'size': op[1]}
    if k == 'readlines':
        return {'op': 'readlines', 'hint': op[1]}
    if k == 'delimit':
        return {
            'op': 'delimit',
            'delimiter': jb(op[1]),
            'child_history': [op_json(o) for o in op[2]],
            'then_child': 'exhaust()' if op[3] == 'exhaust' else 'read() to the end',
        }
    return {'op': k}  # exhaust / readall / iterate


# --------------------------------------------------------------------------
# Reference model: flat cursor over D with position p
# --------------------------------------------------------------------------


class Cur:
    __slots__ = ('D', 'p')

    def __init__(self, D):
        self.D = D
        self.p = 0


def ref_apply(cur, op, cs):
    """Apply op to the flat cursor.

    Returns (expected, eof_must, not_found) where expected is ('ret', value) or
    ('exc', name); eof_must: the async reader must report eof afterwards;
    not_found: op was a delimited op whose delimiter does not occur in rest.
    """
    D = cur.D
    p = cur.p
    rest = D[p:]
    k = op[0]
    if k == 'read':
        n = op[1]
        if n is None or n == -1:
            cur.p = len(D)
            return ('ret', rest), True, False
        r = rest[:n]
        cur.p = p + len(r)
        return ('ret', r), len(r) < n, False
    if k == 'peek':
        n = op[1]
        if not 0 <= n <= cs:
            n = cs
        return ('ret', rest[:n]), False, False
    if k == 'ru' or k == 'pu':
        d = op[1]
        i = rest.find(d)
        stop = i if i >= 0 else len(rest)
        if k == 'ru':
            size = op[2]
            if size is not None and size >= 0 and size < stop:
                stop = size
            val = rest[:stop]
        else:
            val = rest[:stop] if op[2] else None
        cur.p = p + stop
        if op[3]:
            if D[cur.p : cur.p + len(d)] == d:
                cur.p += len(d)
            else:
                return ('exc', 'DelimiterError'), False, i < 0
        return ('ret', val), False, i < 0
    if k == 'bad':
        return ('exc', 'ValueError'), False, False
    if k == 'pipe':
        cur.p = len(D)
        return ('ret', rest if op[1] else None), True, False
    if k == 'exhaust':
        cur.p = len(D)
        return ('ret', None), True, False
    if k == 'readall' or k == 'iterate':
        cur.p = len(D)
        return ('ret', rest), True, False
    if k == 'readline':
        return ('ret', _ref_readline(cur, op[1])), False, False
    if k == 'readlines':
        hint = op[1]
        out = []
        total = 0
        while True:
            line = _ref_readline(cur, -1)
            if not line:
                break
            out.append(line)
            if hint >= 0:
                total += len(line)
                if total >= hint:
                    break
        return ('ret', out), False, False
    raise AssertionError(op)


def _ref_readline(cur, size):
    rest = cur.D[cur.p :]
    i = rest.find(b'\n')
    stop = i + 1 if i >= 0 else len(rest)
    if size is not None and size >= 0 and size < stop:
        stop = size
    cur.p += stop
    return rest[:stop]


# --------------------------------------------------------------------------
# Sources and sinks
# --------------------------------------------------------------------------


class Src:
    """Sync source: read(n) returns min(n, next planned cap, what is left) bytes.

    plan: list of positive caps, one consumed per call; once the plan is used up
    the cap is `tail` (0 = no cap, i.e. always-full; m > 0 = always at most m).
    Never returns b'' unless nothing is left.
    """

    __slots__ = ('data', 'pos', 'plan', 'pi', 'tail', 'max_len', 'viol', 'calls')

    def __init__(self, data, plan, tail, max_len):
        self.data = data
        self.pos = 0
        self.plan = plan
        self.pi = 0
        self.tail = tail
        self.max_len = max_len
        self.viol = []
        self.calls = []

    def read(self, n):
        self.calls.append(n)
        if n <= 0 or n > self.max_len - self.pos:
            self.viol.append({'requested': n, 'delivered_so_far': self.pos, 'declared': self.max_len})
            if n <= 0:
                return b''
        if self.pi < len(self.plan):
            cap = self.plan[self.pi]
            self.pi += 1
        else:
            cap = self.tail or n
        chunk = self.data[self.pos : self.pos + min(n, cap)]
        self.pos += len(chunk)
        return chunk


class Sink:
    __slots__ = ('parts',)

    def __init__(self):
        self.parts = []

    def write(self, b):
        self.parts.append(b)


class ASink:
    __slots__ = ('parts',)

    def __init__(self):
        self.parts = []

    async def write(self, b):
        self.parts.append(b)


async def _agen(chunks):
    for c in chunks:
        yield c


async def _collect(r):
    out = []
    async for c in r:
        out.append(c)
    return b''.join(out)


def run_coro(coro):
    """Minimal runner: nothing in the readers/source/sink really suspends."""
    try:
        coro.send(None)
    except StopIteration as e:
        return e.value
    coro.close()
    raise RuntimeError('coroutine suspended unexpectedly')


# --------------------------------------------------------------------------
# Executing one op on the real readers
# --------------------------------------------------------------------------


def do_sync(r, op):
    k = op[0]
    if k == 'read':
        return r.read(op[1])
    if k == 'peek':
        return r.peek(op[1])
    if k == 'ru':
        return r.read_until(op[1], op[2], op[3])
    if k == 'bad':
        return r.read_until(op[1])
    if k == 'pipe':
        if op[1]:
            s = Sink()
            r.pipe(s)
            return b''.join(s.parts)
        r.pipe()
        return None
    if k == 'pu':
        if op[2]:
            s = Sink()
            r.pipe_until(op[1], s, op[3])
            return b''.join(s.parts)
        r.pipe_until(op[1], None, op[3])
        return None
    if k == 'readline':
        return r.readline(op[1])
    if k == 'readlines':
        return r.readlines(op[1])
    if k == 'exhaust':
        r.exhaust()
        return None
    raise AssertionError(op)


def do_async(r, op):
    k = op[0]
    if k == 'read':
        return run_coro(r.read(op[1]))
    if k == 'peek':
        return run_coro(r.peek(op[1]))
    if k == 'ru':
        return run_coro(r.read_until(op[1], op[2], op[3]))
    if k == 'bad':
        return run_coro(r.read_until(op[1]))
    if k == 'pipe':
        if op[1]:
            s = ASink()
            run_coro(r.pipe(s))
            return b''.join(s.parts)
        run_coro(r.pipe())
        return None
    if k == 'pu':
        if op[2]:
            s = ASink()
            run_coro(r.pipe_until(op[1], s, op[3]))
            return b''.join(s.parts)
        run_coro(r.pipe_until(op[1], None, op[3]))
        return None
    if k == 'exhaust':
        run_coro(r.exhaust())
        return None
    if k == 'readall':
        return run_coro(r.readall())
    if k == 'iterate':
        return run_coro(_collect(r))
    raise AssertionError(op)


class Probe(AsyncReader):
    """Diagnostic subclass, used ONLY to classify an async failure (never for the verdict).

    It re-yields what the original `_iter_delimited` yields and records every yield
    whose bytes were not consumed from the reader, i.e. the white-box position
    `_consumed - (_buffer_len - _buffer_pos)` did not advance by len(chunk).
    """

    hits = []
    path = ()

    async def _iter_delimited(self, delimiter, size_hint=0):
        inner = AsyncReader._iter_delimited(self, delimiter, size_hint)
        while True:
            before = self._consumed - (self._buffer_len - self._buffer_pos)
            try:
                chunk = await inner.__anext__()
            except StopAsyncIteration:
                return
            adv = self._consumed - (self._buffer_len - self._buffer_pos) - before
            if adv != len(chunk):
                Probe.hits.append((Probe.path, len(chunk), adv))
            yield chunk


# --------------------------------------------------------------------------
# Differential driver
# --------------------------------------------------------------------------


class Lv:
    """One reader (top-level or delimited child) paired with its flat cursor."""

    __slots__ = ('r', 'cur', 'declared', 'parent', 'nf', 'depth')

    def __init__(self, r, cur, declared, parent, nf):
        self.r = r
        self.cur = cur
        self.declared = declared  # sync: max_stream_len the reader was created with
        self.parent = parent
        self.nf = nf  # child only: its delimiter does not occur in the parent's rest
        self.depth = 0 if parent is None else parent.depth + 1


class Runner:
    def __init__(self, kind):
        self.kind = kind
        self.is_async = kind == 'async'
        self.do = do_async if self.is_async else do_sync
        self.ob_ret = OB_ASYNC_RET if self.is_async else OB_SYNC_RET
        self.cases = 0
        self.fails = {}
        self.counts = {}
        self.hangs = 0
        self.cfg = None
        self.history = None
        self.src = None
        self.cs = 0
        self.watchdog = WATCHDOG_S
        self.confirming = False
        self.reader_cls = AsyncReader if self.is_async else SyncReader
        self.probing = False

    # cfg = (data, cs, chunking, max_len)
    #   sync : chunking = (plan tuple, tail cap), max_len = declared max_stream_len
    #   async: chunking = tuple of bytes chunks,  max_len = None
    def run(self, cfg, history):
        """Run one (configuration, history); True iff the whole history was executed."""
        self.cases += 1
        try:
            return self._run(cfg, history)
        except RetryHistory:
            # a watchdog expiry is only reported if it is reproduced (with a longer
            # allowance) on a fresh reader: hangs are deterministic, scheduler stalls are not
            self.watchdog = WATCHDOG_CONFIRM_S
            self.confirming = True
            try:
                return self._run(cfg, history)
            finally:
                self.watchdog = WATCHDOG_S
                self.confirming = False

    def _run(self, cfg, history):
        # Watchdog: one interval timer per history (a history is at most a few dozen
        # micro-operations, so every single op runs under it); self.at names the op in progress.
        try:
            signal.setitimer(signal.ITIMER_REAL, self.watchdog)
            try:
                return self._run_history(cfg, history)
            finally:
                signal.setitimer(signal.ITIMER_REAL, 0)
        except Hang:
            signal.setitimer(signal.ITIMER_REAL, 0)
            if not self.confirming:
                raise RetryHistory()
            L, pth, op, exp = self.at
            self.fail(
                OB_TERM, L, pth, op, None, exp,
                'no result within %.1f s, reproduced on a fresh reader with a %.1f s allowance' % (WATCHDOG_S, WATCHDOG_CONFIRM_S),
            )
            self.hangs += 1
            if self.hangs >= MAX_HANGS_PER_UNIT:
                raise StopUnit()
            return False

    def _run_history(self, cfg, history):
        self.cfg = cfg
        self.history = history
        data, cs, chunking, max_len = cfg
        self.cs = cs
        if self.is_async:
            top = Lv(self.reader_cls(_agen(chunking), cs), Cur(data), None, None, False)
        else:
            self.src = Src(data, chunking[0], chunking[1], max_len)
            top = Lv(SyncReader(self.src.read, max_len, cs), Cur(data[:max_len]), max_len, None, False)
        return self.run_ops(top, history, ())

    def run_ops(self, L, ops, path):
        idx = 0
        for op in ops:
            pth = path + (idx,)
            idx += 1
            if op[0] == 'delimit':
                if not self.do_delimit(L, op, pth):
                    return False
            elif not self.step(L, op, pth):
                return False
        return True

    def step(self, L, op, pth):
        exp, eof_must, nf = ref_apply(L.cur, op, self.cs)
        if self.probing:
            Probe.path = pth
        self.at = (L, pth, op, exp)  # for the watchdog (armed around the whole history)
        try:
            got = ('ret', self.do(L.r, op))
        except DelimiterError:
            got = ('exc', 'DelimiterError')
        except Exception as e:
            got = ('exc', type(e).__name__, repr(e))
        if got[0] != exp[0] or got[1] != exp[1]:
            self.fail(self.ob_ret, L, pth, op, got, exp, None, nf)
            return False
        if not self.post(L, op, pth, nf, eof_must):
            return False
        if exp[0] == 'exc' and op[0] != 'bad':
            return False  # both raised DelimiterError: the history stops here (not a failure)
        return True

    def do_delimit(self, L, op, pth):
        d, sub, end = op[1], op[2], op[3]
        rest = L.cur.D[L.cur.p :]
        i = rest.find(d)
        content = rest[:i] if i >= 0 else rest
        try:
            child = L.r.delimit(d)
        except Exception as e:
            self.fail(self.ob_ret, L, pth, op, ('exc', type(e).__name__, repr(e)), ('ret', '<child reader>'), None)
            return False
        C = Lv(child, Cur(content), None if self.is_async else child._max_bytes_remaining, L, i < 0)
        if not self.run_ops(C, sub, pth):
            return False
        # the child pulls lazily from the parent: always drain it before touching the parent
        endop = ('exhaust',) if end == 'exhaust' else ('read', -1)
        if not self.step(C, endop, pth + (len(sub),)):
            return False
        L.cur.p += len(content)  # parent is now AT the delimiter (or at the end of D)
        return self.post(L, op, pth, False, False)

    def post(self, L, op, pth, nf, eof_must):
        if self.is_async:
            return self.post_async(L, op, pth, nf, eof_must)
        return self.post_sync(L, op, pth)

    def post_sync(self, L, op, pth):
        X = L
        own = True
        while X is not None:
            r = X.r
            bp = r._buffer_pos
            bl = r._buffer_len
            mr = r._max_bytes_remaining
            if not (0 <= bp <= bl == len(r._buffer) and mr >= 0):
                short = X.declared > len(X.cur.D)
                known = bp > bl and mr == 0 and short and not (own and op[0] in ('peek', 'bad'))
                self.fail(
                    OB_KNOWN_SYNC if known else OB_SYNC_INV,
                    L,
                    pth,
                    op,
                    None,
                    None,
                    {
                        'violated_on_reader_depth': X.depth,
                        '_buffer_pos': bp,
                        '_buffer_len': bl,
                        'len(_buffer)': len(r._buffer),
                        '_max_bytes_remaining': mr,
                        'declared_max_stream_len_of_that_reader': X.declared,
                        'actual_content_len_of_that_reader': len(X.cur.D),
                    },
                )
                return False
            X = X.parent
            own = False
        if self.src.viol:
            self.fail(OB_SRC, L, pth, op, None, None, {'violations': self.src.viol[:3], 'source_calls': self.src.calls[:40]})
            return False
        return True

    def post_async(self, L, op, pth, nf, eof_must):
        X = L
        while X is not None:
            r = X.r
            if not (0 <= r._buffer_pos <= r._buffer_len == len(r._buffer)):
                self.fail(
                    OB_ASYNC_INV,
                    L,
                    pth,
                    op,
                    None,
                    None,
                    {
                        'violated_on_reader_depth': X.depth,
                        '_buffer_pos': r._buffer_pos,
                        '_buffer_len': r._buffer_len,
                        'len(_buffer)': len(r._buffer),
                    },
                )
                return False
            X = X.parent
        r = L.r
        cur = L.cur
        # signature of the known defect: a delimited op whose delimiter is NOT in rest, the
        # source has run out, and the reader still buffers more bytes than remain after the cursor
        left = r._buffer_len - r._buffer_pos
        if nf and r._exhausted and left > len(cur.D) - cur.p:
            self.fail(
                OB_KNOWN_ASYNC,
                L,
                pth,
                op,
                None,
                None,
                {
                    'on_reader_depth': L.depth,
                    'unconsumed_buffered_bytes': left,
                    'bytes_remaining_after_cursor': len(cur.D) - cur.p,
                    'tell()': r.tell(),
                    'cursor_p': cur.p,
                    'op_ran_to_end_of_D': cur.p == len(cur.D),
                },
            )
            return False
        Y = L
        X = L.parent
        while X is not None:
            # all of X's rest belongs to child Y (delimiter not found) and Y's source ran out
            if Y.nf and Y.r._exhausted and X.r._buffer_len - X.r._buffer_pos > 0:
                self.fail(
                    OB_KNOWN_ASYNC,
                    L,
                    pth,
                    op,
                    None,
                    None,
                    {
                        'on_reader_depth': X.depth,
                        'via_child_depth': Y.depth,
                        'unconsumed_buffered_bytes': X.r._buffer_len - X.r._buffer_pos,
                        'bytes_remaining_after_cursor': 0,
                        'tell()': X.r.tell(),
                        'cursor_p': len(X.cur.D),
                        'op_ran_to_end_of_D': True,
                    },
                )
                return False
            Y = X
            X = X.parent
        t = r.tell()
        if t != cur.p:
            self.fail(OB_TELL, L, pth, op, t, cur.p, {'on_reader_depth': L.depth}, nf)
            return False
        e = r.eof
        if e and cur.p != len(cur.D):
            self.fail(OB_EOF, L, pth, op, True, False, {'why': 'eof claimed early', 'cursor_p': cur.p, 'len_D': len(cur.D), 'on_reader_depth': L.depth}, nf)
            return False
        if eof_must and not e:
            self.fail(OB_EOF, L, pth, op, False, True, {'why': 'eof not reported at end of stream', 'on_reader_depth': L.depth}, nf)
            return False
        return True

    def probe_hits(self, pth):
        """Re-run the current history on the Probe subclass; hits observed during op `pth`."""
        sub = Runner('async')
        sub.probing = True
        sub.reader_cls = Probe
        Probe.hits = []
        try:
            sub.run(self.cfg, self.history)
        except (RetryHistory, StopUnit):
            pass
        return [h for h in Probe.hits if h[0] == pth]

    def fail(self, ob, L, pth, op, got, exp, detail, nf=False):
        if self.probing:
            return
        if self.is_async and ob in (OB_ASYNC_RET, OB_TELL, OB_EOF):
            # Same known defect, different symptom?  Only if the reference says the delimiter is
            # NOT in rest (for this op, or for the delimit() that created this reader or an
            # ancestor) AND the defect's mechanism is observed during this very op.
            X = L
            while X is not None and not nf:
                nf = X.nf
                X = X.parent
            if nf:
                hits = self.probe_hits(pth)
                if hits:
                    detail = {
                        'symptom_obligation': ob,
                        'symptom_detail': detail,
                        'mechanism_observed_during_this_op': [
                            {'_iter_delimited_yielded_bytes': h[1], 'position_advanced_by': h[2]} for h in hits[:3]
                        ],
                    }
                    ob = OB_KNOWN_ASYNC
        self.counts[ob] = self.counts.get(ob, 0) + 1
        lst = self.fails.setdefault(ob, [])
        data, cs, chunking, max_len = self.cfg
        key = (len(data), len(self.history), len(pth))
        if len(lst) >= KEEP_PER_OBLIGATION:
            # keep the smallest witnesses (first found among equals)
            worst = max(range(len(lst)), key=lambda j: (lst[j]['_key'], j))
            if key >= lst[worst]['_key']:
                return
            del lst[worst]
        inp = {
            'reader': 'falcon.asgi.reader.BufferedReader' if self.is_async else 'falcon.util.reader.BufferedReader',
            'data': jb(data),
            'chunk_size': cs,
            'history': [op_json(o) for o in self.history],
            'failing_op_index': list(pth),
            'failing_op': op_json(op),
            'failing_op_on_reader_depth': L.depth,
            'got': jb(got),
            'expected': jb(exp),
        }
        if self.is_async:
            inp['chunking'] = jb(list(chunking))
        else:
            inp['max_len'] = max_len
            inp['chunking'] = {'per_call_caps': list(chunking[0]), 'then_cap': chunking[1] or 'full'}
            inp['source_calls'] = self.src.calls[:40]
        if detail is not None:
            inp['detail'] = jb(detail)
        lst.append({'obligation': ob, 'input': inp, '_key': key})


# --------------------------------------------------------------------------
# Enumeration building blocks
# --------------------------------------------------------------------------

EXTRA_DELIMS = (b'\r', b'x\n', b'\n\r\n', b'\r\n\r')  # used by the random strata only


def delims_for(cs, extra=False):
    pool = DELIMS + EXTRA_DELIMS if extra else DELIMS
    return [d for d in pool if len(d) <= cs]


def all_data(n):
    out = [b'']
    for _ in range(n):
        out = [x + a for x in out for a in ALPHABET]
    return out


def compositions(n):
    if n == 0:
        return [()]
    out = []
    for mask in range(1 << (n - 1)):
        comp = []
        run = 1
        for bit in range(n - 1):
            if mask >> bit & 1:
                comp.append(run)
                run = 1
            else:
                run += 1
        comp.append(run)
        out.append(tuple(comp))
    return out


def split(data, comp):
    out = []
    i = 0
    for k in comp:
        out.append(data[i : i + k])
        i += k
    return tuple(out)


def with_gaps(pieces):
    out = [b'']
    for p in pieces:
        out.append(p)
        out.append(b'')
    return tuple(out)


def dedupe(seq):
    seen = set()
    out = []
    for x in seq:
        if x not in seen:
            seen.add(x)
            out.append(x)
    return out


def async_chunkings_all(data, mode):
    out = []
    single_empties = mode == 'full'
    for comp in compositions(len(data)):
        pieces = split(data, comp)
        out.append(pieces)
        if (
            mode in ('full', 'reduced')
            or (mode == 'exact' and (len(comp) <= 2 or len(comp) == len(data)))
            or (mode == 'min' and (len(comp) == 1 or len(comp) == len(data)))
        ):
            out.append(with_gaps(pieces))
        if single_empties:
            for j in range(len(pieces) + 1):
                out.append(pieces[:j] + (b'',) + pieces[j:])
    return dedupe(out)


def sync_chunkings_all(n):
    # every composition of the source length as per-call caps (then uncapped) + always-1-byte;
    # the one-part composition is "always full"
    return dedupe([(comp, 0) for comp in compositions(n)] + [((), 1)]) if n else [((), 0)]


def max_len_variants(n):
    return dedupe([n, n + 3, max(n - 2, 0)])


def async_cover(data):
    n = len(data)
    base = [(data,), tuple(data[i : i + 1] for i in range(n))]
    base += [(data[:k], data[k:]) for k in range(1, n)]
    for d in DELIMS:
        if len(d) < 2:
            continue
        i = data.find(d)
        while i >= 0:
            pieces = (data[:i],) + tuple(d[j : j + 1] for j in range(len(d))) + (data[i + len(d) :],)
            base.append(tuple(p for p in pieces if p))
            i = data.find(d, i + 1)
    out = []
    for c in dedupe(base):
        out.append(c)
        out.append(with_gaps(c))
    return out


def sync_cover(n):
    return [((), 0), ((), 1), ((), 2), ((), 3)] + [((k,), 0) for k in range(1, n)]


def compact_alphabet(kind, cs, d):
    d2 = b'\n' if d != b'\n' else b'\r'
    ops = [('read', None)] + [('read', n) for n in dedupe([1, cs, cs + 1])]
    ops += [('peek', -1)] + ([('peek', 1)] if cs > 1 else [])
    ops += [('ru', d, -1, False), ('ru', d, -1, True), ('ru', d, cs, False), ('ru', d, 1, True)]
    ops += [('pipe', True), ('pu', d, True, False), ('pu', d, True, True), ('exhaust',)]
    ops += [
        ('delimit', d, (('read', 1),), 'exhaust'),
        ('delimit', d, (), 'read'),
        ('delimit', d, (('delimit', d2, (('read', 1),), 'read'),), 'exhaust'),
    ]
    ops += [('bad', b'x' * (cs + 1))]
    if kind == 'sync':
        ops += [('readline', -1), ('readline', cs), ('readlines', -1)]
    else:
        ops += [('readall',), ('iterate',)]
    return ops


def rand_size(rng, cs, p_unbounded):
    if rng.random() < p_unbounded:
        return rng.choice((None, -1))
    return rng.choice((0, 1, max(cs - 1, 0), cs, cs + 1, 2 * cs + 1))


def rand_op(rng, kind, cs, depth, state):
    """One random op over the full op alphabet; state['iter'] guards the single `async for`."""
    ds = delims_for(cs, True)
    while True:
        x = rng.random() * 100
        if x < 22:
            return ('read', rand_size(rng, cs, 0.12))
        if x < 32:
            return ('peek', rng.choice((-1, 0, 1, cs, cs + 1)))
        if x < 54:
            return ('ru', rng.choice(ds), rand_size(rng, cs, 0.5), rng.random() < 0.4)
        if x < 62:
            return ('pu', rng.choice(ds), rng.random() < 0.8, rng.random() < 0.4)
        if x < 64:
            return ('pipe', rng.random() < 0.7)
        if x < 66:
            return ('exhaust',)
        if x < 68:
            return ('bad', rng.choice((b'', b'\n' * (cs + 1), b'\r\n' * cs)))
        if x < 84:
            if depth >= 2:
                continue
            sub_state = {'iter': False}
            sub = tuple(rand_op(rng, kind, cs, depth + 1, sub_state) for _ in range(rng.choice((0, 1, 1, 2, 2, 3))))
            return ('delimit', rng.choice(ds), sub, rng.choice(('exhaust', 'read')))
        if kind == 'sync':
            if x < 95:
                return ('readline', rand_size(rng, cs, 0.5))
            return ('readlines', rng.choice((-1, -1, 0, 1, cs, 2 * cs + 1)))
        if x < 90:
            return ('readall',)
        if not state['iter']:
            state['iter'] = True
            return ('iterate',)


def rand_history(rng, kind, cs, lo, hi):
    state = {'iter': False}
    return tuple(rand_op(rng, kind, cs, 0, state) for _ in range(rng.randint(lo, hi)))


def unit_rng(seed, *key):
    return random.Random(zlib.crc32(repr((seed,) + key).encode()))


# --------------------------------------------------------------------------
# Work units (each is regenerated inside the worker from a small tuple)
# --------------------------------------------------------------------------


def dfs(runner, cfg, alphabet, prefix, maxlen):
    ok = runner.run(cfg, prefix)
    if ok and len(prefix) < maxlen:
        for op in alphabet:
            if op[0] == 'iterate' and op in prefix:
                continue  # `async for` at most once per reader
            dfs(runner, cfg, alphabet, prefix + (op,), maxlen)


def unit_seeds(runner, kind):
    if kind == 'async':
        hello = b'hello world'
        runner.run((hello, 8, (hello,), None), (('ru', b'\r\n', -1, False), ('read', -1)))
        runner.run((hello, 8, (hello,), None), (('ru', b'\r\n', 5, False), ('read', -1)))
        runner.run((hello, 8, (b'hello', b' world'), None), (('delimit', b'\r\n', (('read', 3),), 'exhaust'), ('read', -1)))
        runner.run((b'ab\r\ncd', 8, (b'ab\r', b'\ncd'), None), (('ru', b'\r\n', -1, True), ('read', -1)))
    else:
        runner.run((b'a', 4, ((), 0), 10), (('read', 3),))
        runner.run((b'a', 4, ((), 0), 1), (('read', 3), ('delimit', b'--', (('ru', b'abc', -1, False),), 'exhaust')))
        runner.run((b'a\nbbbb', 4, ((), 0), 6), (('delimit', b'\n', (('read', 3),), 'exhaust'), ('read', -1)))
        runner.run((b'ab\r\ncd', 3, ((), 1), 6), (('ru', b'\r\n', -1, True), ('readline', -1)))


def unit_a(runner, kind, data, cs, hist, mode, multibyte_only):
    # mode: 'full' | 'reduced' | 'exact' | 'min' | 'inexact' (see A_MODES)
    n = len(data)
    if kind == 'async':
        if mode == 'inexact':
            return
        cfgs = [(data, cs, ch, None) for ch in async_chunkings_all(data, mode)]
    else:
        cfgs = []
        for ml in max_len_variants(n):
            if (mode in ('exact', 'min') and ml != n) or (mode == 'inexact' and ml == n):
                continue
            for ch in sync_chunkings_all(n):
                if mode == 'full' or ml == n or len(ch[0]) <= 2:
                    cfgs.append((data, cs, ch, ml))
    for d in delims_for(cs):
        if multibyte_only and cs >= 2 and len(d) < 2:
            continue
        alphabet = compact_alphabet(kind, cs, d)
        for cfg in cfgs:
            for op in alphabet:
                dfs(runner, cfg, alphabet, (op,), hist)


def unit_b(runner, kind, data, per_cfg, seed):
    rng = unit_rng(seed, 'b', kind, data)
    if kind == 'async':
        base = [(ch, None) for ch in async_cover(data)]
    else:
        base = [(ch, ml) for ml in max_len_variants(len(data)) for ch in sync_cover(len(data))]
    for ch, ml in base:
        for cs in range(1, MAX_CS + 1):
            for _ in range(per_cfg):
                runner.run((data, cs, ch, ml), rand_history(rng, kind, cs, 1, 3))


def rand_data(rng, maxlen):
    n = rng.choice(range(maxlen + 1)) if rng.random() < 0.3 else rng.randint(max(maxlen - 4, 0), maxlen)
    out = bytearray(rng.choice(b'\r\n\nxx') for _ in range(n))
    if n >= 2 and rng.random() < 0.5:
        d = rng.choice(DELIMS + EXTRA_DELIMS)
        if len(d) <= n:
            i = rng.randint(0, n - len(d))
            out[i : i + len(d)] = d
    return bytes(out)


def unit_c(runner, kind, block, count, maxlen, seed):
    rng = unit_rng(seed, 'c', kind, block)
    for _ in range(count):
        data = rand_data(rng, maxlen)
        cs = rng.randint(1, MAX_CS)
        n = len(data)
        if kind == 'async':
            pieces = []
            i = 0
            pcut = rng.choice((0.15, 0.4, 0.8, 1.0))
            pempty = rng.choice((0.0, 0.2, 0.5))
            for j in range(1, n + 1):
                if j == n or rng.random() < pcut:
                    while rng.random() < pempty:
                        pieces.append(b'')
                    pieces.append(data[i:j])
                    i = j
            while rng.random() < pempty:
                pieces.append(b'')
            cfg = (data, cs, tuple(pieces), None)
        else:
            plan = tuple(rng.randint(1, 4) for _ in range(rng.choice((0, 0, 1, 2, 4, 8))))
            x = rng.random()
            ml = n if x < 0.6 else (n + 3 if x < 0.8 else max(n - 2, 0))
            cfg = (data, cs, (plan, rng.choice((0, 0, 1, 2, 3))), ml)
        runner.run(cfg, rand_history(rng, kind, cs, 5, 8))


def run_unit(arg):
    index, unit = arg
    stratum, kind = unit[0], unit[1]
    runner = Runner(kind)
    abandoned = False
    try:
        if stratum == 'seed':
            unit_seeds(runner, kind)
        elif stratum == 'a':
            unit_a(runner, kind, *unit[2:])
        elif stratum == 'b':
            unit_b(runner, kind, *unit[2:])
        else:
            unit_c(runner, kind, *unit[2:])
    except StopUnit:
        abandoned = True
    finally:
        signal.setitimer(signal.ITIMER_REAL, 0)
    return index, stratum, kind, runner.cases, runner.fails, runner.counts, abandoned


def _init_worker():
    signal.signal(signal.SIGALRM, _on_alarm)
    # a watchdog expiry can abandon a coroutine object that was created but not yet started
    warnings.filterwarnings('ignore', message='coroutine .* was never awaited', category=RuntimeWarning)


# --------------------------------------------------------------------------
# Tiers
# --------------------------------------------------------------------------

TIERS = {
    # a: list of (min data len, max data len, max history length, mode from A_MODES,
    #             skip the 1-byte delimiter when chunk_size >= 2?)
    # b: (min data len, max data len, random histories per (data, chunking, chunk size[, max_len]))
    # c: (number of random long histories per reader, max data len)
    'quick': {'a': [(0, 3, 2, 'full', False), (4, 4, 2, 'exact', True), (4, 4, 1, 'inexact', False)], 'b': (5, 7, 1), 'c': (150000, 7)},
    'thorough': {
        'a': [(0, 3, 3, 'full', False), (4, 4, 3, 'min', True), (4, 4, 2, 'inexact', False), (5, 5, 2, 'exact', True), (5, 5, 1, 'inexact', False)],
        'b': (5, 9, 1),
        'c': (1500000, 9),
    },
}
C_BLOCK = 2500
A_MODES = {
    'async': {
        'full': 'every composition of the data into non-empty consecutive chunks, each also with an empty chunk in every gap (front, between, end) '
        'and with a single empty chunk inserted at each position',
        'reduced': 'every composition of the data into non-empty consecutive chunks, each also with an empty chunk in every gap (front, between, end)',
        'exact': 'every composition of the data into non-empty consecutive chunks; the compositions with <= 2 parts and the all-1-byte one also '
        'with an empty chunk in every gap (front, between, end)',
        'min': 'every composition of the data into non-empty consecutive chunks; the one-chunk and the all-1-byte one also with an empty chunk in '
        'every gap (front, between, end)',
        'inexact': None,
    },
    'sync': {
        'full': 'declared max_stream_len in {len, len+3 (short source), max(len-2,0) (source longer than declared)} x every composition of the '
        'source length as per-call short-read caps (includes always-full) plus always-1-byte',
        'reduced': 'declared max_stream_len = len x every composition of the source length as per-call short-read caps (includes always-full) plus '
        'always-1-byte, and max_stream_len in {len+3, max(len-2,0)} x the compositions with <= 2 parts plus always-1-byte',
        'exact': 'declared max_stream_len = len x every composition of the source length as per-call short-read caps (includes always-full) plus always-1-byte',
        'min': 'declared max_stream_len = len x every composition of the source length as per-call short-read caps (includes always-full) plus always-1-byte',
        'inexact': 'declared max_stream_len in {len+3 (short source), max(len-2,0)} x the compositions of the source length with <= 2 parts plus always-1-byte',
    },
}


def build_units(tier, seed):
    t = TIERS[tier]
    units = []
    for kind in ('sync', 'async'):
        units.append(('seed', kind))
        for lo, hi, hist, mode, multibyte_only in t['a']:
            if A_MODES[kind][mode] is None:
                continue
            for data in all_data_range(lo, hi):
                for cs in range(1, MAX_CS + 1):
                    units.append(('a', kind, data, cs, hist, mode, multibyte_only))
        lo, hi, per_cfg = t['b']
        for data in all_data_range(lo, hi):
            units.append(('b', kind, data, per_cfg, seed))
        total, maxlen = t['c']
        for block in range((total + C_BLOCK - 1) // C_BLOCK):
            units.append(('c', kind, block, min(C_BLOCK, total - block * C_BLOCK), maxlen, seed))
    return units


def all_data_range(lo, hi):
    out = []
    cur = [b'']
    for n in range(hi + 1):
        if n >= lo:
            out.extend(cur)
        cur = [x + a for x in cur for a in ALPHABET]
    return out


def unit_cost(u):
    if u[0] == 'a':
        n = len(u[2])
        return (2 ** n) * (25 ** u[4]) * u[3] * ({'full': 3, 'reduced': 2, 'exact': 1, 'min': 1, 'inexact': 1}[u[5]] if u[1] == 'sync' else 2)
    if u[0] == 'b':
        return 100 * len(u[2]) * u[3]
    if u[0] == 'c':
        return u[3] * 3
    return 1


def bound_text(tier, seed, kind, strata_cases):
    t = TIERS[tier]
    a_parts = []
    for lo, hi, hist, mode, multibyte_only in t['a']:
        ch = A_MODES[kind][mode]
        if ch is None:
            continue
        if multibyte_only:
            ch += ' [in this sub-stratum the 1-byte delimiter LF is used only with chunk_size 1]'
        a_parts.append(
            'ALL data of length %d..%d over {CR,LF,x} x %s x chunk_size 1..4 x every delimiter of length <= chunk_size from '
            '[LF, CRLF, LFLF, CRCRLF, CRLFCRLF] x ALL histories of length 1..%d (a history is not extended past a DelimiterError) over the compact op alphabet'
            % (lo, hi, ch, hist)
        )
    compact = (
        'compact op alphabet (cs=chunk_size, d=the configuration delimiter): read(None), read(1), read(cs), read(cs+1), peek(-1), peek(1), '
        'read_until(d), read_until(d,consume), read_until(d,size=cs), read_until(d,size=1,consume), pipe(sink), pipe_until(d,sink), '
        'pipe_until(d,sink,consume), exhaust, delimit(d)[read(1); exhaust], delimit(d)[read() to end], '
        'delimit(d)[delimit(d2)[read(1); read() to end]; exhaust], read_until(<delimiter of length cs+1>) -> ValueError, '
        + ('readline(), readline(cs), readlines()' if kind == 'sync' else 'readall(), async-for iteration (once)')
    )
    lo, hi, per_cfg = t['b']
    if kind == 'async':
        bch = 'covering chunkings (one chunk, all 1-byte chunks, every 2-piece split, every occurrence of a multi-byte delimiter split byte-by-byte; each with and without empty chunks in every gap)'
    else:
        bch = 'max_stream_len in {len, len+3, len-2} x covering short-read plans (always-full, always<=1, always<=2, always<=3, first read capped at k for k=1..len-1)'
    total, maxlen = t['c']
    return (
        'tier=%s seed=%d. Stratum A (exhaustive): %s; %s. [%d cases]. '
        'Stratum B (covering + seeded sample): ALL data of length %d..%d x %s x chunk_size 1..4 x %d seeded-random histor%s of length 1..3 '
        'over the full op alphabet (sizes 0,1,cs-1,cs,cs+1,2cs+1,None,-1; peek -1,0,1,cs,cs+1; read_until/pipe_until with/without consume, '
        'size cap, destination; pipe with/without destination; empty and over-long delimiters; readline/readlines(hint) [sync]; readall/iterate [async]; '
        'delimit nested to depth 2 with child sub-histories of 0..3 ops, child always drained by exhaust() or read(); delimiters of length <= cs from '
        '[LF, CRLF, LFLF, CRCRLF, CRLFCRLF, CR, xLF, LFCRLF, CRLFCR]) [%d cases]. '
        'Stratum C (seeded random): %d histories of length 5..8 over the full op alphabet on random data of length 0..%d, random chunk_size 1..4, '
        'random chunking (%s) [%d cases]. Stratum S: %d explicit seed cases (the known witnesses). '
        'Every history (hence every op in it) runs under a %.0f s interval-timer watchdog; an expiry is re-run on a fresh reader and reported only if reproduced. '
        'After every op: result/exception, white-box buffer invariant%s.'
        % (
            tier,
            seed,
            ' PLUS '.join(a_parts),
            compact,
            strata_cases.get('a', 0),
            lo,
            hi,
            bch,
            per_cfg,
            'y' if per_cfg == 1 else 'ies',
            strata_cases.get('b', 0),
            total,
            maxlen,
            'random cut points, random runs of empty chunks' if kind == 'async' else 'random per-call caps 1..4, random tail cap, random max_stream_len variant',
            strata_cases.get('c', 0),
            strata_cases.get('seed', 0),
            WATCHDOG_S,
            ', tell() and eof' if kind == 'async' else ', _max_bytes_remaining >= 0, source never asked for n <= 0 or beyond the declared length',
        )
    )


def main(argv):
    tier = argv[1]
    seed = int(argv[2])
    units = build_units(tier, seed)
    order = sorted(range(len(units)), key=lambda i: -unit_cost(units[i]))
    ctx = mp.get_context('fork')
    with ctx.Pool(16, initializer=_init_worker) as pool:
        results = list(pool.imap_unordered(run_unit, [(i, units[i]) for i in order], chunksize=1))
    results.sort(key=lambda r: r[0])
    out = []
    for kind, name in (('sync', NAME_SYNC), ('async', NAME_ASYNC)):
        cases = 0
        strata = {}
        counts = {}
        fails = {}
        abandoned = 0
        for _, stratum, k, n, f, c, ab in results:
            if k != kind:
                continue
            cases += n
            strata[stratum] = strata.get(stratum, 0) + n
            abandoned += ab
            for ob, m in c.items():
                counts[ob] = counts.get(ob, 0) + m
            for ob, lst in f.items():
                fails.setdefault(ob, []).extend(lst)
        failures = []
        for ob in sorted(fails):
            lst = sorted(fails[ob], key=lambda x: x['_key'])[:KEEP_PER_OBLIGATION]
            for x in lst:
                failures.append({'obligation': x['obligation'], 'input': x['input']})
        out.append(
            {
                'name': name,
                'bound': bound_text(tier, seed, kind, strata),
                'cases': cases,
                'failures': failures,
                'failure_counts': {ob: counts[ob] for ob in sorted(counts)},
                'cases_per_stratum': strata,
                'units_abandoned_after_%d_hangs' % MAX_HANGS_PER_UNIT: abandoned,
            }
        )
    json.dump(out, sys.stdout)
    sys.stdout.write('\n')


if __name__ == '__main__':
    main(sys.argv)
'''

# ---------------------------------------------------------------------------
# kill matrix (file relative to the repository root, old text occurring exactly once, new text, expected obligation substring)

_U = 'falcon/util/reader.py'
_A = 'falcon/asgi/reader.py'
KILLS = [
    # the budget is not reduced by what the source delivered
    (_U, "        self._max_bytes_remaining -= chunk_len\n        if chunk_len == size:\n", "        if chunk_len == size:\n",
     '_perform_read#budget-deducts-the-returned-bytes'),
    # a slice bound off by one when dishing from the buffer
    (_U, "            return self._buffer[self._buffer_pos - size : self._buffer_pos]\n", "            return self._buffer[self._buffer_pos - size + 1 : self._buffer_pos]\n",
     '_read#returns-the-next-bytes-of-the-view'),
    # _buffer_pos not reset after the buffer was replaced by its unread tail
    (_U, "                    read_size\n                )\n                self._buffer_pos = 0\n", "                    read_size\n                )\n",
     '_fill_buffer#view-unchanged'),
    # _buffer_len not updated after a refill
    (_U, "        self._buffer = self._perform_read(self._chunk_size)\n        self._buffer_len = len(self._buffer)\n", "        self._buffer = self._perform_read(self._chunk_size)\n",
     '_read#invariant-buffer-len-is-len-of-buffer'),
    # peek consumes what it returns
    (_U, "        return self._buffer[self._buffer_pos : self._buffer_pos + size]\n",
     "        self._buffer_pos += size\n        return self._buffer[self._buffer_pos - size : self._buffer_pos]\n", 'peek#view-unchanged'),
    # the chunk-border fragment is one byte too short: a delimiter straddling two chunks is missed
    (_U, "                offset = max(self._buffer_len - delimiter_len_1, self._buffer_pos)\n",
     "                offset = max(self._buffer_len - delimiter_len_1 + 1, self._buffer_pos)\n", '_read_until#'),
    # the size cap ignores the buffer position
    (_U, "            size = min(size, have_bytes + delimiter_pos - self._buffer_pos)\n", "            size = min(size, have_bytes + delimiter_pos)\n", '_read_until#'),
    # pipe_until skips one byte too few when consuming the delimiter
    (_U, "            self._buffer_pos += delimiter_len\n", "            self._buffer_pos += delimiter_len - 1\n", 'pipe_until#view-advances-by-the-piped-bytes-plus-the-consumed-delimiter'),
    # readline reads past the size cap
    (_U, "        if len(result) < size:\n", "        if len(result) <= size:\n", 'readline#'),
    # exhaust reads a single chunk only
    (_U, "    def exhaust(self) -> None:\n        self.pipe()\n", "    def exhaust(self) -> None:\n        self.read(self._chunk_size)\n", 'exhaust#leaves-the-view-empty'),
    # --- async reader
    (_A, "        self._buffer_len -= self._buffer_pos\n", "", '_trim_buffer#invariant-buffer-len-is-len-of-buffer'),
    (_A, "            offset = self._buffer_len - delimiter_len_1\n", "            offset = self._buffer_len - delimiter_len_1 + 1\n", '_iter_delimited#'),
    (_A, "                    result.append(chunk[:remaining])\n                    self._prepend_buffer(chunk[remaining:])\n",
     "                    result.append(chunk[:remaining])\n                    self._prepend_buffer(chunk[remaining + 1 :])\n", '_read_from#'),
    (_A, "        return self._consumed - (self._buffer_len - self._buffer_pos)\n", "        return self._consumed - self._buffer_len\n", 'tell#tell-is-the-number-of-bytes-handed-out'),
    (_A, "        if chunk:\n            self._consumed += len(chunk)\n", "        if chunk:\n", '_iter_normalized#'),
    (_A, "                    buffer_pos = self._buffer_pos\n                    self._buffer_pos += size_hint\n                    yield self._buffer[buffer_pos : self._buffer_pos]\n                buffer_pos = self._buffer_pos\n                self._buffer_pos = pos\n",
     "                    buffer_pos = self._buffer_pos\n                    yield self._buffer[buffer_pos : buffer_pos + size_hint]\n                buffer_pos = self._buffer_pos\n                self._buffer_pos = pos\n",
     '_iter_delimited#at-every-yield-the-yielded-bytes-are-removed-from-the-view'),
]
HARMLESS = [
    # `>=` -> `>` in the pass-through test: for size == chunk_size with an empty buffer the next branch does exactly the same
    (_U, "        if self._buffer_len == 0 and size >= self._chunk_size:\n", "        if self._buffer_len == 0 and size > self._chunk_size:\n"),
    # rename a local, reorder two independent statements
    (_U, "        read_size = size - (self._buffer_len - self._buffer_pos)\n        result = self._buffer[self._buffer_pos :]\n",
     "        head = self._buffer[self._buffer_pos :]\n        read_size = size - (self._buffer_len - self._buffer_pos)\n        result = head\n"),
    (_A, "        self._buffer = self._buffer[self._buffer_pos :]\n        self._buffer_len -= self._buffer_pos\n",
     "        self._buffer_len -= self._buffer_pos\n        self._buffer = self._buffer[self._buffer_pos :]\n"),
]


ASSUMPTIONS = [
    'sync source contract (io.RawIOBase.read / wsgi.input.read): read(n) with n > 0 returns a prefix of what the source still holds, of length <= n, '
    'empty only at the end of the source; nobody else reads from the source while the reader is in use',
    'size arguments of the public operations are None, -1 or >= 0 (other negative sizes are outside the property: read(-2) is not a cursor operation)',
    'delimiters are bytes; one delimiter per operation; lengths outside 1..chunk_size are shown to raise ValueError before anything is consumed',
    'async: the user source is an async iterable of bytes items (any lengths, empty ones included); what the consumers of self._source may assume '
    '(non-empty chunks, all but the last >= chunk_size, _consumed counts them, _exhausted set at the end) is PROVED of _iter_normalized (a_iter_normalized)',
    'modular reasoning: callers of sync _read rely on its post-condition including the clause `_read#invariant-buffer-pos-within-buffer`, and the async public '
    'operations rely on the per-yield contract of _iter_delimited including `_iter_delimited#yielded-bytes-are-consumed`; both clauses are REFUTED on the '
    'unchanged tree (genuine defects, reported once, at their root) -- everything downstream is proved modulo these two findings',
    'a delimited sub-reader is the only user of its parent until it is exhausted (multipart usage); then the parent stands at the delimiter',
    'chunk_size >= 1 (established by both __init__: proved)',
]
NOT_DECIDED = [
    'falcon/cyutil/reader.pyx (what falcon.util.BufferedReader is when the compiled twin is present): Cython source, out of reach of the executor -- '
    'neither proved nor covered by the bounded stand-in (which imports the pure-Python class)',
    'termination of any operation (partial correctness only).  The sync defect found by proof (`_read` leaves _buffer_pos > _buffer_len after a short refill) '
    'makes `sub = r.delimit(d); sub.read_until(e)` spin forever -- the bounded stand-in runs every operation under a watchdog',
    'async: the composition of SUSPENDED generators with their consumers is proved modularly -- (1) each generator, run alone, keeps "at every yield exactly the '
    'yielded bytes are removed from the view" (deductive, yield hook); (2) _read_from / pipe / pipe_until / read / readall / read_until are proved against ANY '
    'generator keeping that contract (stub ViewGen with effects at fetch time = lazy semantics).  The remaining meta-step -- a suspended generator is only ever '
    'resumed when nobody touched the reader in between (_read_from calls _prepend_buffer only right before abandoning the generator) -- is by inspection; '
    'the bounded stand-in covers it',
    'delimit (sync and async): construction of the sub-reader and the source contract of its source (read_until(d, n): `empty-result-only-at-the-delimiter-or-at-the-end`, '
    '_iter_delimited: chunks concatenate to the view up to the first delimiter) are proved; that the sub-reader then is a flat cursor over V[:first delimiter] follows by '
    'instantiating the reader contracts with that source (on paper); nested readers are exercised by the bounded stand-in only',
    'readlines: proved on the list summary (concatenation of the lines = next bytes of the view, stop conditions); that every single element is one line is not stated',
    'async size_hint: only its harmlessness (chunking differs, content does not) is proved, not that the first chunk has the hinted size',
    'a string-level cross-check (Part A: bytes as SMT strings, cvc5) is kept for _perform_read only; for _fill_buffer/peek/_read/read it was run during development '
    '(all discharged by cvc5 except the _read finding, but some obligations need 10-20 s) and dropped in favour of the window-domain proofs (Part B/C)',
]
TRUSTED = [
    'the window domain (classes World, Win, Delim, WinList in contracts/C14_readers.py): bytes values as index pairs into one prophecy string, concatenation = adjacency '
    '(checked at every concatenation), bytes.find via the uninterpreted first-occurrence function with ground instances of its defining property',
    'ghost stubs ReadFunc / WReadFunc (source callable), ASource / RawSource (async sources), ViewGen (a generator keeping the proved per-yield contract), '
    'GhostBytesIO (io.BytesIO as append-only accumulator), WSink, Partial (functools.partial)',
    'pyvc engine additions used here: LoopSpec.lists accepts a contract-supplied list summary; `__pyvc_for_end__` hook at the exhaustion of a stub iterable',
]
