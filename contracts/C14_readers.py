"""C14 -- buffered readers behave like one flat byte buffer for every chunking.

Sync:  falcon/util/reader.py  BufferedReader   (pure Python; the Cython twin cyutil/reader.pyx is out of reach)
Async: falcon/asgi/reader.py  BufferedReader

Ghost view (sync).  `src` (prophecy) is everything the source callable will still
deliver; the stub `ReadFunc` is a cursor `pos` over it.  The reader's abstract
value is the byte string it can still hand out,

    V(self) = _buffer[_buffer_pos:_buffer_len] ++ src[pos : pos + _max_bytes_remaining]

and every operation is specified as the same operation on a flat cursor over V:
it returns a prefix V[:k] and leaves V[k:] ("consumed data is never returned
twice or skipped").  Representation invariant, assumed at entry and re-proved
(one clause per conjunct) at exit of every operation:

    _buffer_len == len(_buffer)      0 <= _buffer_pos <= _buffer_len      _max_bytes_remaining >= 0

Source contract (io.RawIOBase.read / wsgi.input): read(n) with n > 0 returns a
prefix of the rest of `src` of length <= n, empty only at the end of the source;
the reader must never call it with n <= 0 nor with n > _max_bytes_remaining
("reads never exceed the declared maximum length").

Proof structure (modular).  `_perform_read` is proved against an exact,
deterministic contract (its result does not depend on how the source chunks its
answers); every other function is executed from its source with that contract in
place of `_perform_read` (everything else inlined), loops by invariants.
"""
from __future__ import annotations

import z3

from pyvc.core import And, Iff, Implies, Ite, Joined, Len, Max, Min, Not, Or, SList, SStr, Unreached, cur, is_sym, mk_str, _i, _s
from pyvc.harness import Ready, harness, stubclass
from pyvc.interp import LoopSpec

PROP = 'C14'
SM = 'falcon.util.reader'
SR = SM + ':BufferedReader'
AM = 'falcon.asgi.reader'
AR = AM + ':BufferedReader'


# ---------------------------------------------------------------------------
# helpers that work on symbolic proxies and on plain values


def Sub(s, i, n):
    """s[i : i+n] for i >= 0 (SMT str.substr: clamped at the end, empty when n <= 0)."""
    if not (is_sym(s) or is_sym(i) or is_sym(n)):
        return s[i : i + n] if n > 0 else s[:0]
    return mk_str(z3.SubString(_s(s), _i(i), _i(n)), 'bytes')


def Find(s, sub, start=0):
    """bytes.find(sub, start) for a non-empty sub and start >= 0."""
    if not (is_sym(s) or is_sym(sub) or is_sym(start)):
        return s.find(sub, start)
    if not isinstance(s, SStr):
        s = SStr(_s(s), 'bytes')
    return s.find(sub, start)


# ---------------------------------------------------------------------------
# ghost environment of the sync reader


@stubclass
class ReadFunc:
    """The source callable handed to BufferedReader: a cursor over `src`."""

    def __init__(self, v, src):
        self.v = v
        self.src = src
        self.pos = 0
        self.reader = None
        self.calls = 0

    def __call__(self, n):
        v = self.v
        rem = v.get(self.reader, '_max_bytes_remaining')
        v.check('source-asked-for-a-positive-size-within-the-declared-remaining-length', And(n > 0, n <= rem))
        avail = Len(self.src) - self.pos
        k = v.int('k_read', 0)
        if v.concrete and (k == 0 or k > min(n, avail)):
            k = min(n, avail)  # replay of a path that used the _perform_read contract: any legal chunking will do
        v.assume(And(k <= n, k <= avail, Implies(k == 0, avail == 0)))
        r = self.src[self.pos : self.pos + k]
        self.pos = self.pos + k
        self.calls += 1
        return r


@stubclass
class GhostBytesIO:
    """io.BytesIO used as an append-only accumulator (cursor always at the end)."""

    def __init__(self, initial=b''):
        self.value = initial

    def seek(self, pos, whence=0):
        if whence != 0 or cur().branch(z3.simplify(_i(pos) != _i(Len(self.value))), label='bytesio-seek-not-at-end'):
            raise Unreached('io.BytesIO.seek to a position other than the end of the accumulated value')
        return pos

    def write(self, data):
        self.value = self.value + data if isinstance(self.value, SStr) or not isinstance(data, SStr) else data.__radd__(self.value)
        return Len(data)

    def getvalue(self):
        return self.value


@stubclass
class Sink:
    """A destination with write(): accumulates what was written (ghost)."""

    def __init__(self):
        self.written = b''

    def write(self, data):
        self.written = self.written + data if isinstance(self.written, SStr) or not isinstance(data, SStr) else data.__radd__(self.written)
        return Len(data)


def _bytesio_model(reg):
    import io

    reg.add_model(io.BytesIO, lambda I, *a: GhostBytesIO(*a))


class St:
    pass


def mk(v, rem_positive=None):
    """A sync reader in an arbitrary state satisfying the representation invariant."""
    st = St()
    st.src = v.bytes('src')
    st.cs = v.int('chunk_size', 1)
    st.buf = v.bytes('buf')
    st.bp = v.int('bp', 0)
    st.rem = v.int('rem', 0)
    v.assume(st.bp <= Len(st.buf))
    st.rf = ReadFunc(v, st.src)
    st.s = v.obj(SR, _read_func=st.rf, _chunk_size=st.cs, _max_join_size=st.cs * v.real(SM + ':_MAX_JOIN_CHUNKS'), _buffer=st.buf,
                 _buffer_len=Len(st.buf), _buffer_pos=st.bp, _max_bytes_remaining=st.rem)
    st.rf.reader = st.s
    st.B0 = Sub(st.buf, st.bp, Len(st.buf) - st.bp)
    st.S0 = Sub(st.src, 0, st.rem)
    st.V0 = st.B0 + st.S0
    st.nB = Len(st.buf) - st.bp
    st.nS = Min(st.rem, Len(st.src))
    st.nV = st.nB + st.nS
    return st


def fields(v, s):
    g = lambda n: v.get(s, n)
    return g('_buffer'), g('_buffer_len'), g('_buffer_pos'), g('_max_bytes_remaining'), g('_read_func')


def view(v, s):
    buf, bl, bp, rem, rf = fields(v, s)
    return Sub(buf, bp, bl - bp) + Sub(rf.src, rf.pos, rem)


def check_inv(v, s):
    """The representation invariant, one clause per conjunct."""
    buf, bl, bp, rem, rf = fields(v, s)
    v.check('invariant-buffer-len-is-len-of-buffer', bl == Len(buf))
    v.check('invariant-buffer-pos-within-buffer', And(0 <= bp, bp <= bl))
    v.check('invariant-budget-nonnegative', rem >= 0)


def inv_term(buf, bl, bp, rem, rf):
    return And(bl == Len(buf), 0 <= bp, bp <= bl, rem >= 0, 0 <= rf.pos, rf.pos <= Len(rf.src))


def coupled_term(st, buf, bl, bp, rem, rf, c):
    """The state is the flat cursor over V0 at offset c:  the look-ahead window is V0[c : c+nB], the source cursor
    stands right behind it, and the budget is what is left of the declared length (or 0 once the end of the
    source has been seen).  Implies  V(state) == V0[c:]  (lemma `coupled_implies_view`)."""
    nB = bl - bp
    pos = rf.pos
    return And(
        bl == Len(buf), 0 <= bp, bp <= bl, rem >= 0, c >= 0,
        Sub(buf, bp, nB) == Sub(st.V0, c, nB),
        pos == c + nB - st.nB, 0 <= pos, pos <= Len(st.src), pos <= st.rem,
        Or(rem == st.rem - pos, And(rem == 0, pos == Len(st.src))),
    )


def coupled(v, st, c):
    return coupled_term(st, *fields(v, st.s), c)


def frame_buffer(v, st):
    buf, bl, bp, rem, rf = fields(v, st.s)
    return And(buf == st.buf, bl == Len(st.buf), bp == st.bp)


# ---------------------------------------------------------------------------
# _perform_read: the only function that talks to the source


def _pr_loop(reg, ex):
    ex.check_timeout_ms = 1500
    _bytesio_model(reg)

    def linv(L):
        s = L['self']
        rf = s._read_func
        acc = L['result'].value
        got = rf.pos - rf.pos0
        return And(
            rf.pos0 <= rf.pos, rf.pos <= Len(rf.src),
            acc == Sub(rf.src, rf.pos0, got),
            s._max_bytes_remaining == rf.rem0 - got,
            L['size'] - L['chunk_len'] == rf.m - got,
            L['size'] - L['chunk_len'] >= 0,
        )

    def havoc(ctx, L):
        L['result'].value = ctx.fresh_bytes('hv_acc')
        L['self']._read_func.pos = ctx.fresh_int('hv_pos')

    reg.loops[(SR + '._perform_read', 'while#0')] = LoopSpec(inv=linv, havoc=havoc)


def pr_result(n, rem, src, pos):
    """(#bytes, wanted) delivered by _perform_read(n): min(n, remaining budget) bytes, short only at the end of the source."""
    m = Max(0, Min(n, rem))
    return Min(m, Len(src) - pos), m


@harness(PROP, SR + '._perform_read', setup=_pr_loop)
def perform_read(v):
    st = mk(v)
    s, rf = st.s, st.rf
    pos0 = v.int('pos0', 0)
    v.assume(pos0 <= Len(st.src))
    rf.pos = pos0
    n = v.int('n')
    r, m = pr_result(n, st.rem, st.src, pos0)
    rf.pos0, rf.rem0, rf.m = pos0, st.rem, m
    out = v.call(s, n)
    v.check('no-exception', out.exc is None)
    if out.exc is not None:
        return
    ret = out.value
    buf, bl, bp, rem, _ = fields(v, s)
    v.check('returns-the-next-source-bytes-in-order', ret == Sub(st.src, pos0, Len(ret)))
    v.check('returns-min-of-size-and-budget-short-only-at-end-of-source', Len(ret) == r)
    v.check('source-cursor-advances-by-exactly-the-returned-bytes', rf.pos == pos0 + Len(ret))
    v.check('budget-deducts-the-returned-bytes-and-drops-to-zero-at-end-of-source', rem == Ite(r == m, st.rem - r, 0))
    v.check('never-returns-more-than-the-declared-remaining-length', Len(ret) <= st.rem)
    v.check('buffer-untouched', frame_buffer(v, st))
    check_inv(v, s)
    if m > 0:
        v.cover('reads-from-source')
    if rf.calls >= 2:
        v.cover('loops-on-a-short-read')


def pr_contract(I, self, size):
    """Callee contract of _perform_read (proved by `perform_read` above), exact and deterministic."""
    rf = self._fields['_read_func']
    rem = self._fields['_max_bytes_remaining']
    r, m = pr_result(size, rem, rf.src, rf.pos)
    out = Sub(rf.src, rf.pos, r)
    rf.pos = rf.pos + r
    self._fields['_max_bytes_remaining'] = Ite(r == m, rem - r, 0)
    return out


def _fast(ex, ms=1500):
    """String obligations: give z3 a short in-process budget; what it leaves `unknown` goes to the cvc5 portfolio (parallel)."""
    ex.check_timeout_ms = ms
    ex.branch_timeout_ms = 400
    ex.incremental_timeout_ms = 250


def _with_pr(reg, ex):
    _fast(ex)
    _bytesio_model(reg)
    reg.stubs[SR + '._perform_read'] = pr_contract



# ---------------------------------------------------------------------------
# __init__


@harness(PROP, SR + '.__init__')
def init(v):
    src = v.bytes('src')
    rf = ReadFunc(v, src)
    L = v.int('max_stream_len', 0)
    kind = v.choose(3, 'chunk_size-kind')
    cs = [None, 0, None][kind] if kind < 2 else v.int('chunk_size', 1)
    s = v.obj(SR)
    rf.reader = s
    out = v.call(s, rf, L) if kind == 0 else v.call(s, rf, L, cs)
    v.check('no-exception', out.exc is None)
    if out.exc is not None:
        return
    check_inv(v, s)
    v.check('view-is-the-first-max_stream_len-bytes-of-the-source', view(v, s) == Sub(src, 0, L))
    v.check('source-not-touched', And(rf.pos == 0, rf.calls == 0))
    default = v.real(SM + ':DEFAULT_CHUNK_SIZE')
    v.check('chunk-size-is-the-given-one-or-the-default', v.get(s, '_chunk_size') == (cs if kind == 2 else default))
    v.check('chunk-size-positive', v.get(s, '_chunk_size') >= 1)
    v.check('join-limit-is-a-whole-number-of-chunks', v.get(s, '_max_join_size') == v.get(s, '_chunk_size') * v.real(SM + ':_MAX_JOIN_CHUNKS'))


# ---------------------------------------------------------------------------
# _fill_buffer / peek / _normalize_size / _read / read   (flat cursor over V)


@harness(PROP, SR + '._fill_buffer', setup=_with_pr)
def fill_buffer(v):
    st = mk(v)
    s = st.s
    out = v.call(s)
    v.check('no-exception', out.exc is None)
    if out.exc is not None:
        return
    buf, bl, bp, rem, rf = fields(v, s)
    check_inv(v, s)
    v.check('view-unchanged', view(v, s) == st.V0)
    # afterwards the look-ahead window holds a whole chunk, or everything there is
    v.check('buffered-at-least-a-chunk-or-all-of-the-view', bl - bp == Ite(st.nB >= st.cs, st.nB, Min(st.cs, st.nV)))
    v.check('buffered-bytes-are-a-prefix-of-the-view', Sub(buf, bp, bl - bp) == Sub(st.V0, 0, bl - bp))
    if st.nB < st.cs:
        v.cover('refills')


def peek_size(size, cs):
    return Ite(Or(size < 0, size > cs), cs, size)


@harness(PROP, SR + '.peek', setup=_with_pr, inline=[SR + '._fill_buffer'])
def peek(v):
    st = mk(v)
    s = st.s
    dflt = v.choose(2, 'size-given?')
    size = v.int('size') if dflt else -1
    out = v.call(s, size) if dflt else v.call(s)
    v.check('no-exception', out.exc is None)
    if out.exc is not None:
        return
    n = peek_size(size, st.cs)
    check_inv(v, s)
    v.check('returns-the-next-bytes-of-the-view-up-to-the-clamped-size', out.value == Sub(st.V0, 0, n))
    v.check('length-is-min-of-clamped-size-and-view', Len(out.value) == Min(n, st.nV))
    v.check('view-unchanged', view(v, s) == st.V0)
    v.cover('returns')


def norm_size(size, st):
    mx = st.rem + st.nB
    if size is None:
        return mx
    return Ite(Or(size == -1, size > mx), mx, size)


def size_arg(v, allow_none=True):
    """A size argument of the public API: None, -1 (both: everything) or >= 0."""
    kind = v.choose(3 if allow_none else 2, 'size-kind')
    if kind == 0:
        return -1, kind
    if kind == 1:
        return v.int('size', 0), kind
    return None, kind


@harness(PROP, SR + '._normalize_size')
def normalize_size(v):
    st = mk(v)
    size, kind = size_arg(v)
    out = v.call(st.s, size)
    v.check('no-exception', out.exc is None)
    if out.exc is not None:
        return
    k = out.value
    v.check('state-untouched', And(frame_buffer(v, st), v.get(st.s, '_max_bytes_remaining') == st.rem, st.rf.pos == 0))
    v.check('never-negative', k >= 0)
    v.check('never-more-than-buffered-plus-declared-remaining', k <= st.rem + st.nB)
    if kind == 1:
        v.check('a-given-size-is-only-ever-reduced', k <= size)
        v.check('covers-min-of-size-and-view', k >= Min(size, st.nV))
    else:
        v.check('no-size-means-everything', And(k == st.rem + st.nB, k >= st.nV))


def post_read(v, st, out, k):
    """Flat cursor: returned V0[:k], left V0[k:]."""
    s = st.s
    v.check('no-exception', out.exc is None)
    if out.exc is not None:
        return False
    ret = out.value
    v.check('returns-the-next-bytes-of-the-view', ret == Sub(st.V0, 0, k))
    v.check('length-is-min-of-size-and-view', Len(ret) == Min(k, st.nV))
    v.check('view-advances-by-exactly-the-returned-bytes', view(v, s) == Sub(st.V0, Len(ret), st.nV))
    check_inv(v, s)
    return True


@harness(PROP, SR + '._read', setup=_with_pr)
def _read(v):
    st = mk(v)
    k = v.int('size', 0)
    v.assume(k <= st.rem + st.nB)  # what _normalize_size guarantees (proved above)
    out = v.call(st.s, k)
    if post_read(v, st, out, k):
        if st.nB >= k:
            v.cover('from-buffer')
        elif st.nB == 0:
            if k >= st.cs:
                v.cover('pass-through')
        elif k - st.nB >= st.cs:
            v.cover('buffer-plus-large-read')
        else:
            v.cover('buffer-plus-refill')


@harness(PROP, SR + '.read', setup=_with_pr, inline=[SR + '._normalize_size', SR + '._read'])
def read(v):
    st = mk(v)
    size, kind = size_arg(v)
    dflt = kind == 0 and v.choose(2, 'size-omitted?')
    out = v.call(st.s) if dflt else v.call(st.s, size)
    k = norm_size(size, st)
    if post_read(v, st, out, k):
        if kind != 1:
            v.check('unsized-read-returns-the-whole-view', And(out.value == st.V0, Len(view(v, st.s)) == 0))
        else:
            v.check('sized-read-bounded', Len(out.value) <= size)
        v.cover('returns')


# ---------------------------------------------------------------------------
# _read_until (+ _finalize_read_until, _read, peek, _fill_buffer inlined): delimiter search across chunks

RU_INLINE = [SR + '._finalize_read_until', SR + '._read', SR + '.peek', SR + '._fill_buffer', SR + '._normalize_size']


def _ru_setup(strong):
    def setup(reg, ex):
        _with_pr(reg, ex)

        def linv(L):
            s = L['self']
            rf = s._read_func
            J = Joined(L['result'])
            B = Sub(s._buffer, s._buffer_pos, s._buffer_len - s._buffer_pos)
            S = Sub(rf.src, rf.pos, s._max_bytes_remaining)
            have = L['have_bytes']
            base = And(
                have == Len(J),
                J == Sub(rf.st.V0, 0, have),            # the backlog is what was consumed so far ...
                coupled_term(rf.st, s._buffer, s._buffer_len, s._buffer_pos, s._max_bytes_remaining, rf, have),  # ... and the reader stands right behind it
                have <= L['size'],
            )
            if not strong:
                return base
            # no occurrence of the delimiter starts inside the backlog
            return And(base, Or(rf.i0 < 0, rf.i0 >= have))

        reg.loops[(SR + '._read_until', 'while#0')] = LoopSpec(inv=linv, lists={'result': 'bytes'})

    return setup


def read_until_spec(v, st, delim, size):
    """Flat cursor: stop at the first occurrence of the delimiter, at `size`, or at the end -- whichever comes first."""
    i0 = Find(st.V0, delim)
    return i0, Ite(i0 >= 0, Min(size, i0), Min(size, st.nV))


def post_read_until(v, st, out, delim, size, consume, strong):
    s = st.s
    dl = Len(delim)
    i0, tgt = read_until_spec(v, st, delim, size)
    DelimiterError = v.real('falcon.errors:DelimiterError')
    bad = Or(dl < 1, dl > st.cs)
    v.check('delimiter-length-outside-1..chunk_size-raises-valueerror', Iff(out.exc is not None and out.exc.isa(ValueError), bad))
    if out.exc is not None and out.exc.isa(ValueError):
        v.check('valueerror-consumes-nothing', And(view(v, s) == st.V0, st.rf.pos == 0))
        return
    if out.exc is not None:
        v.check('only-delimiter-error-escapes', And(out.exc.isa(DelimiterError), bool(consume)))
        check_inv(v, s)
        if strong:
            v.check('delimiter-error-only-if-the-bytes-after-the-result-are-not-the-delimiter', Sub(st.V0, tgt, dl) != delim)
        v.cover('delimiter-error')
        return
    ret = out.value
    n = Len(ret)
    c = dl if consume else 0
    v.check('returns-the-next-bytes-of-the-view', ret == Sub(st.V0, 0, n))
    v.check('never-more-than-size', n <= size)
    v.check('view-advances-by-the-returned-bytes-plus-the-consumed-delimiter', coupled(v, st, n + c))
    if consume:
        v.check('consumed-bytes-are-the-delimiter', Sub(st.V0, n, dl) == delim)
    check_inv(v, s)
    if strong:
        v.check('stops-at-the-first-delimiter-or-size-or-end', n == tgt)
        v.check('returned-bytes-contain-no-delimiter', Not(SStr(_s(ret), 'bytes').contains(delim)) if is_sym(ret) or is_sym(delim) else delim not in ret)
    v.cover('returns')


def _read_until(v, strong):
    st = mk(v)
    delim = v.bytes('delimiter')
    size = v.int('size', 0)
    v.assume(size <= st.rem + st.nB)
    consume = bool(v.choose(2, 'consume_delimiter'))
    st.rf.V0 = st.V0
    st.rf.st = st
    st.rf.i0 = Find(st.V0, delim)
    out = v.call(st.s, delim, size, consume)
    post_read_until(v, st, out, delim, size, consume, strong)


for _c in (0, 1):
    harness(PROP, SR + '._read_until', name='_read_until[prefix,consume=%d]' % _c, setup=_ru_setup(False), inline=RU_INLINE,
            fix={'consume_delimiter': _c})(lambda v: _read_until(v, False))

ASSUMPTIONS = []
NOT_DECIDED = []
TRUSTED = []
