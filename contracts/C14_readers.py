"""C14 -- buffered readers behave like one flat byte buffer for every chunking.

Sync:  falcon/util/reader.py  BufferedReader   (pure Python; the Cython twin cyutil/reader.pyx is out of reach)
Async: falcon/asgi/reader.py  BufferedReader

Ghost view (sync).  `src` (prophecy) is everything the source callable will still
deliver; the stub `ReadFunc` is a cursor `pos` over it.  The reader's abstract
value is the byte string it can still hand out,

    V(self) = _buffer[_buffer_pos:_buffer_len] ++ src[pos : pos + _max_bytes_remaining]

and every operation is specified as the same operation on a flat cursor over V:
it returns a prefix V[:k] and leaves V[k:] ("consumed data is never returned
twice or skipped").  Representation invariant, assumed at entry and re-proved
(one clause per conjunct) at exit of every operation:

    _buffer_len == len(_buffer)      0 <= _buffer_pos <= _buffer_len      _max_bytes_remaining >= 0

Source contract (io.RawIOBase.read / wsgi.input): read(n) with n > 0 returns a
prefix of the rest of `src` of length <= n, empty only at the end of the source;
the reader must never call it with n <= 0 nor with n > _max_bytes_remaining
("reads never exceed the declared maximum length").

Proof structure (modular).  `_perform_read` is proved against an exact,
deterministic contract (its result does not depend on how the source chunks its
answers); every other function is executed from its source with that contract in
place of `_perform_read` (everything else inlined), loops by invariants.
"""
from __future__ import annotations

import z3

from pyvc.core import And, Iff, Implies, Ite, Joined, Len, Max, Min, Not, Or, SList, SStr, Unreached, cur, is_sym, mk_str, _i, _s
from pyvc.harness import Ready, harness, stubclass
from pyvc.interp import LoopSpec

PROP = 'C14'
SM = 'falcon.util.reader'
SR = SM + ':BufferedReader'
AM = 'falcon.asgi.reader'
AR = AM + ':BufferedReader'


# ---------------------------------------------------------------------------
# helpers that work on symbolic proxies and on plain values


def Sub(s, i, n):
    """s[i : i+n] for i >= 0 (SMT str.substr: clamped at the end, empty when n <= 0)."""
    if not (is_sym(s) or is_sym(i) or is_sym(n)):
        return s[i : i + n] if n > 0 else s[:0]
    return mk_str(z3.SubString(_s(s), _i(i), _i(n)), 'bytes')


def Find(s, sub, start=0):
    """bytes.find(sub, start) for a non-empty sub and start >= 0."""
    if not (is_sym(s) or is_sym(sub) or is_sym(start)):
        return s.find(sub, start)
    if not isinstance(s, SStr):
        s = SStr(_s(s), 'bytes')
    return s.find(sub, start)


# ---------------------------------------------------------------------------
# ghost environment of the sync reader


@stubclass
class ReadFunc:
    """The source callable handed to BufferedReader: a cursor over `src`."""

    def __init__(self, v, src):
        self.v = v
        self.src = src
        self.pos = 0
        self.reader = None
        self.calls = 0

    def __call__(self, n):
        v = self.v
        rem = v.get(self.reader, '_max_bytes_remaining')
        v.check('source-asked-for-a-positive-size-within-the-declared-remaining-length', And(n > 0, n <= rem))
        avail = Len(self.src) - self.pos
        k = v.int('k_read', 0)
        if v.concrete and (k == 0 or k > min(n, avail)):
            k = min(n, avail)  # replay of a path that used the _perform_read contract: any legal chunking will do
        v.assume(And(k <= n, k <= avail, Implies(k == 0, avail == 0)))
        r = self.src[self.pos : self.pos + k]
        self.pos = self.pos + k
        self.calls += 1
        return r


@stubclass
class GhostBytesIO:
    """io.BytesIO used as an append-only accumulator (cursor always at the end)."""

    def __init__(self, initial=b''):
        self.value = initial

    def seek(self, pos, whence=0):
        if whence != 0 or cur().branch(z3.simplify(_i(pos) != _i(Len(self.value))), label='bytesio-seek-not-at-end'):
            raise Unreached('io.BytesIO.seek to a position other than the end of the accumulated value')
        return pos

    def write(self, data):
        self.value = self.value + data if isinstance(self.value, SStr) or not isinstance(data, SStr) else data.__radd__(self.value)
        return Len(data)

    def getvalue(self):
        return self.value


@stubclass
class Sink:
    """A destination with write(): accumulates what was written (ghost)."""

    def __init__(self):
        self.written = b''

    def write(self, data):
        self.written = self.written + data if isinstance(self.written, SStr) or not isinstance(data, SStr) else data.__radd__(self.written)
        return Len(data)


def _bytesio_model(reg):
    import io

    reg.add_model(io.BytesIO, lambda I, *a: GhostBytesIO(*a))


class St:
    pass


def mk(v, rem_positive=None):
    """A sync reader in an arbitrary state satisfying the representation invariant."""
    st = St()
    st.src = v.bytes('src')
    st.cs = v.int('chunk_size', 1)
    st.buf = v.bytes('buf')
    st.bp = v.int('bp', 0)
    st.rem = v.int('rem', 0)
    v.assume(st.bp <= Len(st.buf))
    st.rf = ReadFunc(v, st.src)
    st.s = v.obj(SR, _read_func=st.rf, _chunk_size=st.cs, _max_join_size=st.cs * v.real(SM + ':_MAX_JOIN_CHUNKS'), _buffer=st.buf,
                 _buffer_len=Len(st.buf), _buffer_pos=st.bp, _max_bytes_remaining=st.rem)
    st.rf.reader = st.s
    st.B0 = Sub(st.buf, st.bp, Len(st.buf) - st.bp)
    st.S0 = Sub(st.src, 0, st.rem)
    st.V0 = st.B0 + st.S0
    st.nB = Len(st.buf) - st.bp
    st.nS = Min(st.rem, Len(st.src))
    st.nV = st.nB + st.nS
    return st


def fields(v, s):
    g = lambda n: v.get(s, n)
    return g('_buffer'), g('_buffer_len'), g('_buffer_pos'), g('_max_bytes_remaining'), g('_read_func')


def view(v, s):
    buf, bl, bp, rem, rf = fields(v, s)
    return Sub(buf, bp, bl - bp) + Sub(rf.src, rf.pos, rem)


def check_inv(v, s):
    """The representation invariant, one clause per conjunct."""
    buf, bl, bp, rem, rf = fields(v, s)
    v.check('invariant-buffer-len-is-len-of-buffer', bl == Len(buf))
    v.check('invariant-buffer-pos-within-buffer', And(0 <= bp, bp <= bl))
    v.check('invariant-budget-nonnegative', rem >= 0)


def inv_term(buf, bl, bp, rem, rf):
    return And(bl == Len(buf), 0 <= bp, bp <= bl, rem >= 0, 0 <= rf.pos, rf.pos <= Len(rf.src))


def coupled_term(st, buf, bl, bp, rem, rf, c):
    """The state is the flat cursor over V0 at offset c:  the look-ahead window is V0[c : c+nB], the source cursor
    stands right behind it, and the budget is what is left of the declared length (or 0 once the end of the
    source has been seen).  Implies  V(state) == V0[c:]  (lemma `coupled_implies_view`)."""
    nB = bl - bp
    pos = rf.pos
    return And(
        bl == Len(buf), 0 <= bp, bp <= bl, rem >= 0, c >= 0,
        Sub(buf, bp, nB) == Sub(st.V0, c, nB),
        pos == c + nB - st.nB, 0 <= pos, pos <= Len(st.src), pos <= st.rem,
        Or(rem == st.rem - pos, And(rem == 0, pos == Len(st.src))),
    )


def coupled(v, st, c):
    return coupled_term(st, *fields(v, st.s), c)


def frame_buffer(v, st):
    buf, bl, bp, rem, rf = fields(v, st.s)
    return And(buf == st.buf, bl == Len(st.buf), bp == st.bp)


# ---------------------------------------------------------------------------
# _perform_read: the only function that talks to the source


def _pr_loop(reg, ex):
    ex.check_timeout_ms = 1500
    _bytesio_model(reg)

    def linv(L):
        s = L['self']
        rf = s._read_func
        acc = L['result'].value
        got = rf.pos - rf.pos0
        return And(
            rf.pos0 <= rf.pos, rf.pos <= Len(rf.src),
            acc == Sub(rf.src, rf.pos0, got),
            s._max_bytes_remaining == rf.rem0 - got,
            L['size'] - L['chunk_len'] == rf.m - got,
            L['size'] - L['chunk_len'] >= 0,
        )

    def havoc(ctx, L):
        L['result'].value = ctx.fresh_bytes('hv_acc')
        L['self']._read_func.pos = ctx.fresh_int('hv_pos')

    reg.loops[(SR + '._perform_read', 'while#0')] = LoopSpec(inv=linv, havoc=havoc)


def pr_result(n, rem, src, pos):
    """(#bytes, wanted) delivered by _perform_read(n): min(n, remaining budget) bytes, short only at the end of the source."""
    m = Max(0, Min(n, rem))
    return Min(m, Len(src) - pos), m


@harness(PROP, SR + '._perform_read', setup=_pr_loop)
def perform_read(v):
    st = mk(v)
    s, rf = st.s, st.rf
    pos0 = v.int('pos0', 0)
    v.assume(pos0 <= Len(st.src))
    rf.pos = pos0
    n = v.int('n')
    r, m = pr_result(n, st.rem, st.src, pos0)
    rf.pos0, rf.rem0, rf.m = pos0, st.rem, m
    out = v.call(s, n)
    v.check('no-exception', out.exc is None)
    if out.exc is not None:
        return
    ret = out.value
    buf, bl, bp, rem, _ = fields(v, s)
    v.check('returns-the-next-source-bytes-in-order', ret == Sub(st.src, pos0, Len(ret)))
    v.check('returns-min-of-size-and-budget-short-only-at-end-of-source', Len(ret) == r)
    v.check('source-cursor-advances-by-exactly-the-returned-bytes', rf.pos == pos0 + Len(ret))
    v.check('budget-deducts-the-returned-bytes-and-drops-to-zero-at-end-of-source', rem == Ite(r == m, st.rem - r, 0))
    v.check('never-returns-more-than-the-declared-remaining-length', Len(ret) <= st.rem)
    v.check('buffer-untouched', frame_buffer(v, st))
    check_inv(v, s)
    if m > 0:
        v.cover('reads-from-source')
    if rf.calls >= 2:
        v.cover('loops-on-a-short-read')


def pr_contract(I, self, size):
    """Callee contract of _perform_read (proved by `perform_read` above), exact and deterministic."""
    rf = self._fields['_read_func']
    rem = self._fields['_max_bytes_remaining']
    r, m = pr_result(size, rem, rf.src, rf.pos)
    out = Sub(rf.src, rf.pos, r)
    rf.pos = rf.pos + r
    self._fields['_max_bytes_remaining'] = Ite(r == m, rem - r, 0)
    return out


def _fast(ex, ms=1500):
    """String obligations: give z3 a short in-process budget; what it leaves `unknown` goes to the cvc5 portfolio (parallel)."""
    ex.check_timeout_ms = ms
    ex.branch_timeout_ms = 400
    ex.incremental_timeout_ms = 250


def _with_pr(reg, ex):
    _fast(ex)
    _bytesio_model(reg)
    reg.stubs[SR + '._perform_read'] = pr_contract



# ---------------------------------------------------------------------------
# __init__


@harness(PROP, SR + '.__init__')
def init(v):
    src = v.bytes('src')
    rf = ReadFunc(v, src)
    L = v.int('max_stream_len', 0)
    kind = v.choose(3, 'chunk_size-kind')
    cs = [None, 0, None][kind] if kind < 2 else v.int('chunk_size', 1)
    s = v.obj(SR)
    rf.reader = s
    out = v.call(s, rf, L) if kind == 0 else v.call(s, rf, L, cs)
    v.check('no-exception', out.exc is None)
    if out.exc is not None:
        return
    check_inv(v, s)
    v.check('view-is-the-first-max_stream_len-bytes-of-the-source', view(v, s) == Sub(src, 0, L))
    v.check('source-not-touched', And(rf.pos == 0, rf.calls == 0))
    default = v.real(SM + ':DEFAULT_CHUNK_SIZE')
    v.check('chunk-size-is-the-given-one-or-the-default', v.get(s, '_chunk_size') == (cs if kind == 2 else default))
    v.check('chunk-size-positive', v.get(s, '_chunk_size') >= 1)
    v.check('join-limit-is-a-whole-number-of-chunks', v.get(s, '_max_join_size') == v.get(s, '_chunk_size') * v.real(SM + ':_MAX_JOIN_CHUNKS'))


# ---------------------------------------------------------------------------
# _fill_buffer / peek / _normalize_size / _read / read   (flat cursor over V)


@harness(PROP, SR + '._fill_buffer', setup=_with_pr)
def fill_buffer(v):
    st = mk(v)
    s = st.s
    out = v.call(s)
    v.check('no-exception', out.exc is None)
    if out.exc is not None:
        return
    buf, bl, bp, rem, rf = fields(v, s)
    check_inv(v, s)
    v.check('view-unchanged', view(v, s) == st.V0)
    # afterwards the look-ahead window holds a whole chunk, or everything there is
    v.check('buffered-at-least-a-chunk-or-all-of-the-view', bl - bp == Ite(st.nB >= st.cs, st.nB, Min(st.cs, st.nV)))
    v.check('buffered-bytes-are-a-prefix-of-the-view', Sub(buf, bp, bl - bp) == Sub(st.V0, 0, bl - bp))
    if st.nB < st.cs:
        v.cover('refills')


def peek_size(size, cs):
    return Ite(Or(size < 0, size > cs), cs, size)


@harness(PROP, SR + '.peek', setup=_with_pr, inline=[SR + '._fill_buffer'])
def peek(v):
    st = mk(v)
    s = st.s
    dflt = v.choose(2, 'size-given?')
    size = v.int('size') if dflt else -1
    out = v.call(s, size) if dflt else v.call(s)
    v.check('no-exception', out.exc is None)
    if out.exc is not None:
        return
    n = peek_size(size, st.cs)
    check_inv(v, s)
    v.check('returns-the-next-bytes-of-the-view-up-to-the-clamped-size', out.value == Sub(st.V0, 0, n))
    v.check('length-is-min-of-clamped-size-and-view', Len(out.value) == Min(n, st.nV))
    v.check('view-unchanged', view(v, s) == st.V0)
    v.cover('returns')


def norm_size(size, st):
    mx = st.rem + st.nB
    if size is None:
        return mx
    return Ite(Or(size == -1, size > mx), mx, size)


def size_arg(v, allow_none=True):
    """A size argument of the public API: None, -1 (both: everything) or >= 0."""
    kind = v.choose(3 if allow_none else 2, 'size-kind')
    if kind == 0:
        return -1, kind
    if kind == 1:
        return v.int('size', 0), kind
    return None, kind


@harness(PROP, SR + '._normalize_size')
def normalize_size(v):
    st = mk(v)
    size, kind = size_arg(v)
    out = v.call(st.s, size)
    v.check('no-exception', out.exc is None)
    if out.exc is not None:
        return
    k = out.value
    v.check('state-untouched', And(frame_buffer(v, st), v.get(st.s, '_max_bytes_remaining') == st.rem, st.rf.pos == 0))
    v.check('never-negative', k >= 0)
    v.check('never-more-than-buffered-plus-declared-remaining', k <= st.rem + st.nB)
    if kind == 1:
        v.check('a-given-size-is-only-ever-reduced', k <= size)
        v.check('covers-min-of-size-and-view', k >= Min(size, st.nV))
    else:
        v.check('no-size-means-everything', And(k == st.rem + st.nB, k >= st.nV))


def post_read(v, st, out, k):
    """Flat cursor: returned V0[:k], left V0[k:]."""
    s = st.s
    v.check('no-exception', out.exc is None)
    if out.exc is not None:
        return False
    ret = out.value
    v.check('returns-the-next-bytes-of-the-view', ret == Sub(st.V0, 0, k))
    v.check('length-is-min-of-size-and-view', Len(ret) == Min(k, st.nV))
    v.check('view-advances-by-exactly-the-returned-bytes', view(v, s) == Sub(st.V0, Len(ret), st.nV))
    check_inv(v, s)
    return True


@harness(PROP, SR + '._read', setup=_with_pr)
def _read(v):
    st = mk(v)
    k = v.int('size', 0)  # any size >= 0 (_read_until passes sizes beyond the normalized bound)
    out = v.call(st.s, k)
    if post_read(v, st, out, k):
        if st.nB >= k:
            v.cover('from-buffer')
        elif st.nB == 0:
            if k >= st.cs:
                v.cover('pass-through')
        elif k - st.nB >= st.cs:
            v.cover('buffer-plus-large-read')
        else:
            v.cover('buffer-plus-refill')


@harness(PROP, SR + '.read', setup=_with_pr, inline=[SR + '._normalize_size', SR + '._read'])
def read(v):
    st = mk(v)
    size, kind = size_arg(v)
    dflt = kind == 0 and v.choose(2, 'size-omitted?')
    out = v.call(st.s) if dflt else v.call(st.s, size)
    k = norm_size(size, st)
    if post_read(v, st, out, k):
        if kind != 1:
            v.check('unsized-read-returns-the-whole-view', And(out.value == st.V0, Len(view(v, st.s)) == 0))
        else:
            v.check('sized-read-bounded', Len(out.value) <= size)
        v.cover('returns')


# ===========================================================================
# PART B -- the window domain.
#
# Every bytes value the readers ever handle is a *window* T[a:b] of one fixed
# prophecy string T = (initial buffer content) ++ (everything the source will
# deliver): the readers only slice and concatenate what they were given.  In
# this part bytes values are therefore represented by their two indices (class
# Win); slicing is index arithmetic, and `x + y` is the window [x.a, y.b) --
# with the proof obligation, generated at EVERY concatenation the code
# performs, that y starts where x ends ("consumed data is never returned twice
# or skipped", "in order").  All obligations become linear integer arithmetic,
# decided by z3 in milliseconds, for all data, chunkings and sizes.
#
# Delimiter search: first(x) = index of the first occurrence of the (one)
# delimiter of the harness in T at or after x, or -1.  window.find(d, s) is, by
# definition of bytes.find for a non-empty d, first(a+s) if that occurrence lies
# wholly inside the window, else -1.  `first` is an uninterpreted function; for
# the finitely many points x it is applied to on a path, the ground instances of
# its defining property are assumed:
#     first(x) == -1  or  x <= first(x) <= len(T) - len(d)
#     x <= y and (first(x) == -1 or y <= first(x))  ==>  first(y) == first(x)
# (both are true of the real first-occurrence function), and
#     T[p:p+n] == d   <=>   n == len(d) and first(p) == p.
# In concrete replay windows are plain bytes over a patterned T.

_CURW = [None]


class World:
    """The prophecy string T in which all bytes values of one path live (T itself is never needed symbolically)."""

    def __init__(self, v):
        self.v = v
        self.T = None  # concrete replay only
        self.dl = None
        self.delim = None
        self.points = []
        self.memo = {}
        self.F = z3.Function('first_occurrence_at_or_after', z3.IntSort(), z3.IntSort())
        self.lenT = 0
        _CURW[0] = self

    def win(self, a, b):
        """T[a:b] (0 <= a <= b)."""
        if self.v.concrete:
            return self.T[a:b] if b > a else b''
        return Win(self, a, b)

    def fresh_win(self, ctx, base='w'):
        a = ctx.fresh_int(base + '_a')
        b = ctx.fresh_int(base + '_b')
        ctx.assume(And(0 <= a, a <= b))
        return Win(self, a, b)

    def first(self, x):
        """Index of the first occurrence of the delimiter in T at or after x (x >= 0), or -1."""
        if self.v.concrete:
            return self.T.find(self.delim, x)
        xt = z3.simplify(_i(x))
        key = xt.get_id()  # hash-consed term identity (the term is kept alive in the memo)
        if key in self.memo:
            return self.memo[key][1]
        ctx = self.v.ctx
        j = mk_int(self.F(_i(x)))
        ctx.assume(Or(j == -1, And(j >= x, j + self.dl <= self.lenT)))
        for y, jy in self.points:
            ctx.assume(Implies(And(x <= y, Or(j == -1, y <= j)), jy == j))
            ctx.assume(Implies(And(y <= x, Or(jy == -1, x <= jy)), j == jy))
        self.points.append((x, j))
        self.memo[key] = (xt, j)
        return j

    def is_delim_at(self, p, n):
        """T[p:p+n] == delimiter."""
        return And(n == self.dl, self.first(p) == p)


def mk_int(t):
    from pyvc.core import mk_int as _mk

    return _mk(t)


def _sym_false(c):
    """True iff the condition c cannot be excluded on this path (non-forking feasibility test)."""
    if isinstance(c, bool):
        return c
    ctx = cur()
    return ctx._safe_check(c.t) != z3.unsat


@stubclass
class Win:
    """The bytes value T[a:b]."""

    def __init__(self, w, a, b):
        self.w, self.a, self.b = w, a, b

    def __repr__(self):
        return '<Win %s:%s>' % (self.a, self.b)

    def __pyvc_len__(self):
        return self.b - self.a

    def __pyvc_truth__(self):
        return self.b > self.a

    def __pyvc_isinstance__(self, cls):
        return cls in (bytes, object) or (isinstance(cls, tuple) and bytes in cls)

    def __pyvc_getitem__(self, k):
        if not isinstance(k, slice) or k.step not in (None, 1):
            raise Unreached('indexing a single byte of a window')
        n = self.b - self.a

        def clamp(x, default):
            if x is None:
                return default
            return Ite(x < 0, Max(n + x, 0), Min(x, n))

        lo = clamp(k.start, 0)
        hi = Max(clamp(k.stop, n), lo)
        return Win(self.w, self.a + lo, self.a + hi)

    def _cat(self, x, y):
        """x ++ y for two windows: defined (as a window) only when y starts where x ends -- an obligation on the subject."""
        lx, ly = x.b - x.a, y.b - y.a
        self.w.v.check('bytes-are-joined-in-stream-order-without-gap-or-overlap', Or(lx == 0, ly == 0, x.b == y.a))
        a = Ite(lx == 0, y.a, x.a)
        b = Ite(ly == 0, Ite(lx == 0, y.b, x.b), y.b)
        return Win(self.w, a, b)

    def __pyvc_add__(self, o):
        if isinstance(o, Win):
            return self._cat(self, o)
        if isinstance(o, (bytes, bytearray)) and len(o) == 0:
            return self
        raise Unreached('window + %r' % (o,))

    def __pyvc_radd__(self, o):
        if isinstance(o, Win):
            return self._cat(o, self)
        if isinstance(o, (bytes, bytearray)) and len(o) == 0:
            return self
        raise Unreached('%r + window' % (o,))

    def find(self, sub, start=0):
        w = self.w
        if not (sub is w.delim or (isinstance(sub, bytes) and sub == w.delim_bytes)):
            raise Unreached('find of something that is not the delimiter of this harness')
        if _sym_false(Or(start < 0, w.dl < 1)):
            raise Unreached('find with a negative start or an empty delimiter')
        j = w.first(self.a + start)
        return Ite(And(j != -1, j + w.dl <= self.b), j - self.a, -1)

    def __pyvc_eq__(self, o):
        if isinstance(o, Delim) or (isinstance(o, bytes) and o and o == self.w.delim_bytes):
            return self.w.is_delim_at(self.a, self.b - self.a)
        if isinstance(o, (bytes, bytearray)) and len(o) == 0:
            return self.b == self.a
        raise Unreached('comparison of a window with %r' % (o,))

    def __pyvc_havoc__(self, ctx, base):
        return self.w.fresh_win(ctx, base)


@stubclass
class Delim:
    """The delimiter of the harness (symbolic mode): only its length and its occurrences in T matter."""

    def __init__(self, w):
        self.w = w

    def __pyvc_len__(self):
        return self.w.dl

    def __pyvc_truth__(self):
        return self.w.dl > 0

    def __pyvc_eq__(self, o):
        if isinstance(o, Win):
            return o.__pyvc_eq__(self)
        if isinstance(o, (bytes, bytearray)) and len(o) == 0:
            return self.w.dl == 0
        raise Unreached('comparison of the delimiter with %r' % (o,))


@stubclass
class WinList:
    """A list of windows of symbolic length, kept as a summary: length, concatenation, first element."""

    __pyvc_list_summary__ = True

    def __init__(self, n=0, joined=b'', first=b''):
        self.n, self.joined, self.first_ = n, joined, first

    @staticmethod
    def of(items):
        wl = WinList()
        for x in items:
            wl.append(x)
        return wl

    def append(self, x):
        if isinstance(self.first_, Win) and isinstance(x, Win):
            e = self.n == 0
            self.first_ = Win(x.w, Ite(e, x.a, self.first_.a), Ite(e, x.b, self.first_.b))
        elif isinstance(self.n, int) and self.n == 0:
            self.first_ = x
        elif not isinstance(x, Win) and isinstance(x, bytes) and isinstance(self.first_, Win):
            e = self.n == 0
            self.first_ = Win(self.first_.w, Ite(e, self.first_.a, self.first_.a), Ite(e, self.first_.a, self.first_.b))
        else:
            raise Unreached('WinList.append of %r' % (x,))
        self.joined = cat(self.joined, x)
        self.n = self.n + 1

    def __pyvc_len__(self):
        return self.n

    def __pyvc_truth__(self):
        return self.n > 0

    def __pyvc_join__(self, interp, sep):
        if not (isinstance(sep, (bytes, bytearray)) and len(sep) == 0):
            raise Unreached('join of windows with a non-empty separator')
        return self.joined

    def __pyvc_getitem__(self, k):
        if isinstance(k, int) and k == 0:
            c = cur()
            if c.branch(z3.simplify(_i(self.n) == 0), label='index-oob'):
                c.raise_py(IndexError, 'list index out of range')
            return self.first_
        raise Unreached('WinList index other than 0')

    def __pyvc_havoc__(self, ctx, base):
        w = _CURW[0]
        n = ctx.fresh_int(base + '_n')
        j = w.fresh_win(ctx, base + '_joined')
        f = w.fresh_win(ctx, base + '_first')
        ctx.assume(n >= 0)
        ctx.assume(Implies(n == 0, j.b == j.a))
        ctx.assume(Implies(n == 1, Or(And(f.a == j.a, f.b == j.b), And(f.a == f.b, j.a == j.b))))
        ctx.assume(Implies(n >= 1, Or(f.a == f.b, And(f.a == j.a, f.b <= j.b))))
        return WinList(n, j, f)

    def __pyvc_iter__(self):
        raise Unreached('iteration over a list of symbolic length without an invariant')


def cat(x, y):
    """x ++ y over windows / plain bytes."""
    if isinstance(x, Win):
        return x.__pyvc_add__(y)
    if isinstance(y, Win):
        return y.__pyvc_radd__(x)
    return x + y


def WJoined(xs):
    if isinstance(xs, WinList):
        return xs.joined
    out = b''
    for x in xs:
        out = cat(out, x)
    return out


def bounds(x):
    """(a, b) of a bytes value of the window domain; the empty constant has no position."""
    if isinstance(x, Win):
        return x.a, x.b
    if isinstance(x, (bytes, bytearray)) and len(x) == 0:
        return 0, 0
    raise Unreached('not a window: %r' % (x,))


def is_window(w, x, a, n):
    """x == T[a : a+n]   (n <= 0: x is empty)."""
    if w.v.concrete:
        return x == (w.T[a : a + n] if n > 0 else b'')
    xa, xb = bounds(x)
    return Or(And(n <= 0, xb == xa), And(n > 0, xa == a, xb == a + n))


def _pattern(n, delim=None, at=-1):
    t = bytearray(1 + (i * 7) % 250 for i in range(max(n, 0)))
    if delim and 0 <= at and at + len(delim) <= n:
        t[at : at + len(delim)] = delim
    return bytes(t)


@stubclass
class WGhostBytesIO(GhostBytesIO):
    def seek(self, pos, whence=0):
        if whence != 0 or _sym_false(pos != Len(self.value)):
            raise Unreached('io.BytesIO.seek to a position other than the end of the accumulated value')
        return pos

    def write(self, data):
        self.value = cat(self.value, data)
        return Len(data)


@stubclass
class WSink:
    """A destination with write(): accumulates what was written (ghost)."""

    def __init__(self):
        self.written = b''
        self.writes = 0

    def write(self, data):
        self.written = cat(self.written, data)
        self.writes = self.writes + 1
        return Len(data)


@stubclass
class WReadFunc:
    """The source callable: a cursor over T[base : base+srclen]."""

    def __init__(self, v, w, srclen):
        self.v, self.w, self.srclen = v, w, srclen
        self.pos = 0
        self.reader = None
        self.calls = 0

    def __call__(self, n):
        v = self.v
        rem = v.get(self.reader, '_max_bytes_remaining')
        v.check('source-asked-for-a-positive-size-within-the-declared-remaining-length', And(n > 0, n <= rem))
        avail = self.srclen - self.pos
        k = v.int('k_read', 0)
        if v.concrete and (k == 0 or k > min(n, avail)):
            k = min(n, avail)
        v.assume(And(k <= n, k <= avail, Implies(k == 0, avail == 0)))
        base = self.w.base
        r = self.w.win(base + self.pos, base + self.pos + k)
        self.pos = self.pos + k
        self.calls += 1
        return r


def mkw(v, delim=None):
    """A sync reader in an arbitrary state satisfying the representation invariant (window domain).

    delim: None (no delimiter in this harness) | 'any' (symbolic delimiter of any length) | bytes (that literal)."""
    st = St()
    w = World(v)
    st.w = w
    st.bl0 = v.int('buf_len', 0)
    st.bp = v.int('bp', 0)
    v.assume(st.bp <= st.bl0)
    st.rem = v.int('rem', 0)
    st.cs = v.int('chunk_size', 1)
    st.srclen = v.int('src_len', 0)
    w.base = st.bl0
    w.lenT = st.bl0 + st.srclen
    st.a0 = st.bp
    st.nB = st.bl0 - st.bp
    st.nS = Min(st.rem, st.srclen)
    st.nV = st.nB + st.nS
    st.end = st.a0 + st.nV
    w.delim_bytes = None
    if delim is not None:
        if delim == 'any':
            w.dl = v.int('delim_len', 0)
        else:
            w.dl = len(delim)
            w.delim_bytes = delim
        j0 = v.int('first_occurrence', -1)
        if v.concrete:
            d = delim if delim != 'any' else bytes([255] + [254] * (w.dl - 1))[: max(w.dl, 0)]
            w.delim = d
            w.delim_bytes = d
            w.T = _pattern(w.lenT, d, j0)
        else:
            w.delim = Delim(w) if delim == 'any' else delim
            v.assume(Implies(w.dl >= 1, j0 == w.first(st.a0)))
        st.delim = w.delim
    elif v.concrete:
        w.T = _pattern(w.lenT)
    st.buf = w.win(0, st.bl0)
    st.rf = WReadFunc(v, w, st.srclen)
    st.s = v.obj(SR, _read_func=st.rf, _chunk_size=st.cs, _max_join_size=st.cs * v.real(SM + ':_MAX_JOIN_CHUNKS'), _buffer=st.buf,
                 _buffer_len=st.bl0, _buffer_pos=st.bp, _max_bytes_remaining=st.rem)
    st.rf.reader = st.s
    st.rf.st = st
    return st


def wcoupled_term(st, buf, bl, bp, rem, rf, c):
    """The reader is the flat cursor over V0 = T[a0 : a0+nV] at offset c: its look-ahead window is T[a0+c : a0+c+nB], the source
    cursor stands right behind it, the budget is what is left of the declared length (0 once the end of the source was seen).
    Hence V(state) = V0[c:]; the three conjuncts of the representation invariant are part of it."""
    w = st.w
    nB = bl - bp
    pos = rf.pos
    ints = And(0 <= bp, bp <= bl, rem >= 0, c >= 0, w.base + pos == st.a0 + c + nB, 0 <= pos, pos <= st.srclen, pos <= st.rem,
               Or(rem == st.rem - pos, And(rem == 0, pos == st.srclen)))
    if w.v.concrete:
        return bool(ints) and bl == len(buf) and (buf[bp:bl] == w.T[st.a0 + c : st.a0 + c + nB])
    ba, bb = bounds(buf)
    return And(ints, bl == bb - ba, Implies(bl > 0, ba + bp == st.a0 + c))  # (a consumed-but-kept buffer prefix still lies right before the cursor)


def wcoupled(v, st, c):
    return wcoupled_term(st, *fields(v, st.s), c)


def wcheck_inv(v, s):
    buf, bl, bp, rem, rf = fields(v, s)
    v.check('invariant-buffer-len-is-len-of-buffer', bl == Len(buf))
    v.check('invariant-buffer-pos-within-buffer', And(0 <= bp, bp <= bl))
    v.check('invariant-budget-nonnegative', rem >= 0)


def wpr_contract(I, self, size):
    """Callee contract of _perform_read (proved by `perform_read` / `w_perform_read`), exact and deterministic."""
    rf = self._fields['_read_func']
    rem = self._fields['_max_bytes_remaining']
    m = Max(0, Min(size, rem))
    r = Min(m, rf.srclen - rf.pos)
    base = rf.w.base
    out = rf.w.win(base + rf.pos, base + rf.pos + r)
    rf.pos = rf.pos + r
    self._fields['_max_bytes_remaining'] = Ite(r == m, rem - r, 0)
    return out


def _wbytesio(reg):
    import io

    reg.add_model(io.BytesIO, lambda I, *a: WGhostBytesIO(*a))


def _w(reg, ex):
    _wbytesio(reg)
    reg.stubs[SR + '._perform_read'] = wpr_contract


# --- _perform_read once more, over windows (cross-check of the string-level proof above; same contract) -------------


def _wpr_loop(reg, ex):
    _wbytesio(reg)

    def linv(L):
        s = L['self']
        rf = s._read_func
        got = rf.pos - rf.pos0
        return And(rf.pos0 <= rf.pos, rf.pos <= rf.srclen, is_window(rf.w, L['result'].value, rf.w.base + rf.pos0, got), got > 0,
                   s._max_bytes_remaining == rf.rem0 - got, L['size'] - L['chunk_len'] == rf.m - got, L['size'] - L['chunk_len'] >= 0)

    def havoc(ctx, L):
        L['result'].value = L['self']._read_func.w.fresh_win(ctx, 'hv_acc')
        L['self']._read_func.pos = ctx.fresh_int('hv_pos')

    reg.loops[(SR + '._perform_read', 'while#0')] = LoopSpec(inv=linv, havoc=havoc)


@harness(PROP, SR + '._perform_read', name='w_perform_read', setup=_wpr_loop)
def w_perform_read(v):
    st = mkw(v)
    s, rf, w = st.s, st.rf, st.w
    pos0 = v.int('pos0', 0)
    v.assume(pos0 <= st.srclen)
    rf.pos = pos0
    n = v.int('n')
    m = Max(0, Min(n, st.rem))
    r = Min(m, st.srclen - pos0)
    rf.pos0, rf.rem0, rf.m = pos0, st.rem, m
    out = v.call(s, n)
    v.check('no-exception', out.exc is None)
    if out.exc is not None:
        return
    buf, bl, bp, rem, _ = fields(v, s)
    v.check('returns-the-next-source-bytes-min-of-size-and-budget-short-only-at-end-of-source', is_window(w, out.value, w.base + pos0, r))
    v.check('source-cursor-advances-by-exactly-the-returned-bytes', rf.pos == pos0 + r)
    v.check('budget-deducts-the-returned-bytes-and-drops-to-zero-at-end-of-source', rem == Ite(r == m, st.rem - r, 0))
    v.check('buffer-untouched', And(buf is st.buf, bl == st.bl0, bp == st.bp))
    wcheck_inv(v, s)
    if rf.calls >= 2:
        v.cover('loops-on-a-short-read')


# --- flat-cursor contracts over windows: _fill_buffer / peek / _read / read ---------------------------------------------


def _ret_ok(v, out):
    v.check('no-exception', out.exc is None)
    return out.exc is None


@harness(PROP, SR + '._fill_buffer', name='w_fill_buffer', setup=_w)
def w_fill_buffer(v):
    st = mkw(v)
    out = v.call(st.s)
    if not _ret_ok(v, out):
        return
    buf, bl, bp, rem, rf = fields(v, st.s)
    wcheck_inv(v, st.s)
    v.check('view-unchanged', wcoupled(v, st, 0))
    v.check('buffered-at-least-a-chunk-or-all-of-the-view', bl - bp == Ite(st.nB >= st.cs, st.nB, Min(st.cs, st.nV)))
    if st.nB < st.cs:
        v.cover('refills')


@harness(PROP, SR + '.peek', name='w_peek', setup=_w, inline=[SR + '._fill_buffer'])
def w_peek(v):
    st = mkw(v)
    given = v.choose(2, 'size-given?')
    size = v.int('size') if given else -1
    out = v.call(st.s, size) if given else v.call(st.s)
    if not _ret_ok(v, out):
        return
    n = peek_size(size, st.cs)
    wcheck_inv(v, st.s)
    v.check('returns-the-next-bytes-of-the-view-up-to-the-clamped-size', is_window(st.w, out.value, st.a0, Min(n, st.nV)))
    v.check('view-unchanged', wcoupled(v, st, 0))
    v.cover('returns')


def wpost_read(v, st, out, k):
    """Flat cursor: returned V0[:k] (all of V0 when shorter), left the rest."""
    if not _ret_ok(v, out):
        return False
    n = Min(k, st.nV)
    wcheck_inv(v, st.s)
    v.check('returns-the-next-bytes-of-the-view', is_window(st.w, out.value, st.a0, n))
    v.check('view-advances-by-exactly-the-returned-bytes', wcoupled(v, st, n))
    return True


@harness(PROP, SR + '._read', name='w__read', setup=_w)
def w__read(v):
    st = mkw(v)
    k = v.int('size', 0)  # _read_until calls it with sizes beyond the normalized bound, so: any size >= 0
    out = v.call(st.s, k)
    if wpost_read(v, st, out, k):
        if st.nB >= k:
            v.cover('from-buffer')
        elif st.nB == 0:
            if k >= st.cs:
                v.cover('pass-through')
        elif k - st.nB >= st.cs:
            v.cover('buffer-plus-large-read')
        else:
            v.cover('buffer-plus-refill')


def wnorm_size(size, st):
    mx = st.rem + st.nB
    if size is None:
        return mx
    return Ite(Or(size == -1, size > mx), mx, size)


@harness(PROP, SR + '.read', name='w_read', setup=_w, inline=[SR + '._normalize_size', SR + '._read'])
def w_read(v):
    st = mkw(v)
    size, kind = size_arg(v)
    omitted = kind == 0 and v.choose(2, 'size-omitted?')
    out = v.call(st.s) if omitted else v.call(st.s, size)
    if wpost_read(v, st, out, wnorm_size(size, st)):
        if kind != 1:
            v.check('unsized-read-returns-the-whole-view', And(is_window(st.w, out.value, st.a0, st.nV), wcoupled(v, st, st.nV)))
        else:
            v.check('sized-read-bounded', Len(out.value) <= size)
        v.cover('returns')


# --- _read_until with _finalize_read_until, _read, peek, _fill_buffer inlined ----------------------------------------------

RU_INLINE = [SR + '._finalize_read_until', SR + '._read', SR + '.peek', SR + '._fill_buffer', SR + '._normalize_size']


def _ru_loop(reg, ex):
    _w(reg, ex)

    def linv(L):
        s = L['self']
        rf = s._read_func
        st = rf.st
        J = WJoined(L['result'])
        have = L['have_bytes']
        return And(
            have == Len(J),
            is_window(st.w, J, st.a0, have),  # the backlog is what was taken so far, in order ...
            wcoupled_term(st, s._buffer, s._buffer_len, s._buffer_pos, s._max_bytes_remaining, rf, have),  # ... the reader stands right behind it
            have <= L['size'],
            Or(st.j0 == -1, st.j0 >= st.a0 + have),  # ... and no occurrence of the delimiter starts inside the backlog
        )

    reg.loops[(SR + '._read_until', 'while#0')] = LoopSpec(inv=linv, lists={'result': WinList.of})


def until_spec(st, x, size):
    """Flat cursor at T-index x: stop at the first delimiter occurrence lying wholly inside the view, at `size`, or at the end."""
    w = st.w
    j = w.first(x)
    found = And(j != -1, j + w.dl <= st.end)
    return found, j, Ite(found, Min(size, j - x), Min(size, st.end - x))


def delim_at(st, p):
    """The view continues with the delimiter at T-index p."""
    return And(st.w.first(p) == p, p + st.w.dl <= st.end)


def wpost_until(v, st, out, size, consume):
    s, w = st.s, st.w
    dl = w.dl
    DelimiterError = v.real('falcon.errors:DelimiterError')
    bad = Or(dl < 1, dl > st.cs)
    v.check('delimiter-length-outside-1..chunk_size-raises-valueerror', Iff(out.exc is not None and out.exc.isa(ValueError), bad))
    if out.exc is not None and out.exc.isa(ValueError):
        v.check('valueerror-consumes-nothing', And(wcoupled(v, st, 0), st.rf.pos == 0))
        v.cover('bad-delimiter')
        return None
    found, j, tgt = until_spec(st, st.a0, size)
    if out.exc is not None:
        v.check('only-delimiter-error-escapes', And(out.exc.isa(DelimiterError), bool(consume)))
        wcheck_inv(v, s)
        v.check('delimiter-error-only-if-the-bytes-after-the-result-are-not-the-delimiter', Not(delim_at(st, st.a0 + tgt)))
        v.cover('delimiter-error')
        return None
    ret = out.value
    n = Len(ret)
    c = dl if consume else 0
    wcheck_inv(v, s)
    v.check('returns-the-next-bytes-of-the-view', is_window(w, ret, st.a0, n))
    v.check('never-more-than-size', n <= size)
    v.check('stops-at-the-first-delimiter-or-size-or-end', n == tgt)
    v.check('returned-bytes-contain-no-delimiter', Or(j == -1, j + dl > st.a0 + n))
    if consume:
        v.check('consumed-bytes-are-the-delimiter', delim_at(st, st.a0 + n))
    v.check('view-advances-by-the-returned-bytes-plus-the-consumed-delimiter', wcoupled(v, st, n + c))
    v.cover('returns')
    if found:
        if n < size:
            v.cover('stops-at-delimiter')
    return n


def w__read_until(v):
    st = mkw(v, delim='any')
    size = v.int('size', 0)
    v.assume(size <= st.rem + st.nB)  # sizes come from _normalize_size
    consume = bool(v.choose(2, 'consume_delimiter'))
    st.j0 = st.w.first(st.a0) if not v.concrete else None
    out = v.call(st.s, st.delim, size, consume)
    wpost_until(v, st, out, size, consume)


for _c in (0, 1):
    harness(PROP, SR + '._read_until', name='w__read_until[consume=%d]' % _c, setup=_ru_loop, inline=RU_INLINE, fix={'consume_delimiter': _c})(w__read_until)


ASSUMPTIONS = []
NOT_DECIDED = []
TRUSTED = []
