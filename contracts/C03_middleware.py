"""C03 -- middleware, hooks and responder run in the documented stack order, once each.

The specification is a *ghost monitor* (class Monitor below): a safety automaton
written from the property statement.  Every opaque call the framework makes
(a middleware method, routing, the responder, the error-handling entry point) is
an event; the monitor checks that the event is legal in its current state
(`v.check('stack-discipline:...')`) and advances.  The middleware stacks are
sequences of *symbolic length*; the loops of App.__call__ are cut by invariants
that only relate the monitor's counters to the loop index.

Stacks as data: component k of a stack is identified by its index; whether it
has a request / response method is an uninterpreted predicate of k.
"""
from __future__ import annotations

import z3

from pyvc.core import And, FnSeq, Iff, Implies, Ite, Len, Not, Or, SeqList, mk_bool, mk_int, _i
from pyvc.harness import Ready, harness, stubclass
from pyvc.interp import LoopSpec

PROP = 'C03'
WSGI = 'falcon.app:App'
ASGI = 'falcon.asgi.app:App'


class AppError(Exception):
    """An application error raised by an opaque callee (Exception-derived)."""


HAS_REQ = z3.Function('has_req', z3.IntSort(), z3.BoolSort())
HAS_RESP = z3.Function('has_resp', z3.IntSort(), z3.BoolSort())
# spec function: RR(m) = the response methods of components 0..m-1, bottom-up (highest index first)
RR = z3.Function('RR', z3.IntSort(), z3.SeqSort(z3.IntSort()))


def rr_step(i):
    """Defining equation of RR at i -> i+1 (instance used by the proof; RR(0) = [])."""
    ii = _i(i)
    return z3.And(
        RR(0) == z3.Empty(z3.SeqSort(z3.IntSort())),
        RR(ii + 1) == z3.If(HAS_RESP(ii), z3.Concat(z3.Unit(ii), RR(ii)), RR(ii)),
    )


class Monitor:
    """Safety automaton of the stack discipline (the specification)."""

    def __init__(self, v, independent, n_req, n_rsrc, n_resp):
        self.v = v
        self.independent = independent
        self.n_req = n_req  # components in the request stack
        self.n_rsrc = n_rsrc
        self.n_resp = n_resp  # independent mode only: prepared response stack
        self.resp = None
        self.req = None
        self.visited_req = 0  # request-stack components fetched so far
        self.pending_req = False  # the fetched component's request method is still due
        self.visited_rsrc = 0
        self.pending_rsrc = False
        self.visited_resp = 0
        self.pending_resp = False
        self.raised = False  # something raised so far (and was handled)
        self.req_phase_raised_at = None  # component whose request method raised
        self.routed = False
        self.route_attempted = False
        self.resource = None
        self.responder_calls = 0
        self.m = None  # dependent mode: response methods of components < m are expected
        self.phase = 'REQ'
        self.escaped = False
        self.meta = False  # the request method is a meta method (WEBSOCKET): the framework itself rejects it before anything else runs

    # -- helpers ------------------------------------------------------------------
    def chk(self, name, cond):
        self.v.check('stack-discipline:' + name, cond)

    def complete(self):
        return self.resp.complete

    def not_meta(self):
        # an HTTP request with a meta method is rejected (raise, handled as every other error) before any middleware method, routing or the responder
        self.chk('meta-method-rejected-before-any-request-method-routing-or-responder', Or(Not(self.meta), self.raised))

    # -- request phase ----------------------------------------------------------------
    def fetch_req(self, k):
        """The framework reached component k of the request stack."""
        self.chk('request-stack-walked-top-down-without-skipping', And(self.phase == 'REQ', k == self.visited_req, Not(self.pending_req)))
        self.visited_req = self.visited_req + 1

    def due_req(self, k, has_method):
        # its request method is due iff it has one and nothing completed yet
        self.pending_req = And(has_method, Not(self.complete()))

    def call_req(self, k, args):
        self.not_meta()
        self.chk('request-method-only-while-nothing-completed-or-raised',
                 And(self.phase == 'REQ', self.pending_req, k == self.visited_req - 1, Not(self.complete()), Not(self.raised)))
        self.chk('request-method-arguments', len(args) == 2 and args[0] is self.req and args[1] is self.resp)
        self.pending_req = False

    def req_raised(self, k):
        self.raised = True
        self.req_phase_raised_at = k

    # -- routing -----------------------------------------------------------------------
    def on_route(self):
        self.not_meta()
        all_walked = self.visited_req == self.n_req
        self.chk('routing-after-all-request-methods-and-only-if-nothing-completed-or-raised',
                 And(self.phase == 'REQ', all_walked, Not(self.pending_req), Not(self.complete()), Not(self.raised), Not(self.route_attempted)))
        self.route_attempted = True

    # -- resource phase -------------------------------------------------------------------
    def fetch_rsrc(self, k):
        self.chk('resource-methods-only-after-a-successful-route-match',
                 And(self.routed, self.resource_truthy, k == self.visited_rsrc, Not(self.pending_rsrc), Not(self.raised), Not(self.complete())))
        self.visited_rsrc = self.visited_rsrc + 1
        self.pending_rsrc = True

    def call_rsrc(self, k, args):
        self.chk('resource-method-called-once-in-order', And(self.pending_rsrc, k == self.visited_rsrc - 1, Not(self.raised), Not(self.complete())))
        self.chk('resource-method-arguments', len(args) == 4 and args[0] is self.req and args[1] is self.resp and args[2] is self.resource)
        self.pending_rsrc = False

    def on_responder(self, args):
        self.not_meta()
        rsrc_done = Or(Not(self.resource_truthy), self.visited_rsrc == self.n_rsrc)
        self.chk('responder-only-if-nothing-completed-or-raised',
                 And(self.routed, Not(self.raised), Not(self.complete()), Not(self.pending_rsrc), rsrc_done, self.responder_calls == 0))
        self.chk('responder-arguments', len(args) >= 2 and args[0] is self.req and args[1] is self.resp)
        self.responder_calls += 1

    # -- response phase --------------------------------------------------------------------
    def start_resp_phase(self):
        if self.phase == 'RESP':
            return
        self.phase = 'RESP'
        # a pending request/resource method is acceptable only because something raised or completed
        if not self.independent:
            if self.req_phase_raised_at is not None:
                self.m = self.req_phase_raised_at
            else:
                self.m = self.visited_req

    def expected_resp_len(self):
        if self.independent:
            return self.n_resp
        return mk_int(z3.Length(RR(_i(self.m))))

    def call_resp(self, pos_or_k, args):
        self.start_resp_phase()
        if self.independent:
            self.chk('response-methods-in-prepared-order-exactly-once', pos_or_k == self.visited_resp)
        else:
            n = z3.Length(RR(_i(self.m)))
            self.chk('response-methods-bottom-up-exactly-once-only-for-unfailed-components',
                     And(mk_bool(_i(self.visited_resp) < n), mk_bool(RR(_i(self.m))[_i(self.visited_resp)] == _i(pos_or_k))))
        self.visited_resp = self.visited_resp + 1
        self.chk('response-method-arguments', len(args) == 4 and args[0] is self.req and args[1] is self.resp and args[2] is self.resource)
        if len(args) == 4:
            self.chk('success-flag-true-iff-nothing-raised', Iff(args[3], Not(self.raised)))

    def finish(self):
        """Normal completion of the request-processing half."""
        self.start_resp_phase()
        self.not_meta()
        self.chk('every-expected-response-method-was-called', self.visited_resp == self.expected_resp_len())
        # nothing that was due was skipped unless something raised or completed
        self.chk('no-due-request-method-skipped', Or(Not(self.pending_req), self.raised, self.complete()))
        if not self.independent:
            self.chk('dependent-mode-walks-the-whole-stack-unless-a-request-method-raised',
                     Or(self.visited_req == self.n_req, self.raised))


# ---------------------------------------------------------------------------
# stubs of everything App.__call__ calls


@stubclass
class Resp:
    def __init__(self, v, mon):
        self.v = v
        self.mon = mon
        self.complete = False
        self.status = '200 OK'
        self.status_code = 200
        self._headers = {}
        self.text = None
        self._data = None
        self._media = None

    def _wsgi_headers(self, media_type=None):
        return []

    def render_body(self):
        # ASGI tail: the request-processing half is over
        self.mon.finish()
        self.v.ctx.done()


@stubclass
class Req:
    def __init__(self, method='GET'):
        self.method = method
        self.uri_template = None
        self.path = '/'


@stubclass
class Factory:
    def __init__(self, obj):
        self.obj = obj

    def __call__(self, *a, **k):
        return self.obj


@stubclass
class Callee:
    """An opaque user callable: may mark the response complete, may raise an application error."""

    def __init__(self, v, mon, kind, k, asgi=False):
        self.v = v
        self.mon = mon
        self.kind = kind
        self.k = k
        self.asgi = asgi

    def __pyvc_truth__(self):
        return True

    def __call__(self, *args, **kwargs):
        v, mon = self.v, self.mon
        if self.kind == 'req':
            mon.call_req(self.k, args)
        elif self.kind == 'rsrc':
            mon.call_rsrc(self.k, args)
        elif self.kind == 'resp':
            mon.call_resp(self.k, args)
        elif self.kind == 'responder':
            mon.on_responder(args)
        outcome = v.choose(2, 'outcome-' + self.kind)
        mon.resp.complete = v.bool('complete_after_' + self.kind)
        if outcome == 1:
            if self.kind == 'req':
                mon.req_raised(self.k)
            mon.raised = True
            v.ctx.raise_py(AppError, self.kind)
        return Ready(None) if self.asgi else None


def mk_app(v, target, asgi):
    independent = bool(v.choose(2, 'independent_middleware'))
    n_req = v.int('n_req', 0)
    n_rsrc = v.int('n_rsrc', 0)
    n_resp = v.int('n_resp', 0) if independent else 0
    mon = Monitor(v, independent, n_req, n_rsrc, n_resp)
    # the request method: an ordinary one, or a meta method (constants._META_METHODS) that App.__call__ itself rejects with HTTPBadRequest
    method = v.one_of('request-method', 'GET', 'WEBSOCKET')
    mon.meta = method == 'WEBSOCKET'
    req = Req(method)
    resp = Resp(v, mon)
    mon.req, mon.resp = req, resp

    def req_elem(i):
        mon.fetch_req(i)
        if independent:
            mon.due_req(i, True)
            return Callee(v, mon, 'req', i, asgi)
        hq = mk_bool(HAS_REQ(_i(i))) if not v.concrete else True
        hp = mk_bool(HAS_RESP(_i(i))) if not v.concrete else True
        mon.due_req(i, hq)
        # a component is in the dependent stack only if it has at least one of the two methods
        v.assume(Or(hq, hp))
        rq = Callee(v, mon, 'req', i, asgi) if hq else None
        rp = Callee(v, mon, 'resp', i, asgi) if hp else None
        return (rq, rp)

    def rsrc_elem(i):
        mon.fetch_rsrc(i)
        return Callee(v, mon, 'rsrc', i, asgi)

    def resp_elem(i):
        return Callee(v, mon, 'resp', i, asgi)

    mw = (FnSeq(n_req, req_elem), FnSeq(n_rsrc, rsrc_elem), FnSeq(n_resp, resp_elem) if independent else ())
    responder = Callee(v, mon, 'responder', 0, asgi)

    @stubclass
    class GetResponder:
        def __call__(self_, rq):
            mon.on_route()
            if v.choose(2, 'route-outcome') == 1:
                mon.raised = True
                v.ctx.raise_py(AppError, 'routing')  # e.g. HTTPNotFound from traversal
            mon.routed = True
            has_resource = v.choose(2, 'resource?')
            mon.resource = object() if has_resource else None
            mon.resource_truthy = bool(has_resource)
            return (responder, {}, mon.resource, '/tmpl')

    @stubclass
    class HandleException:
        """Contract of App._handle_exception (C04): a handler exists for every Exception-derived error."""

        def __call__(self_, rq, rs, ex, params, **kw):
            v.check('stack-discipline:error-handling-gets-the-request-response-and-error', rq is req and rs is resp and ex is not None)
            if mon.meta and not ex.isa(AppError):
                # the framework's own rejection of the meta method: it counts as "something raised" (success flag false, no request method runs)
                v.check('stack-discipline:meta-method-rejected-with-bad-request-before-the-request-stack-is-walked',
                        And(ex.isa(v.real('falcon.errors:HTTPBadRequest')), mon.phase == 'REQ', mon.visited_req == 0, Not(mon.route_attempted), Not(mon.raised)))
                mon.raised = True
                v.cover('meta-method-rejected')
            else:
                v.check('stack-discipline:only-errors-of-user-callables-reach-error-handling', ex.isa(AppError))
            # the handler is user code: it may set complete either way; it may itself fail, in which case the call is abandoned
            mon.resp.complete = v.bool('complete_after_handler')
            if v.choose(2, 'handler-outcome') == 1:
                mon.escaped = True
                v.ctx.raise_py(AppError, 'error handler failed')
            return Ready(True) if asgi else True

    @stubclass
    class GetBody:
        def __call__(self_, rs, wrapper=None):
            mon.finish()
            v.ctx.done()

    fields = dict(
        _request_type=Factory(req), _response_type=Factory(resp), req_options=None, resp_options=_Opts(), _middleware=mw,
        _independent_middleware=independent, _get_responder=GetResponder(), _handle_exception=HandleException(),
        _get_body=GetBody(), _standard_response_type=False,
    )
    app = v.obj(target, **fields)
    return app, mon


class _Opts:
    default_media_type = 'application/json'


CUR = {}


def call_loops(target):
    """Loop contracts of App.__call__ (same text for WSGI and ASGI)."""

    def setup(reg, ex):
        key = target + '.__call__'

        def M(L):
            return L['resp'].mon

        # Loop contracts are registered under the loop HEADER (not the ordinal), so that reordering the loops or swapping the two branches of
        # `if self._independent_middleware` does not detach a contract from its loop; obligation ids keep the historical labels for#0..for#3.
        # independent request loop
        reg.loops[(key, 'for process_request in mw_req_stack')] = LoopSpec(
            name='for#0',
            inv=lambda L: And(M(L).visited_req == L['_i_loop'], Not(M(L).pending_req), Not(M(L).raised), Not(L['resp'].complete),
                              M(L).phase == 'REQ', Not(M(L).route_attempted)),
            havoc=lambda ctx, L: _havoc_mon(ctx, M(L), 'req'))

        # dependent request loop (builds the dependent response stack)
        def inv1(L):
            m = M(L)
            dep = L['dependent_mw_resp_stack']
            seq = dep.seq if isinstance(dep, SeqList) else z3.Empty(z3.SeqSort(z3.IntSort()))
            return And(m.visited_req == L['_i_loop'], Not(m.pending_req), Not(m.raised), m.phase == 'REQ', Not(m.route_attempted),
                       mk_bool(seq == RR(_i(L['_i_loop']))))

        def havoc1(ctx, L):
            _havoc_mon(ctx, M(L), 'req')
            L['resp'].complete = ctx.fresh_bool('hv_complete')
            ctx.assume(mk_bool(rr_step(L['_i_loop'])))  # defining equation of the spec function at this index

        reg.loops[(key, 'for (process_request, process_response) in mw_req_stack')] = LoopSpec(
            name='for#1', inv=inv1, havoc=havoc1,
            lists={'dependent_mw_resp_stack': ('ref', lambda k: Callee(CUR['v'], CUR['mon'], 'resp', k, CUR['asgi']), lambda c: c.k)})

        # resource loop
        reg.loops[(key, 'for process_resource in mw_rsrc_stack')] = LoopSpec(
            name='for#2',
            inv=lambda L: And(M(L).visited_rsrc == L['_i_loop'], Not(M(L).pending_rsrc), Not(M(L).raised), Not(L['resp'].complete),
                              M(L).routed, M(L).resource_truthy, M(L).responder_calls == 0),
            havoc=lambda ctx, L: _havoc_mon(ctx, M(L), 'rsrc'))

        # response loop
        def inv3(L):
            m = M(L)
            return And(m.visited_resp == L['_i_loop'], Iff(L['req_succeeded'], Not(m.raised)))

        def havoc3(ctx, L):
            m = M(L)
            _havoc_mon(ctx, m, 'resp')
            L['resp'].complete = ctx.fresh_bool('hv_complete')
            m.raised = Or(m.raised, ctx.fresh_bool('hv_raised'))  # failures only accumulate

        reg.loops[(key, 'for process_response in mw_resp_stack or dependent_mw_resp_stack')] = LoopSpec(name='for#3', inv=inv3, havoc=havoc3)
        # ... and under their ordinals as well (for#0..for#3 on the unchanged tree, see contracts/loop_headers.json): when a header text changes
        # (the iterable named in a local, a renamed loop variable) the ordinal still finds the contract; when loops are reordered the header does
        for _hdr, _spec in [(h, sp) for (k, h), sp in list(reg.loops.items()) if k == key and h.startswith('for ')]:
            reg.loops[(key, _spec.name)] = _spec
        reg.inline.update(['falcon.asgi.app:_validate_asgi_scope'])

    return setup


def _havoc_mon(ctx, mon, which):
    if which == 'req':
        mon.visited_req = ctx.fresh_int('hv_visited_req')
    elif which == 'rsrc':
        mon.visited_rsrc = ctx.fresh_int('hv_visited_rsrc')
    elif which == 'resp':
        mon.visited_resp = ctx.fresh_int('hv_visited_resp')


@harness(PROP, WSGI + '.__call__', setup=call_loops(WSGI))
def wsgi_call_discipline(v):
    v.expect_covers('meta-method-rejected')
    app, mon = mk_app(v, WSGI, asgi=False)
    CUR.update(v=v, mon=mon, asgi=False)
    v.assume(mk_bool(RR(0) == z3.Empty(z3.SeqSort(z3.IntSort()))))
    out = v.call(app, {}, _start_response)
    # reaching here means __call__ returned or raised before the tail stub ended the path
    if out.exc is not None:
        v.check('stack-discipline:only-a-failing-error-handler-abandons-the-call', mon.escaped)
    else:
        v.check('stack-discipline:call-reaches-body-rendering', False)


def _start_response(status, headers, exc_info=None):
    return None


@stubclass
class _Receive:
    def __call__(self):
        return Ready({'type': 'http.request', 'body': b'', 'more_body': False})


@stubclass
class _Send:
    def __call__(self, event):
        return Ready(None)


@harness(PROP, ASGI + '.__call__', setup=call_loops(ASGI))
def asgi_call_discipline(v):
    v.expect_covers('meta-method-rejected')
    app, mon = mk_app(v, ASGI, asgi=True)
    CUR.update(v=v, mon=mon, asgi=True)
    v.assume(mk_bool(RR(0) == z3.Empty(z3.SeqSort(z3.IntSort()))))
    scope = {'type': 'http', 'asgi': {'version': '3.0', 'spec_version': '2.1'}, 'http_version': '1.1'}
    out = v.call(app, scope, _Receive(), _Send())
    if out.exc is not None:
        v.check('stack-discipline:only-a-failing-error-handler-abandons-the-call', mon.escaped)
    else:
        v.check('stack-discipline:call-reaches-body-rendering', False)


ASSUMPTIONS = [
    'opaque user callables (middleware methods, responder, error handlers) may set resp.complete either way and may raise any Exception-derived error; '
    'they do not call back into the framework',
    'App._handle_exception returns True for every Exception-derived error (registry invariant, C04) or propagates a failure of the handler itself',
    'the request method is an ordinary one ("GET") or a meta method ("WEBSOCKET"): App.__call__ reads it only to reject meta methods (which method the '
    'responder serves is C02)',
    'inputs left at one value because only the response tail (C05) or request construction (C06) reads them: resp_options.default_media_type, req_options None, '
    '_standard_response_type False (chosen so that the ASGI tail ends at the render_body stub), the ASGI scope (http 1.1 / spec 2.1) and the single '
    'http.request event, status 200 and empty headers on the response stub',
    'prepare_middleware: iscoroutinefunction() answers "coroutine" for every method on ASGI and "plain function" on WSGI (the CompatibilityError raised for a '
    'mismatch is interface validation, not stack order); _wrap_non_coroutine_unsafe is the identity',
    'hooks: the responder has the argument names (req, resp, id, name); the hook is given one extra positional and one extra keyword argument',
]
NOT_DECIDED = [
    'class-level use of the before / after decorators: decided for three class shapes (own / inherited / two-level with override), not for arbitrary metaclasses, descriptors or slots',
]
TRUSTED = ['ghost Monitor (specification automaton) and stubs Callee/GetResponder/HandleException/Resp/Req in contracts/C03_middleware.py',
           'spec function RR(m) = response methods of components 0..m-1, highest index first; its defining equation is assumed at the loop index']


_APP = 'falcon/app.py'
_AAPP = 'falcon/asgi/app.py'
KILLS = [
    (_APP, "                    process_request(req, resp)  # type: ignore[operator]\n                    if resp.complete:\n                        break\n",
     "                    process_request(req, resp)  # type: ignore[operator]\n", 'inv:for#0:preserve'),
    (_APP, "                        dependent_mw_resp_stack.insert(0, process_response)  # type: ignore[arg-type]\n",
     "                        dependent_mw_resp_stack.append(process_response)  # type: ignore[arg-type]\n", 'inv:for#1:preserve'),
    (_APP, "                if not resp.complete:\n                    responder(req, resp, **params)\n", "                responder(req, resp, **params)\n",
     'responder-only-if-nothing-completed-or-raised'),
    (_APP, "                    raise\n\n                req_succeeded = False\n\n        body: Iterable[bytes] = []", "                    raise\n\n        body: Iterable[bytes] = []",
     'inv:for#3:preserve'),
    (_APP, "                if resource:\n                    # Call process_resource middleware methods.\n", "                if True:\n                    # Call process_resource middleware methods.\n",
     'inv:for#2:entry'),
    (_APP, "                    if process_request and not resp.complete:\n", "                    if process_request:\n", 'request-method-only-while-nothing-completed-or-raised'),
    (_APP, "                    if process_response:\n                        dependent_mw_resp_stack.insert(0, process_response)  # type: ignore[arg-type]\n",
     "                    if process_response and not resp.complete:\n                        dependent_mw_resp_stack.insert(0, process_response)  # type: ignore[arg-type]\n", 'inv:for#1:preserve'),
    (_APP, "                req_succeeded = True\n            except Exception as ex:", "            except Exception as ex:", 'inv:for#3:entry'),
    # the request method used to be fixed to GET: a meta method (WEBSOCKET) sent over HTTP is no longer rejected before the stack is walked
    (_APP, "            if req.method in self._META_METHODS:\n                raise HTTPBadRequest()\n", "", 'meta-method-rejected-before-any-request-method-routing-or-responder'),
]
KILLS += [
    (_AAPP, "                    await process_request(req, resp)  # type: ignore[operator]\n\n                    if resp.complete:\n                        break\n",
     "                    await process_request(req, resp)  # type: ignore[operator]\n", 'falcon.asgi.app:App.__call__#inv:for#0:preserve'),
    (_AAPP, "                        dependent_mw_resp_stack.insert(0, process_response)\n", "                        dependent_mw_resp_stack.append(process_response)\n",
     'falcon.asgi.app:App.__call__#inv:for#1:preserve'),
    (_AAPP, "                if not resp.complete:\n                    await responder(req, resp, **params)\n", "                await responder(req, resp, **params)\n",
     'falcon.asgi.app:App.__call__#'),
    (_AAPP, "            if req.method in self._META_METHODS:\n                raise HTTPBadRequest()\n\n", "", 'falcon.asgi.app:App.__call__#'),
    (_AAPP, "                for handler in reversed(self._unprepared_middleware):\n", "                for handler in self._unprepared_middleware:\n",
     '_call_lifespan_handlers#lifespan:handler'),
    (_AAPP, """                                    'type': EventType.LIFESPAN_STARTUP_FAILED,
                                    'message': traceback.format_exc(),
                                }
                            )
                            return
""", """                                    'type': EventType.LIFESPAN_STARTUP_FAILED,
                                    'message': traceback.format_exc(),
                                }
                            )
""", '_call_lifespan_handlers#'),
    (_AAPP, "                await send({'type': EventType.LIFESPAN_SHUTDOWN_COMPLETE})\n                return\n", "                return\n", '_call_lifespan_handlers#lifespan:returns-only-after-answering'),
    # the ASGI version used to be '3.0' / '2.0' only: a server that sends no version key is taken for ASGI 3; only the spelling '3.0' is accepted
    (_AAPP, "                version = asgi_info.get('version', '2.0 (implicit)')\n", "                version = asgi_info.get('version', '3.0')\n",
     '_call_lifespan_handlers#inv:for#0:entry'),  # the handler walk starts although the configuration error was due
    (_AAPP, "                if not version.startswith('3.'):\n", "                if version != '3.0':\n", '_call_lifespan_handlers#lifespan:failed-only-after-a-failure'),
]
HARMLESS = [
    (_APP, "        req_succeeded = False\n\n        try:\n            if req.method in self._META_METHODS:", "        req_succeeded = False\n        meta = self._META_METHODS\n\n        try:\n            if req.method in meta:"),
]


# ---------------------------------------------------------------------------
# ASGI lifespan: startup handlers in order, shutdown handlers in reverse, the
# first failure is reported (exactly one *.failed event) and stops the sequence

HAS_STARTUP = z3.Function('has_startup', z3.IntSort(), z3.BoolSort())
HAS_SHUTDOWN = z3.Function('has_shutdown', z3.IntSort(), z3.BoolSort())


class LifespanMonitor:
    def __init__(self, v, n):
        self.v = v
        self.n = n
        self.event = None  # 'startup' | 'shutdown' | 'other' currently being handled
        self.visited = 0  # handlers of the current event fetched so far
        self.pending = False  # the fetched handler's method is due
        self.failed = False  # a handler of the current event raised
        self.sent = 0  # events sent for the current lifespan event
        self.stopped = False  # a *.failed event was sent: nothing may follow
        self.config_error = False

    def chk(self, name, cond):
        self.v.check('lifespan:' + name, cond)

    def on_receive(self, kind):
        self.chk('previous-event-was-answered-exactly-once', Or(self.event is None, self.event == 'other', self.sent == 1))
        self.chk('nothing-after-a-failure', Not(self.stopped))
        self.event, self.visited, self.pending, self.failed, self.sent = kind, 0, False, False, 0

    def fetch(self, pos):
        """Handler at position `pos` of the walk (0 = first visited) is reached."""
        self.chk('handlers-walked-in-order-without-skipping', And(pos == self.visited, Not(self.pending), Not(self.failed), self.sent == 0, Not(self.stopped)))
        self.visited = self.visited + 1

    def due(self, has_method):
        self.pending = has_method

    def call(self, pos, which, args):
        self.chk('handler-called-once-in-order-for-the-right-event',
                 And(self.pending, pos == self.visited - 1, which == self.event, Not(self.failed), self.sent == 0))
        self.pending = False

    def on_send(self, typ):
        ok_complete = And(self.visited == self.n, Not(self.pending), Not(self.failed), Not(self.config_error))
        if typ.endswith('.complete'):
            self.chk('complete-only-after-every-handler-ran-without-failure', And(ok_complete, typ == 'lifespan.%s.complete' % self.event))
        else:
            self.chk('failed-only-after-a-failure', And(Or(self.failed, self.config_error), typ == 'lifespan.%s.failed' % self.event))
            self.stopped = True
        self.chk('exactly-one-answer-per-event', self.sent == 0)
        self.sent = self.sent + 1

    def on_return(self):
        self.chk('returns-only-after-answering', Or(self.event is None, self.sent == 1))
        self.chk('returns-only-after-shutdown-or-failure', Or(self.event == 'shutdown', self.stopped))


@stubclass
class _HandlerWith:
    def __init__(self, v, mon, pos, which):
        self._v, self._mon, self._pos = v, mon, pos
        if which in ('startup', 'both'):
            self.process_startup = _LifespanMethod(v, mon, pos, 'startup')
        if which in ('shutdown', 'both'):
            self.process_shutdown = _LifespanMethod(v, mon, pos, 'shutdown')


@stubclass
class _LifespanMethod:
    def __init__(self, v, mon, pos, which):
        self.v, self.mon, self.pos, self.which = v, mon, pos, which

    def __call__(self, scope, event):
        self.mon.call(self.pos, self.which, (scope, event))
        if self.v.choose(2, 'handler-outcome') == 1:
            self.mon.failed = True
            self.v.ctx.raise_py(AppError, 'lifespan handler failed')
        return Ready(None)


def _lifespan_setup(reg, ex):
    key = ASGI + '._call_lifespan_handlers'

    def M(L):
        return L['send'].mon

    reg.loops[(key, 'while#0')] = LoopSpec(inv=lambda L: And(Not(M(L).stopped), Or(M(L).event is None, M(L).event == 'other', M(L).sent == 1)))

    def inv(idx):
        return lambda L: And(M(L).visited == L[idx], Not(M(L).pending), Not(M(L).failed), M(L).sent == 0, Not(M(L).stopped), Not(M(L).config_error))

    def hv(ctx, L):
        M(L).visited = ctx.fresh_int('hv_visited')

    reg.loops[(key, 'for#0')] = LoopSpec(inv=inv('_i_for0'), havoc=hv)
    reg.loops[(key, 'for#1')] = LoopSpec(inv=inv('_i_for1'), havoc=hv)


@harness(PROP, ASGI + '._call_lifespan_handlers', setup=_lifespan_setup)
def asgi_lifespan(v):
    n = v.int('n_components', 0)
    mon = LifespanMonitor(v, n)

    def elem_for(event_kind, reverse):
        def elem(i):
            # position in the walk is i; the component index is i (startup) or n-1-i (shutdown)
            comp = (n - 1 - i) if reverse else i
            mon.fetch(i)
            hs = mk_bool(HAS_STARTUP(_i(comp)))
            hd = mk_bool(HAS_SHUTDOWN(_i(comp)))
            which = ('both' if hd else 'startup') if hs else ('shutdown' if hd else 'none')
            mon.due(hs if event_kind == 'startup' else hd)
            return _HandlerWith(v, mon, i, which)
        return elem

    @stubclass
    class Components:
        """app._unprepared_middleware: n components; walked forward on startup, through reversed() on shutdown."""

        def __pyvc_seq__(self_):
            return FnSeq(n, elem_for('startup', False))

        def __pyvc_reversed__(self_):
            return FnSeq(n, elem_for('shutdown', True))

    @stubclass
    class Receive:
        def __call__(self_):
            k = v.choose(3, 'lifespan-event')
            kind = ['startup', 'shutdown', 'other'][k]
            mon.on_receive(kind)
            return Ready({'type': 'lifespan.' + kind if kind != 'other' else 'lifespan.unknown'})

    @stubclass
    class Send:
        def __init__(self_):
            self_.mon = mon

        def __call__(self_, event):
            mon.on_send(str(getattr(event['type'], 'value', event['type'])))
            return Ready(None)

    # scope['asgi']['version'] as the server gives it: two 3.x spellings, 2.0, or no version key at all (2.0 is implied then)
    ver_k = v.choose(4, 'asgi-version')
    ver_ok = ver_k < 2
    form_opt = v.choose(2, 'auto_parse_form_urlencoded?')
    mon.config_error_possible = (not ver_ok) or bool(form_opt)

    class _ReqOpts:
        _auto_parse_form_urlencoded = bool(form_opt)

    app = v.obj(ASGI, _unprepared_middleware=Components(), req_options=_ReqOpts())
    scope = {'type': 'lifespan', 'asgi': {} if ver_k == 3 else {'version': ['3.0', '3.1', '2.0'][ver_k]}}
    # a configuration error (ASGI 2, or the deprecated form option) is reported as a startup failure
    orig_on_receive = mon.on_receive

    def on_receive(kind):
        orig_on_receive(kind)
        mon.config_error = kind == 'startup' and ((not ver_ok) or bool(form_opt))

    mon.on_receive = on_receive
    out = v.call(app, '2.1', scope, Receive(), Send())
    v.check('lifespan:no-exception-escapes', out.exc is None)
    if out.exc is None:
        mon.on_return()
        v.cover('lifespan-returns')


# ---------------------------------------------------------------------------
# before / after hooks: action before (after) the responder, each exactly once,
# the responder only if the before-action did not raise, the after-action only
# if the responder did not raise; stacking = nesting of these wrappers.

HOOKS = 'falcon.hooks'


def _hooks_setup(is_coro):
    def setup(reg, ex):
        import falcon.hooks as fh

        reg.add_model(fh.get_argnames, lambda I, fn: ['req', 'resp', 'id', 'name'])
        reg.add_model(fh.iscoroutinefunction, lambda I, fn: is_coro)
        reg.add_model(fh._wrap_non_coroutine_unsafe, lambda I, fn: fn)
        reg.inline.update([HOOKS + ':_merge_responder_args'])

    return setup


def _hook_harness(which, is_coro):
    def h(v):
        log = []

        @stubclass
        class Step:
            def __init__(self_, name):
                self_.name = name

            def __call__(self_, *a, **k):
                log.append((self_.name, a, dict(k)))
                if v.choose(2, self_.name + '-outcome') == 1:
                    v.ctx.raise_py(AppError, self_.name)
                return Ready(None) if is_coro else None

        responder, action = Step('responder'), Step('action')
        a1, k1 = object(), object()
        out = v.call(responder, action, (a1,), {'extra': k1})
        v.check('wrapper-built', out.exc is None)
        if out.exc is not None or v.concrete:
            return
        wrapped = out.value
        rsrc, req, resp = object(), object(), object()
        # how the route fields reach the wrapper: as keywords (the framework), positionally, or mixed (an app calling super().on_get(req, resp, id, name=...))
        positional = v.choose(3, 'extra-args-positional?')
        pid, pname = object(), object()
        if positional == 1:
            r = v.interp.run(wrapped, (rsrc, req, resp, pid, pname), {})
        elif positional == 2:
            r = v.interp.run(wrapped, (rsrc, req, resp, pid), {'name': pname})
        else:
            r = v.interp.run(wrapped, (rsrc, req, resp), {'id': pid, 'name': pname})
        names = [e[0] for e in log]
        first, second = ('action', 'responder') if which == 'before' else ('responder', 'action')
        v.check('first-step-runs-exactly-once-first', len(names) >= 1 and names[0] == first and names.count(first) == 1)
        first_raised = r.exc is not None and len(names) == 1
        v.check('second-step-runs-exactly-once-iff-first-did-not-raise', (names == [first]) if first_raised else (names == [first, second]))
        some_step_raised = any(lbl.endswith('-outcome=1') for lbl in v.ctx.labels)
        v.check('error-of-a-step-propagates', (r.exc is not None) == some_step_raised)
        for name, a, k in log:
            if name == 'responder':
                v.check('responder-gets-resource-req-resp-and-params-as-keywords',
                        len(a) == 3 and a[0] is rsrc and a[1] is req and a[2] is resp and k.get('id') is pid and k.get('name') is pname and len(k) == 2)
            elif which == 'before':
                v.check('before-action-gets-req-resp-resource-params-and-hook-arguments',
                        len(a) == 5 and a[0] is req and a[1] is resp and a[2] is rsrc and isinstance(a[3], dict) and a[3].get('id') is pid
                        and a[3].get('name') is pname and a[4] is a1 and k == {'extra': k1})
            else:
                v.check('after-action-gets-req-resp-resource-and-hook-arguments',
                        len(a) == 4 and a[0] is req and a[1] is resp and a[2] is rsrc and a[3] is a1 and k == {'extra': k1})
        v.cover('hook-wrapper-ran')

    return h


for _w in ('before', 'after'):
    for _c in (False, True):
        harness(PROP, HOOKS + ':_wrap_with_' + _w, name='hook_%s[%s]' % (_w, 'async' if _c else 'sync'), setup=_hooks_setup(_c))(_hook_harness(_w, _c))

# class-level use: @falcon.before(action) / @falcon.after(action) on a resource CLASS wraps every responder the class HAS -- its own and the
# inherited ones, plain and suffixed -- with the per-responder wrapper (contract above), and nothing else.


def _class_hooks_setup(which):
    def setup(reg, ex):
        def wrap(I, responder, action, args, kwargs):
            return ('wrapped', which, responder, action, args, kwargs)

        reg.stubs[HOOKS + ':_wrap_with_' + which] = wrap

    return setup


def _mk_resource_classes(shape):
    """Real classes (the decorator works on the class object itself).  shape: 0 = everything defined on the class, 1 = responders inherited
    from a base, 2 = two levels, the middle one overriding one responder."""

    class Root:
        def on_get(self, req, resp):
            pass

        def on_get_item(self, req, resp, id):
            pass

        def on_propfind(self, req, resp):  # a WebDAV method
            pass

        def helper(self):
            pass

        def on_getaway(self, req, resp):  # looks similar, is not a responder name
            pass

        on_patch = True  # not callable
        on_put = None

    if shape == 0:
        cls = Root
    elif shape == 1:
        class Leaf(Root):
            def on_post(self, req, resp):
                pass

        cls = Leaf
    else:
        class Mid(Root):
            def on_get(self, req, resp):
                pass

        class Leaf2(Mid):
            def on_delete_item(self, req, resp, id):
                pass

        cls = Leaf2
    return cls


def _class_hook_harness(which):
    def h(v):
        import inspect
        import re

        shape = v.choose(3, 'class-shape')
        cls = _mk_resource_classes(shape)
        bases_before = [dict(vars(b)) for b in cls.__mro__[1:-1]]
        before = {n: getattr(cls, n) for n in dir(cls) if not n.startswith('__')}
        action, a1, k1 = object(), object(), object()
        out = v.call(action, a1, extra=k1)
        v.check('decorator-built', out.exc is None)
        if out.exc is not None:
            return
        deco = out.value
        r = v.interp.run(deco, (cls,), {}) if not v.concrete else None
        if v.concrete:
            return
        v.check('decorating-a-class-never-fails-and-returns-the-class', r.exc is None and r.value is cls)
        if r.exc is not None:
            return
        from falcon.constants import COMBINED_METHODS

        name_ok = re.compile(r'^on_(%s)(_\w+)?$' % '|'.join(m.lower() for m in COMBINED_METHODS))
        wrapped_names, untouched_ok, args_ok = [], True, True
        for n, old in before.items():
            new = inspect.getattr_static(cls, n) if n in vars(cls) else getattr(cls, n)
            is_responder = callable(old) and name_ok.match(n) is not None
            if is_responder:
                ok = isinstance(new, tuple) and new[0] == 'wrapped' and new[1] == which
                if ok:
                    wrapped_names.append(n)
                    args_ok = args_ok and new[2] is old and new[3] is action and tuple(new[4]) == (a1,) and dict(new[5]) == {'extra': k1}
            else:
                untouched_ok = untouched_ok and new is old
        want = sorted(n for n, old in before.items() if callable(old) and name_ok.match(n) is not None)
        v.check('every-responder-the-class-has-own-or-inherited-is-wrapped', sorted(wrapped_names) == want, wrapped=sorted(wrapped_names), want=want)
        v.check('each-wrapper-wraps-the-original-responder-with-the-hook-and-its-arguments', args_ok)
        v.check('nothing-but-responders-is-replaced', untouched_ok)
        v.check('base-classes-are-left-untouched', [dict(vars(b)) for b in cls.__mro__[1:-1]] == bases_before)
        v.cover('class-decorated')

    return h


for _w in ('before', 'after'):
    harness(PROP, HOOKS + ':' + _w, name='class_level_%s' % _w, setup=_class_hooks_setup(_w))(_class_hook_harness(_w))


KILLS += [
    # class-level decoration only looks at the class's own namespace: inherited responders lose their hooks
    ('falcon/hooks.py', "            for responder_name, responder in getmembers(\n                responder_or_resource, callable\n            ):\n                if _DECORABLE_METHOD_NAME.match(responder_name):\n                    responder = cast('Responder', responder)\n                    do_before_all",
     "            for responder_name, responder in list(vars(responder_or_resource).items()):\n                if callable(responder) and _DECORABLE_METHOD_NAME.match(responder_name):\n                    responder = cast('Responder', responder)\n                    do_before_all",
     'before#every-responder-the-class-has-own-or-inherited-is-wrapped'),
    ('falcon/hooks.py', "                if _DECORABLE_METHOD_NAME.match(responder_name):\n                    responder = cast('Responder', responder)\n                    do_after_all",
     "                if responder_name.startswith('on_'):\n                    responder = cast('Responder', responder)\n                    do_after_all",
     'after#nothing-but-responders-is-replaced'),
]
KILLS += [
    ('falcon/hooks.py', "            sync_action(req, resp, self, kwargs, *action_args, **action_kwargs)\n            sync_responder(self, req, resp, **kwargs)\n",
     "            sync_responder(self, req, resp, **kwargs)\n            sync_action(req, resp, self, kwargs, *action_args, **action_kwargs)\n", '_wrap_with_before#first-step-runs-exactly-once-first'),
    ('falcon/hooks.py', "            await async_responder(self, req, resp, **kwargs)\n            await async_action(req, resp, self, *action_args, **action_kwargs)\n",
     "            await async_action(req, resp, self, *action_args, **action_kwargs)\n            await async_responder(self, req, resp, **kwargs)\n", '_wrap_with_after#first-step-runs-exactly-once-first'),
    # route fields given partly positionally, partly as keywords (used to be all-positional / all-keywords only): the positional ones are dropped
    ('falcon/hooks.py', "            if args:\n                _merge_responder_args(args, kwargs, extra_argnames)\n\n            sync_action(req, resp, self, kwargs, *action_args, **action_kwargs)\n",
     "            if args and not kwargs:\n                _merge_responder_args(args, kwargs, extra_argnames)\n\n            sync_action(req, resp, self, kwargs, *action_args, **action_kwargs)\n",
     '_wrap_with_before#'),
]


# ---------------------------------------------------------------------------
# prepare_middleware: the stacks App.__call__ walks are exactly the documented
# ones.  Components are identified by index; which methods a component has is an
# uninterpreted predicate of the index.  Spec functions (defining equations
# assumed at the loop index):
#   FQ(i) / FS(i) / FD(i) = indices k < i (ascending) with a request / resource /
#   (request or response) method;  RR(i) = indices k < i (descending) with a response method.

HELP = 'falcon.app_helpers'
HAS_RSRC = z3.Function('has_rsrc', z3.IntSort(), z3.BoolSort())
_SEQ = z3.SeqSort(z3.IntSort())
FQ = z3.Function('FQ', z3.IntSort(), _SEQ)
FS = z3.Function('FS', z3.IntSort(), _SEQ)
FD = z3.Function('FD', z3.IntSort(), _SEQ)


def _asc_step(F, pred, i):
    ii = _i(i)
    return z3.And(F(0) == z3.Empty(_SEQ), F(ii + 1) == z3.If(pred(ii), z3.Concat(F(ii), z3.Unit(ii)), F(ii)))


@stubclass
class _Method:
    """A bound middleware method, identified by (kind, component index)."""

    def __init__(self, kind, k):
        self.kind, self.k = kind, k
        self.__self__ = object()

    def __pyvc_truth__(self):
        return True


@stubclass
class _Component:
    def __init__(self, k, hq, hs, hp, suffix='', decoy_suffix=None, other=None):
        self.k = k
        if hq:
            setattr(self, 'process_request' + suffix, _Method('req', k))
        if hs:
            setattr(self, 'process_resource' + suffix, _Method('rsrc', k))
        if hp:
            setattr(self, 'process_response' + suffix, _Method('resp', k))
        if decoy_suffix is not None:
            # the same methods implemented side by side under the OTHER interface's names (documented pattern for components shared between a WSGI
            # and an ASGI app): they must not be picked -- a decoy is identified by the impossible index -1 - k
            for has, name in ((hq, 'process_request'), (hs, 'process_resource'), (hp, 'process_response')):
                if has:
                    setattr(self, name + decoy_suffix, _Method('decoy', -1 - k))
        if other is not None:
            setattr(self, other, _Method('other', k))  # a lifespan / WebSocket method: not part of the three HTTP stacks


OTHER_METHODS = ['process_startup', 'process_shutdown', 'process_request_ws', 'process_resource_ws']


def _unwrap_mw(x):
    if isinstance(x, tuple):
        return (x[0] if x[0] is not None else x[1]).k
    return x.k


def _prep_setup(asgi):
    def setup(reg, ex):
        import falcon.app_helpers as ah

        key = HELP + ':prepare_middleware'
        reg.add_model(ah.iscoroutinefunction, lambda I, fn: asgi)
        reg.add_model(ah._wrap_non_coroutine_unsafe, lambda I, fn: fn)
        reg.add_model(ah.util.is_python_func, lambda I, fn: True)
        reg.inline.update(['falcon.util.misc:get_bound_method'])

        def seq_of(x):
            return x.seq if isinstance(x, SeqList) else z3.Empty(_SEQ)

        def inv(L):
            i = _i(L['_i_for0'])
            if CUR['independent']:
                return And(mk_bool(seq_of(L['request_mw']) == FQ(i)), mk_bool(seq_of(L['response_mw']) == RR(i)), mk_bool(seq_of(L['resource_mw']) == FS(i)))
            return And(mk_bool(seq_of(L['request_mw']) == FD(i)), mk_bool(seq_of(L['response_mw']) == z3.Empty(_SEQ)), mk_bool(seq_of(L['resource_mw']) == FS(i)))

        def hv(ctx, L):
            i = L['_i_for0']
            ctx.assume(mk_bool(z3.And(rr_step(i), _asc_step(FQ, HAS_REQ, i), _asc_step(FS, HAS_RSRC, i),
                                      _asc_step(FD, lambda k: z3.Or(HAS_REQ(k), HAS_RESP(k)), i))))

        ref = ('ref', lambda k: k, _unwrap_mw)
        reg.loops[(key, 'for#0')] = LoopSpec(inv=inv, havoc=hv, lists={'request_mw': ref, 'resource_mw': ref, 'response_mw': ref})
        # tuple(list) of a symbolic list: an immutable snapshot of the same sequence
        import builtins

        def m_tuple(I, x=()):
            if isinstance(x, SeqList):
                return x
            return tuple(I.iterate(x))

        reg.add_model(builtins.tuple, m_tuple)

    return setup


def _prep_harness(asgi):
    def h(v):
        v.expect_covers(*(['prepared'] + (['component-with-lifespan-or-websocket-methods-only'] if asgi else [])))
        independent = bool(v.choose(2, 'independent_middleware'))
        CUR.update(independent=independent)
        n = v.int('n_components', 0)
        if v.concrete:
            return
        for F in (FQ, FS, FD, RR):
            v.assume(mk_bool(F(0) == z3.Empty(_SEQ)))

        def comp(i):
            hq, hs, hp = mk_bool(HAS_REQ(_i(i))), mk_bool(HAS_RSRC(_i(i))), mk_bool(HAS_RESP(_i(i)))
            hq, hs, hp = bool(hq), bool(hs), bool(hp)
            if not (hq or hs or hp):
                # none of the three HTTP methods: on ASGI a component that only has lifespan / WebSocket methods is legal and contributes nothing
                # to the three stacks; every other empty component is rejected (harness prepare_rejects_empty)
                if not asgi:
                    v.cut()
                v.cover('component-with-lifespan-or-websocket-methods-only')
                return _Component(i, False, False, False, other=OTHER_METHODS[v.choose(len(OTHER_METHODS), 'other-method')])
            # naming: the interface's own names only / (ASGI) the *_async names only / both variants side by side
            if asgi:
                nm = v.choose(3, 'async-suffix?')
                return _Component(i, hq, hs, hp, '_async' if nm else '', '' if nm == 2 else None)
            return _Component(i, hq, hs, hp, '', '_async' if v.choose(2, 'async-twins?') else None)

        out = v.call(FnSeq(n, comp), independent, asgi)
        v.check('no-exception', out.exc is None)
        if out.exc is not None:
            return
        rq, rs, rp = out.value

        def sq(x):
            return x.seq if isinstance(x, SeqList) else z3.Empty(_SEQ)

        nn = _i(n)
        if independent:
            v.check('independent-request-stack-is-request-methods-in-order', mk_bool(sq(rq) == FQ(nn)))
            v.check('independent-response-stack-is-response-methods-reversed', mk_bool(sq(rp) == RR(nn)))
        else:
            v.check('dependent-request-stack-pairs-every-component-with-a-request-or-response-method-in-order', mk_bool(sq(rq) == FD(nn)))
            v.check('dependent-response-stack-is-empty', mk_bool(sq(rp) == z3.Empty(_SEQ)))
        v.check('resource-stack-is-resource-methods-in-order', mk_bool(sq(rs) == FS(nn)))
        v.cover('prepared')

    return h


for _a in (False, True):
    harness(PROP, HELP + ':prepare_middleware', name='prepare_middleware[%s]' % ('asgi' if _a else 'wsgi'), setup=_prep_setup(_a))(_prep_harness(_a))


@harness(PROP, HELP + ':prepare_middleware', name='prepare_rejects_empty', inline=['falcon.util.misc:get_bound_method'])
def prepare_rejects_empty(v):
    """A component with none of the three methods is rejected with TypeError -- except, on ASGI, one that has a lifespan / WebSocket method."""
    v.expect_covers('rejected', 'lifespan-only-component-accepted-on-asgi')

    class Empty:
        pass

    comp = Empty()
    asgi = bool(v.choose(2, 'asgi'))
    ok = v.choose(len(OTHER_METHODS) + 1, 'other-method')
    if ok:
        setattr(comp, OTHER_METHODS[ok - 1], _Method('other', 0))
    out = v.call([comp], bool(v.choose(2, 'independent_middleware')), asgi)
    if asgi and ok:
        v.check('lifespan-or-websocket-only-component-contributes-nothing-to-the-http-stacks', out.exc is None and out.value == ((), (), ()))
        v.cover('lifespan-only-component-accepted-on-asgi')
    else:
        v.check('component-without-methods-rejected', out.exc is not None and out.exc.isa(TypeError))
        v.cover('rejected')


_HLP = 'falcon/app_helpers.py'
KILLS += [
    (_HLP, "                response_mw.insert(0, process_response)  # type: ignore[arg-type]\n", "                response_mw.append(process_response)  # type: ignore[arg-type]\n",
     'prepare_middleware#inv:for#0:preserve'),
    (_HLP, "            if process_request or process_response:\n                request_mw.append((process_request, process_response))",
     "            if process_request:\n                request_mw.append((process_request, process_response))", 'prepare_middleware#inv:for#0:preserve'),
    (_HLP, "        if process_resource:\n            resource_mw.append(process_resource)", "        if process_resource:\n            resource_mw.insert(0, process_resource)",
     'prepare_middleware#inv:for#0:preserve'),
    # components that implement both variants side by side (used to be: one naming per component): ASGI prefers the plain method
    (_HLP, "                util.get_bound_method(component, 'process_response_async')\n                or _wrap_non_coroutine_unsafe(\n                    util.get_bound_method(component, 'process_response')\n                )\n",
     "                _wrap_non_coroutine_unsafe(\n                    util.get_bound_method(component, 'process_response')\n                )\n                or util.get_bound_method(component, 'process_response_async')\n",
     'prepare_middleware#inv:for#0:preserve'),
    # WSGI picks up a *_async twin
    (_HLP, "            process_resource = util.get_bound_method(component, 'process_resource')\n",
     "            process_resource = util.get_bound_method(component, 'process_resource_async') or util.get_bound_method(component, 'process_resource')\n",
     'prepare_middleware#inv:for#0:preserve'),
    # ASGI components with lifespan / WebSocket methods only (used to be assumed away): process_shutdown alone no longer counts
    (_HLP, "                    'process_startup',\n                    'process_shutdown',\n", "                    'process_startup',\n", 'prepare_middleware#'),
]
