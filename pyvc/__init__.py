"""pyvc -- a small deductive verifier for (a subset of) Python.

Subject functions are re-read from the *current* source text under /repo with
``ast`` on every run and executed symbolically, path by path, against contract
harnesses.  Every contract clause becomes one obligation per path, discharged
by z3 / cvc5.  See /verif/DESIGN.md section 2.
"""
