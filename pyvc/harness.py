"""Contract harnesses: the user-facing layer.

A *harness* is a Python function taking a facade ``v``.  It builds symbolic
arguments (``v.int`` ...), assumes the precondition, calls the real function
(``v.call`` -- symbolic execution of the function's current AST) and states each
postcondition clause with ``v.check``.  The very same harness text runs in
*concrete* mode for replay: ``v.int`` then yields the counter-model's value and
``v.call`` invokes the real function natively.
"""
from __future__ import annotations

import os

import importlib
import sys
import time
import traceback
from typing import Any, Callable, Dict, List, Optional, Tuple

import z3

from . import core, models
from .core import Ctx, ExcVal, Explorer, Obj, Outcome, PathCut, PyRaise, SBool, SInt, SStr, Unreached
from .extract import SourceIndex
from .interp import BoundMethod, Closure, Interp, LoopSpec

HARNESSES: List['HarnessDef'] = []


class HarnessDef:
    def __init__(self, prop: str, target: str, name: str, fn: Callable[[Any], None], **opts: Any) -> None:
        self.prop = prop
        self.target = target
        self.name = name
        self.fn = fn
        self.opts = opts

    @property
    def id(self) -> str:
        return '%s[%s]' % (self.target, self.name)


def harness(prop: str, target: str, name: Optional[str] = None, **opts: Any) -> Callable[[Callable[[Any], None]], Callable[[Any], None]]:
    def deco(fn: Callable[[Any], None]) -> Callable[[Any], None]:
        HARNESSES.append(HarnessDef(prop, target, name or fn.__name__, fn, **opts))
        return fn

    return deco


def stubclass(cls: type) -> type:
    """Mark a contract-side class whose methods are called natively by the executor."""
    cls.__pyvc_stub__ = True  # type: ignore[attr-defined]
    cls.__pyvc_symbolic__ = True  # type: ignore[attr-defined]
    return cls


def native(fn: Callable[..., Any]) -> Callable[..., Any]:
    fn.__pyvc_native__ = True  # type: ignore[attr-defined]
    return fn


class Registry:
    def __init__(self) -> None:
        self.stubs: Dict[str, Callable[..., Any]] = {}
        self.loops: Dict[Tuple[str, str], LoopSpec] = {}
        self.inline: set = set()
        self.inline_all = False
        self.extra_models: Dict[int, Callable[..., Any]] = {}
        self._keep: List[Any] = []
        self.int_parser: Optional[Callable[..., Any]] = None
        self.exc_init_hook: Optional[Callable[..., Any]] = None
        self.yield_hook: Optional[Callable[..., Any]] = None
        self.decorators: Dict[int, Callable[..., Any]] = {}
        self.used_stubs: set = set()
        self.inlined: set = set()
        self.method_models: Dict[Tuple[int, str], Callable[..., Any]] = {}

    def stub_for(self, key: str) -> Optional[Callable[..., Any]]:
        s = self.stubs.get(key)
        if s is not None:
            self.used_stubs.add(key)
        return s

    def may_inline(self, key: str, interp: Interp) -> bool:
        ok = self.inline_all or key in self.inline or '<locals>' in key or '<lambda>' in key
        if not ok:
            for p in self.inline:
                if p.endswith('*') and key.startswith(p[:-1]):
                    ok = True
        if ok and interp.depth > 0:
            self.inlined.add(key)
        if not ok and interp.depth > 0 and not os.environ.get('PYVC_STRICT_INLINE'):
            # a repo function the contract author gave neither a contract nor an inline mark (typically a helper introduced by a later change):
            # executing its source is always sound (more precise than any contract); it is reported in the evidence as inlined by default
            self.inlined.add(key + ' (by default: no contract at this call site)')
            return True
        return ok or interp.depth == 0

    def model_for(self, fn: Any) -> Optional[Callable[..., Any]]:
        try:
            m = self.extra_models.get(id(fn))
        except Exception:
            m = None
        if m is not None:
            return m
        recv = getattr(fn, '__self__', None)
        if recv is not None and self.method_models:
            mm = self.method_models.get((id(recv), getattr(fn, '__name__', '')))
            if mm is not None:
                return mm
        f = getattr(fn, '__func__', None)
        if f is not None and getattr(fn, '__self__', None) is not None:
            m2 = self.extra_models.get(id(f))
            if m2 is not None:
                s = fn.__self__
                return lambda I, *a, **k: m2(I, s, *a, **k)
        return models.MODELS.get(id(fn))

    def add_method_model(self, receiver: Any, name: str, fn: Callable[..., Any]) -> None:
        """Model of receiver.<name>(...) for one particular receiver object (e.g. a compiled regex)."""
        self.method_models[(id(receiver), name)] = fn
        self._keep.append(receiver)

    def add_model(self, obj: Any, fn: Callable[..., Any]) -> None:
        self.extra_models[id(obj)] = fn
        self._keep.append(obj)

    def loop_spec(self, key: str, label: str) -> Optional[LoopSpec]:
        return self.loops.get((key, label))

    def decorator(self, interp: Interp, dv: Any, fn: Any, node: Any) -> Any:
        h = self.decorators.get(id(dv))
        if h is not None:
            return h(interp, fn)
        if isinstance(dv, models._IdentityDecorator):
            return fn
        import functools

        if isinstance(dv, functools.partial) and dv.func is functools.update_wrapper:
            return fn  # functools.wraps(x): metadata only
        name = getattr(dv, '__name__', '')
        if name in ('_wrap_non_coroutine_unsafe',):
            return fn
        return NotImplemented

    def on_yield(self, interp: Interp, frame: Any, v: Any) -> None:
        if self.yield_hook is not None:
            self.yield_hook(interp, frame, v)

    def closure_for_nested(self, interp: Interp, fn: Any) -> Optional[Closure]:
        """Closure of a nested repo function (e.g. the fget/fset made by response_helpers._header_property):
        its def is located by name + first line in the current source, its free variables are bound from the cells."""
        import ast as _ast

        from .interp import Frame

        code = getattr(fn, '__code__', None)
        mod = getattr(fn, '__module__', None)
        if code is None or not mod or not interp.is_repo_module(mod):
            return None
        tree = interp.index.module(mod)[0]
        for node in _ast.walk(tree):
            if isinstance(node, (_ast.FunctionDef, _ast.AsyncFunctionDef)) and node.name == fn.__name__ and node.lineno == code.co_firstlineno:
                parent = Frame(None, sys.modules[mod], None)
                for name, cell in zip(code.co_freevars, fn.__closure__ or ()):
                    parent.locals[name] = cell.cell_contents
                return Closure(node, sys.modules[mod], fn.__qualname__, parent, None, mod)
        return None


class ReplayInvalid(BaseException):
    pass


class ConcreteCtx:
    """Same surface as core.Ctx, over plain Python values taken from a counter-model."""

    concrete = True

    def __init__(self, model: Dict[str, Any], choices: List[int]) -> None:
        self.model = model
        self.choices = list(choices)
        self.cpos = 0
        self.counters: Dict[str, int] = {}
        self.results: List[Tuple[str, bool]] = []
        self.ghost: Dict[str, Any] = {}
        self.stubs: List[Any] = []
        self.trace: List[str] = []

    def _name(self, base: str) -> str:
        k = self.counters.get(base, 0)
        self.counters[base] = k + 1
        return base if k == 0 else '%s!%d' % (base, k)

    def fresh_int(self, base: str = 'i') -> int:
        v = self.model.get(self._name(base), 0)
        return int(v) if not isinstance(v, str) else 0

    def fresh_bool(self, base: str = 'b') -> bool:
        return bool(self.model.get(self._name(base), False))

    def fresh_str(self, base: str = 's', kind: str = 'str') -> Any:
        v = self.model.get(self._name(base), '')
        if not isinstance(v, str):
            v = ''
        return v if kind == 'str' else v.encode('latin-1', 'replace')

    def fresh_bytes(self, base: str = 'bs') -> bytes:
        return self.fresh_str(base, 'bytes')

    def fresh_like(self, v: Any, base: str = 'h') -> Any:
        if isinstance(v, bool):
            return self.fresh_bool(base)
        if isinstance(v, int):
            return self.fresh_int(base)
        if isinstance(v, str):
            return self.fresh_str(base)
        if isinstance(v, bytes):
            return self.fresh_bytes(base)
        return v

    def assume(self, c: Any) -> None:
        if not c:
            raise ReplayInvalid('assumption does not hold on the concrete inputs')

    def choose(self, n: int, label: str = 'ch') -> int:
        if n <= 1:
            return 0
        if self.cpos < len(self.choices):
            ch = self.choices[self.cpos]
            self.cpos += 1
            return ch if ch < n else 0
        return 0

    def check(self, name: str, cond: Any, **meta: Any) -> None:
        self.results.append((name, bool(cond)))

    def cover(self, name: str) -> None:
        pass

    def cut(self) -> None:
        raise PathCut()

    def done(self) -> None:
        raise core.PathDone()

    def raise_py(self, cls: type, *args: Any) -> None:
        raise cls(*args)


class RandomCtx(ConcreteCtx):
    """Concrete context that draws inputs at random (bounded fallback when symbolic execution cannot reach a function)."""

    def __init__(self, rnd: Any) -> None:
        ConcreteCtx.__init__(self, {}, [])
        self.rnd = rnd
        self.drawn: Dict[str, Any] = {}
        self.drawn_choices: List[int] = []

    def _draw(self, name: str, val: Any) -> Any:
        self.drawn[name] = val
        return val

    def fresh_int(self, base: str = 'i') -> int:
        r = self.rnd
        return self._draw(self._name(base), r.choice([0, 1, 2, 3, 5, 8, 13, -1, -2, r.randint(-5, 40), r.randint(0, 2000)]))

    def fresh_bool(self, base: str = 'b') -> bool:
        return self._draw(self._name(base), self.rnd.random() < 0.5)

    def fresh_str(self, base: str = 's', kind: str = 'str') -> Any:
        r = self.rnd
        alphabet = 'ab/.-_:=&,;%+ *01[]"\\\r\n'
        v = ''.join(r.choice(alphabet) for _ in range(r.choice([0, 1, 1, 2, 3, 5, 9])))
        self._draw(self._name(base), v)
        return v if kind == 'str' else v.encode('latin-1')

    def choose(self, n: int, label: str = 'ch') -> int:
        ch = self.rnd.randrange(n) if n > 1 else 0
        self.drawn_choices.append(ch)
        return ch


def random_concrete(hdef: HarnessDef, runs: int, seed: int) -> Dict[str, Any]:
    """Bounded stand-in: run the harness natively on the real code `runs` times with random inputs."""
    import random

    rnd = random.Random(seed)
    done = 0
    invalid = 0
    failures: List[Dict[str, Any]] = []
    for _ in range(runs):
        ctx = RandomCtx(rnd)
        v = V(ctx, hdef, None, None)
        try:
            hdef.fn(v)
            done += 1
        except ReplayInvalid:
            invalid += 1
            continue
        except (PathCut, core.PathDone):
            done += 1
        except Unreached:
            invalid += 1
            continue
        except Exception:
            invalid += 1
            continue
        for name, ok in ctx.results:
            if not ok and not any(f['obligation'] == name for f in failures):
                failures.append({'obligation': name, 'input': {'model': ctx.drawn, 'choices': ctx.drawn_choices}, 'harness': hdef.id})
    return {'runs': done, 'rejected_inputs': invalid, 'failures': failures}


class V:
    """Facade handed to a harness function."""

    def __init__(self, ctx: Any, hdef: HarnessDef, index: Optional[SourceIndex], registry: Optional[Registry]) -> None:
        self.ctx = ctx
        self.hdef = hdef
        self.concrete = bool(getattr(ctx, 'concrete', False))
        self.index = index
        self.registry = registry
        self.interp = Interp(ctx, index, registry) if not self.concrete and index is not None else None
        self.calls = 0

    # --- inputs ---------------------------------------------------------------
    def int(self, name: str, lo: Any = None, hi: Any = None) -> Any:
        x = self.ctx.fresh_int(name)
        if lo is not None:
            self.ctx.assume(x >= lo)
        if hi is not None:
            self.ctx.assume(x <= hi)
        return x

    def bool(self, name: str) -> Any:
        return self.ctx.fresh_bool(name)

    def str(self, name: str) -> Any:
        return self.ctx.fresh_str(name)

    def bytes(self, name: str) -> Any:
        return self.ctx.fresh_bytes(name)

    def choose(self, n: int, label: str = 'ch') -> int:
        fx = self.hdef.opts.get('fix')
        if fx and label in fx:
            return fx[label]
        return self.ctx.choose(n, label)

    def one_of(self, label: str, *vals: Any) -> Any:
        return vals[self.choose(len(vals), label)]

    def optional(self, label: str, mk: Callable[[], Any]) -> Any:
        return None if self.choose(2, label + '?') == 0 else mk()

    def assume(self, c: Any) -> None:
        self.ctx.assume(c)

    def check(self, clause: str, cond: Any, **meta: Any) -> None:
        self.ctx.check('%s#%s' % (self.hdef.target, clause), cond, harness=self.hdef.name, **meta)

    def cover(self, name: str) -> None:
        self.ctx.cover('%s#%s' % (self.hdef.id, name))

    def expect_covers(self, *names: str) -> None:
        """Declare covers up front (first statement of a harness).  `v.cover(n)` registers `n` only when the statement is
        executed; a cover behind a harness-level `if` whose branch is pruned as infeasible (or is never taken because the
        outcome no longer occurs) would otherwise vanish silently.  A declared name that no path reaches is reported as
        'cover never reached'."""
        ex = getattr(self.ctx, 'ex', None)
        if ex is not None and hasattr(ex, 'covers'):
            for n in names:
                ex.covers.setdefault('%s#%s' % (self.hdef.id, n), 0)

    def cut(self) -> None:
        self.ctx.cut()

    # --- objects -----------------------------------------------------------------
    def real(self, dotted: str) -> Any:
        mod, _, qn = dotted.partition(':')
        o: Any = importlib.import_module(mod)
        for p in qn.split('.') if qn else []:
            o = getattr(o, p)
        return o

    def obj(self, cls: Any, **fields: Any) -> Any:
        if isinstance(cls, str):
            cls = self.real(cls)
        if self.concrete:
            try:
                o = cls.__new__(cls)
                for k, val in fields.items():
                    object.__setattr__(o, k, val)
                return o
            except AttributeError:
                # slots / read-only names (methods replaced by stubs): use a throw-away subclass
                sub = type(cls.__name__, (cls,), {})
                o = sub.__new__(sub)
                for k, val in fields.items():
                    try:
                        object.__setattr__(o, k, val)
                    except AttributeError:
                        setattr(sub, k, val)
                return o
        return Obj(cls, fields)

    def set(self, o: Any, name: str, val: Any) -> None:
        if isinstance(o, Obj):
            o._fields[name] = val
        else:
            object.__setattr__(o, name, val)

    def get(self, o: Any, name: str) -> Any:
        if isinstance(o, Obj):
            return o._fields[name]
        return getattr(o, name)

    # --- running the subject ---------------------------------------------------------
    def call(self, *args: Any, target: Optional[str] = None, **kwargs: Any) -> Outcome:
        target = target or self.hdef.target
        mod, _, qn = target.partition(':')
        self.calls += 1
        if self.concrete:
            fn = resolve_real(mod, qn)
            try:
                r = fn(*args, **kwargs)
                if hasattr(r, '__await__'):
                    r = _run_coro(r)
                elif hasattr(r, '__aiter__') and hasattr(r, '__anext__'):
                    r = _run_coro(_drain_async(r))
                elif hasattr(r, '__next__') and hasattr(r, 'send'):
                    r = Yielded(list(r))
                return Outcome(value=r)
            except (PathCut, core.PathDone):
                raise
            except ReplayInvalid:
                raise
            except BaseException as e:
                if isinstance(e, (KeyboardInterrupt, SystemExit)):
                    raise
                return Outcome(exc=ExcVal(type(e), e.args, real=e))
        assert self.interp is not None
        c = self.closure(target)
        return self.interp.run(c, args, kwargs)

    def closure(self, target: str) -> Closure:
        assert self.interp is not None and self.index is not None
        mod, _, qn = target.partition(':')
        accessor = None
        if '@' in qn:
            qn, accessor = qn.split('@')
        info = self.index.find(mod, qn) if accessor is None else self.index.find_accessor(mod, qn, accessor)
        m = importlib.import_module(mod)
        defcls = None
        parts = qn.split('.')
        if len(parts) > 1:
            o: Any = m
            try:
                for p in parts[:-1]:
                    o = getattr(o, p)
                defcls = o if isinstance(o, type) else None
            except AttributeError:
                defcls = None
        cl = Closure(info.node, m, qn, None, defcls, mod)
        if self.registry is not None:
            self.registry_touch(info)
        return cl

    def registry_touch(self, info: Any) -> None:
        fu = getattr(self.registry, 'functions_used', None)
        if fu is None:
            fu = {}
            self.registry.functions_used = fu  # type: ignore[union-attr]
        fu[info.key] = info.describe()

    def raised(self, out: Outcome, cls: Any) -> Any:
        return out.exc is not None and out.exc.isa(cls)


class Yielded:
    """Everything a generator of the real code yielded (concrete replay)."""

    def __init__(self, items: List[Any]) -> None:
        self.items = items
        self.retval = None


async def _drain_async(agen: Any) -> Any:
    out = []
    async for x in agen:
        out.append(x)
    return Yielded(out)


class Ready:
    """An already-completed awaitable (stubs of async server callables return these)."""

    __pyvc_symbolic__ = True

    def __init__(self, value: Any) -> None:
        self.value = value

    def __await__(self) -> Any:
        return self.value
        yield  # pragma: no cover

    def __pyvc_await__(self, interp: Any) -> Any:
        return self.value


def _run_coro(coro: Any) -> Any:
    import asyncio

    return asyncio.new_event_loop().run_until_complete(coro)


def resolve_real(mod: str, qn: str) -> Any:
    accessor = None
    if '@' in qn:
        qn, accessor = qn.split('@')
    m = importlib.import_module(mod)
    parts = qn.split('.')
    o: Any = m
    for p in parts[:-1]:
        o = getattr(o, p)
    raw = o.__dict__[parts[-1]] if isinstance(o, type) else getattr(o, parts[-1])
    if isinstance(raw, property):
        return {'setter': raw.fset, 'deleter': raw.fdel}.get(accessor or '', raw.fget)
    if isinstance(raw, (staticmethod, classmethod)):
        return raw.__func__
    return raw


# ---------------------------------------------------------------------------
# running harnesses


class HarnessResult:
    def __init__(self, hdef: HarnessDef) -> None:
        self.hdef = hdef
        self.obligations: List[core.Obligation] = []
        self.paths = 0
        self.cut_paths = 0
        self.seconds = 0.0
        self.error: Optional[str] = None
        self.error_kind = ''
        self.functions: Dict[str, Any] = {}
        self.stubs_used: List[str] = []
        self.inlined: List[str] = []
        self.havoc: List[str] = []
        self.covers: Dict[str, int] = {}
        self.models_used: List[str] = []
        self.uncovered: Dict[str, List[int]] = {}


def run_harness(hdef: HarnessDef, index: SourceIndex, make_registry: Callable[[], Registry], check_timeout_ms: int = 10000, branch_timeout_ms: int = 3000) -> HarnessResult:
    res = HarnessResult(hdef)
    ex = Explorer(branch_timeout_ms=branch_timeout_ms, check_timeout_ms=check_timeout_ms, max_paths=hdef.opts.get('max_paths', 20000))
    reg = make_registry()
    reg.inline.update(hdef.opts.get('inline', ()))
    setup = hdef.opts.get('setup')
    if setup is not None:
        setup(reg, ex)
    havoc_log: set = set()
    t0 = time.time()
    models.USED.clear()

    def body(ctx: Ctx) -> None:
        v = V(ctx, hdef, index, reg)
        try:
            hdef.fn(v)
        finally:
            if v.interp is not None:
                havoc_log.update(v.interp.havoc_log)

    try:
        ex.explore(body)
    except Unreached as e:
        res.error = 'unreached: %s' % e
        res.error_kind = 'unreached'
    except core.EngineError as e:
        res.error = 'engine: %s' % e
        res.error_kind = 'engine'
    except PyRaise as e:
        res.error = 'harness let an interpreted exception escape: %r' % (e.exc,)
        res.error_kind = 'engine'
    except Exception:
        res.error = 'crash: ' + traceback.format_exc()
        res.error_kind = 'crash'
    res.seconds = time.time() - t0
    res.obligations = ex.obligations
    res.paths = ex.paths
    res.cut_paths = ex.cut_paths
    res.functions = dict(getattr(reg, 'functions_used', {}))
    res.stubs_used = sorted(reg.used_stubs)
    res.inlined = sorted(reg.inlined)
    res.havoc = sorted(havoc_log)
    res.covers = dict(ex.covers)
    res.models_used = sorted(models.USED)
    res.uncovered = {k: [ln for ln in lines if ln not in ex.stmt_cov.get(k, ())] for k, lines in ex.stmt_all.items()}
    res.stmt_total = {k: len(lines) for k, lines in ex.stmt_all.items()}
    return res


def replay_concrete(hdef: HarnessDef, model: Dict[str, Any], choices: List[int]) -> Tuple[str, List[Tuple[str, bool]], str]:
    """Run the harness natively on the real code with the counter-model's inputs.

    Returns (status, clause results, detail); status in reproduced-candidates:
    'ran' | 'invalid' (assumption false on these inputs) | 'error'.
    """
    ctx = ConcreteCtx(model, choices)
    v = V(ctx, hdef, None, None)
    try:
        hdef.fn(v)
        return 'ran', ctx.results, '\n'.join(ctx.trace)
    except ReplayInvalid as e:
        return 'invalid', ctx.results, str(e)
    except core.PathDone:
        return 'ran', ctx.results, ''
    except PathCut:
        return 'ran', ctx.results, 'path cut'
    except Unreached as e:
        return 'error', ctx.results, 'unreached in concrete mode: %s' % e
    except Exception:
        return 'error', ctx.results, traceback.format_exc()
