"""MANIFEST.setup_cmd: nothing to build; verify the tool chain that the checks need."""
import shutil, subprocess, sys

def main() -> int:
    import z3
    s = z3.Solver(); x = z3.Int('x'); s.add(x > 1, x < 3)
    assert s.check() == z3.sat and s.model()[x].as_long() == 2
    ok = True
    for exe in ('/usr/bin/cvc5', '/usr/bin/z3', 'rsync'):
        if not shutil.which(exe):
            print('missing', exe); ok = False
    p = subprocess.run(['/usr/bin/cvc5', '--strings-exp', '--lang=smt2'], input='(set-logic ALL)(declare-const s String)(assert (= (str.len s) 2))(check-sat)', capture_output=True, text=True)
    if p.stdout.strip() != 'sat':
        print('cvc5 self-test failed', p.stdout, p.stderr); ok = False
    print('pyvc tool chain ok' if ok else 'pyvc tool chain INCOMPLETE')
    return 0 if ok else 1

if __name__ == '__main__':
    sys.exit(main())
