"""Symbolic values, path contexts, the path explorer and obligation bookkeeping.

Exploration is by re-execution along a decision prefix (no state copying): a
harness is run from the start once per path; every symbolic branch consults the
prefix or, beyond it, asks the solver which sides are feasible and queues the
untaken feasible side.
"""
from __future__ import annotations

import hashlib
import time
from typing import Any, Callable, Dict, List, Optional

import z3

# ---------------------------------------------------------------------------
# current context (one path at a time per process)

_CUR: List['Ctx'] = []


def cur() -> 'Ctx':
    if not _CUR:
        raise RuntimeError('no active pyvc context')
    return _CUR[-1]


class PathCut(BaseException):
    """Stop exploring this path (infeasible, or cut at a loop head)."""


class PathDone(BaseException):
    """The harness has seen all it needs on this path (counts as a completed path)."""


class Unreached(BaseException):
    """The subject uses something outside the modelled subset."""


class EngineError(BaseException):
    pass


# ---------------------------------------------------------------------------
# symbolic values


class Sym:
    __slots__ = ('t',)

    def __init__(self, t: Any) -> None:
        self.t = t

    def __hash__(self) -> int:  # identity hash: == is overloaded
        return id(self)

    def __repr__(self) -> str:
        s = str(self.t)
        return '<%s %s>' % (type(self).__name__, s if len(s) < 80 else s[:77] + '...')


def is_sym(x: Any) -> bool:
    return isinstance(x, Sym)


def _b(x: Any) -> Any:
    """z3 Bool term of a bool-ish value (no forking)."""
    if isinstance(x, SBool):
        return x.t
    if isinstance(x, bool):
        return z3.BoolVal(x)
    if isinstance(x, SInt):
        return x.t != 0
    if isinstance(x, SStr):
        return z3.Length(x.t) > 0
    if isinstance(x, SSeq):
        return z3.Length(x.t) > 0
    if x is None:
        return z3.BoolVal(False)
    if isinstance(x, (int, str, bytes, tuple, list, dict, frozenset, set)):
        return z3.BoolVal(bool(x))
    if z3.is_bool(x):
        return x
    # any other concrete python object: its own truthiness
    return z3.BoolVal(bool(x))


def mk_bool(t: Any) -> Any:
    t = z3.simplify(t)
    if z3.is_true(t):
        return True
    if z3.is_false(t):
        return False
    return SBool(t)


class SBool(Sym):
    __slots__ = ()

    def __bool__(self) -> bool:
        return cur().branch(self.t)

    def __and__(self, o: Any) -> Any:
        return mk_bool(z3.And(self.t, _b(o)))

    __rand__ = __and__

    def __or__(self, o: Any) -> Any:
        return mk_bool(z3.Or(self.t, _b(o)))

    __ror__ = __or__

    def __invert__(self) -> Any:
        return mk_bool(z3.Not(self.t))

    def __eq__(self, o: Any) -> Any:  # type: ignore[override]
        if isinstance(o, (bool, SBool)):
            return mk_bool(self.t == _b(o))
        if isinstance(o, (int, SInt)):
            return mk_bool(z3.If(self.t, 1, 0) == _i(o))
        return False

    def __ne__(self, o: Any) -> Any:  # type: ignore[override]
        return Not(self.__eq__(o))

    __hash__ = Sym.__hash__


def And(*xs: Any) -> Any:
    return mk_bool(z3.And(*[_b(x) for x in xs])) if xs else True


def Or(*xs: Any) -> Any:
    return mk_bool(z3.Or(*[_b(x) for x in xs])) if xs else False


def Not(x: Any) -> Any:
    return mk_bool(z3.Not(_b(x)))


def Implies(a: Any, b: Any) -> Any:
    return mk_bool(z3.Implies(_b(a), _b(b)))


def Iff(a: Any, b: Any) -> Any:
    return mk_bool(_b(a) == _b(b))


def _i(x: Any) -> Any:
    if isinstance(x, SInt):
        return x.t
    if isinstance(x, bool):
        return z3.IntVal(int(x))
    if isinstance(x, int):
        return z3.IntVal(x)
    if isinstance(x, SBool):
        return z3.If(x.t, 1, 0)
    raise TypeError('not an int-like value: %r' % (x,))


def _intlike(x: Any) -> bool:
    return isinstance(x, (int, SInt, SBool))


def mk_int(t: Any) -> Any:
    t = z3.simplify(t)
    if z3.is_int_value(t):
        return t.as_long()
    return SInt(t)


def pydiv(a: Any, b: Any) -> Any:
    """Python floor division on z3 ints (z3 `/` on ints floors only for b > 0)."""
    return z3.If(b > 0, a / b, (-a) / (-b))


class SInt(Sym):
    __slots__ = ()

    def __bool__(self) -> bool:
        return cur().branch(self.t != 0)

    def __add__(self, o: Any) -> Any:
        if not _intlike(o):
            return NotImplemented
        return mk_int(self.t + _i(o))

    __radd__ = __add__

    def __sub__(self, o: Any) -> Any:
        if not _intlike(o):
            return NotImplemented
        return mk_int(self.t - _i(o))

    def __rsub__(self, o: Any) -> Any:
        if not _intlike(o):
            return NotImplemented
        return mk_int(_i(o) - self.t)

    def __mul__(self, o: Any) -> Any:
        if not _intlike(o):
            return NotImplemented
        return mk_int(self.t * _i(o))

    __rmul__ = __mul__

    def __neg__(self) -> Any:
        return mk_int(-self.t)

    def __pos__(self) -> Any:
        return self

    def __abs__(self) -> Any:
        return mk_int(z3.If(self.t >= 0, self.t, -self.t))

    def _divcheck(self, b: Any) -> None:
        c = cur()
        if c.branch(b == 0, label='zerodiv'):
            c.raise_py(ZeroDivisionError, 'integer division or modulo by zero')

    def __floordiv__(self, o: Any) -> Any:
        b = _i(o)
        self._divcheck(b)
        return mk_int(pydiv(self.t, b))

    def __rfloordiv__(self, o: Any) -> Any:
        self._divcheck(self.t)
        return mk_int(pydiv(_i(o), self.t))

    def __mod__(self, o: Any) -> Any:
        b = _i(o)
        self._divcheck(b)
        return mk_int(self.t - b * pydiv(self.t, b))

    def __rmod__(self, o: Any) -> Any:
        if isinstance(o, (str, bytes)):
            return NotImplemented
        self._divcheck(self.t)
        a = _i(o)
        return mk_int(a - self.t * pydiv(a, self.t))

    def __lt__(self, o: Any) -> Any:
        return mk_bool(self.t < _i(o))

    def __le__(self, o: Any) -> Any:
        return mk_bool(self.t <= _i(o))

    def __gt__(self, o: Any) -> Any:
        return mk_bool(self.t > _i(o))

    def __ge__(self, o: Any) -> Any:
        return mk_bool(self.t >= _i(o))

    def __eq__(self, o: Any) -> Any:  # type: ignore[override]
        if not _intlike(o):
            return False
        return mk_bool(self.t == _i(o))

    def __ne__(self, o: Any) -> Any:  # type: ignore[override]
        if not _intlike(o):
            return True
        return mk_bool(self.t != _i(o))

    __hash__ = Sym.__hash__


def Min(a: Any, b: Any) -> Any:
    if not (is_sym(a) or is_sym(b)):
        return min(a, b)
    # python's min returns the first of equal elements; values are equal then
    return mk_int(z3.If(_i(b) < _i(a), _i(b), _i(a)))


def Max(a: Any, b: Any) -> Any:
    if not (is_sym(a) or is_sym(b)):
        return max(a, b)
    return mk_int(z3.If(_i(b) > _i(a), _i(b), _i(a)))


def Ite(c: Any, a: Any, b: Any) -> Any:
    """Non-forking conditional over same-kind values."""
    if isinstance(c, bool):
        return a if c else b
    ct = _b(c)
    if _intlike(a) and _intlike(b) and not isinstance(a, (bool, SBool)):
        return mk_int(z3.If(ct, _i(a), _i(b)))
    if isinstance(a, (bool, SBool)) and isinstance(b, (bool, SBool)):
        return mk_bool(z3.If(ct, _b(a), _b(b)))
    if isinstance(a, (str, bytes, SStr)) and isinstance(b, (str, bytes, SStr)):
        k = _kind(a) or _kind(b)
        return mk_str(z3.If(ct, _s(a), _s(b)), k)
    raise TypeError('Ite over %r / %r' % (a, b))


# --- strings / bytes --------------------------------------------------------


def _kind(x: Any) -> Optional[str]:
    if isinstance(x, SStr):
        return x.kind
    if isinstance(x, str):
        return 'str'
    if isinstance(x, (bytes, bytearray)):
        return 'bytes'
    return None


def _strval(s: str) -> Any:
    return z3.StringVal(s)


def _s(x: Any) -> Any:
    if isinstance(x, SStr):
        return x.t
    if isinstance(x, str):
        return _strval(x)
    if isinstance(x, (bytes, bytearray)):
        return _strval(bytes(x).decode('latin-1'))
    raise TypeError('not a str/bytes value: %r' % (x,))


def mk_str(t: Any, kind: str) -> Any:
    t = z3.simplify(t)
    if z3.is_string_value(t):
        v = t.as_string()
        # z3 escapes non-printables as \u{..}; decode them
        v = _unescape_z3(v)
        return v if kind == 'str' else v.encode('latin-1')
    return SStr(t, kind)


def _unescape_z3(v: str) -> str:
    if '\\u{' not in v:
        return v
    import re

    return re.sub(r'\\u\{([0-9a-fA-F]+)\}', lambda m: chr(int(m.group(1), 16)), v)


def _slice_bounds(n: Any, lo: Any, hi: Any) -> Any:
    """(start, length) z3 terms for python s[lo:hi] over a sequence of length n."""

    def clamp(v: Any, default: Any) -> Any:
        if v is None:
            return default
        v = _i(v)
        return z3.If(v < 0, z3.If(n + v < 0, z3.IntVal(0), n + v), z3.If(v > n, n, v))

    a = clamp(lo, z3.IntVal(0))
    b = clamp(hi, n)
    ln = z3.If(b - a < 0, z3.IntVal(0), b - a)
    return a, ln


class SStr(Sym):
    """A symbolic str or bytes (SMT String; bytes = code points 0..255, latin-1 view)."""

    __slots__ = ('kind',)

    def __init__(self, t: Any, kind: str = 'str') -> None:
        self.t = t
        self.kind = kind

    __hash__ = Sym.__hash__

    def _same(self, o: Any) -> bool:
        k = _kind(o)
        return k == self.kind

    def __bool__(self) -> bool:
        return cur().branch(z3.Length(self.t) > 0)

    def length(self) -> Any:
        return mk_int(z3.Length(self.t))

    # ordering: python compares str by code point and bytes by byte value = SMT-LIB str.< / str.<= (lexicographic by code)
    def _ord(self, o: Any, fn: Any, what: str) -> Any:
        if not self._same(o):
            cur().raise_py(TypeError, "'%s' not supported between instances of '%s' and '%s'" % (what, self.kind, type(o).__name__))
        return mk_bool(fn(self.t, _s(o)))

    def __lt__(self, o: Any) -> Any:
        return self._ord(o, lambda a, b: a < b, '<')

    def __le__(self, o: Any) -> Any:
        return self._ord(o, lambda a, b: a <= b, '<=')

    def __gt__(self, o: Any) -> Any:
        return self._ord(o, lambda a, b: b < a, '>')

    def __ge__(self, o: Any) -> Any:
        return self._ord(o, lambda a, b: b <= a, '>=')

    def __add__(self, o: Any) -> Any:
        if not self._same(o):
            cur().raise_py(TypeError, 'can only concatenate %s' % self.kind)
        return mk_str(z3.Concat(self.t, _s(o)), self.kind)

    def __radd__(self, o: Any) -> Any:
        if not self._same(o):
            cur().raise_py(TypeError, 'can only concatenate %s' % self.kind)
        return mk_str(z3.Concat(_s(o), self.t), self.kind)

    def __eq__(self, o: Any) -> Any:  # type: ignore[override]
        if not self._same(o):
            return False
        return mk_bool(self.t == _s(o))

    def __ne__(self, o: Any) -> Any:  # type: ignore[override]
        if not self._same(o):
            return True
        return mk_bool(self.t != _s(o))

    def __getitem__(self, k: Any) -> Any:
        n = z3.Length(self.t)
        if isinstance(k, slice):
            if k.step is not None and k.step != 1:
                raise Unreached('extended slice on symbolic string')
            r = self._hook('slice', k.start, k.stop)
            if r is not NotImplemented:
                return r
            a, ln = _slice_bounds(n, k.start, k.stop)
            return mk_str(z3.SubString(self.t, a, ln), self.kind)
        i = _i(k)
        c = cur()
        if c.branch(z3.Or(i >= n, i < -n), label='index-oob'):
            c.raise_py(IndexError, 'string index out of range')
        idx = z3.If(i < 0, n + i, i)
        ch = z3.SubString(self.t, idx, 1)
        if self.kind == 'bytes':
            return mk_int(z3.StrToCode(ch))
        return mk_str(ch, 'str')

    # --- non-forking predicates -------------------------------------------
    def contains(self, sub: Any) -> Any:
        r = self._hook('contains', sub)
        if r is not NotImplemented:
            return r
        return mk_bool(z3.Contains(self.t, _s(sub)))

    def __contains__(self, sub: Any) -> bool:
        return bool(self.contains(sub))

    def startswith(self, pre: Any, start: Any = None) -> Any:
        if isinstance(pre, tuple):
            return Or(*[self.startswith(p, start) for p in pre])
        if start is not None:
            return self[start:].startswith(pre)
        return mk_bool(z3.PrefixOf(_s(pre), self.t))

    def endswith(self, suf: Any) -> Any:
        if isinstance(suf, tuple):
            return Or(*[self.endswith(p) for p in suf])
        return mk_bool(z3.SuffixOf(_s(suf), self.t))

    def _hook(self, name: str, *args: Any) -> Any:
        """Contract-installed alternative encoding of a str method (Explorer.str_hooks[name]); NotImplemented = use the default."""
        hooks = getattr(cur().ex, 'str_hooks', None) if _CUR else None
        h = hooks.get(name) if hooks else None
        return NotImplemented if h is None else h(cur(), self, *args)

    def find(self, sub: Any, start: Any = 0) -> Any:
        r = self._hook('find', sub, start)
        if r is not NotImplemented:
            return r
        return mk_int(z3.IndexOf(self.t, _s(sub), _i(start)))

    def rfind(self, sub: Any) -> Any:
        r = self._hook('rfind', sub)
        if r is not NotImplemented:
            return r
        return mk_int(z3.LastIndexOf(self.t, _s(sub)))

    def index(self, sub: Any, start: Any = 0) -> Any:
        r = self.find(sub, start)
        c = cur()
        if c.branch(_i(r) < 0, label='index-notfound'):
            c.raise_py(ValueError, 'substring not found')
        return r

    def partition(self, sep: Any) -> Any:
        r = self._hook('partition', sep)
        if r is not NotImplemented:
            return r
        i = z3.IndexOf(self.t, _s(sep), 0)
        n = z3.Length(self.t)
        sl = z3.Length(_s(sep))
        found = i >= 0
        empty = _strval('')
        head = z3.If(found, z3.SubString(self.t, 0, i), self.t)
        mid = z3.If(found, _s(sep), empty)
        tail = z3.If(found, z3.SubString(self.t, i + sl, n), empty)
        return (mk_str(head, self.kind), mk_str(mid, self.kind), mk_str(tail, self.kind))

    def rpartition(self, sep: Any) -> Any:
        i = z3.LastIndexOf(self.t, _s(sep))
        n = z3.Length(self.t)
        sl = z3.Length(_s(sep))
        found = i >= 0
        empty = _strval('')
        head = z3.If(found, z3.SubString(self.t, 0, i), empty)
        mid = z3.If(found, _s(sep), empty)
        tail = z3.If(found, z3.SubString(self.t, i + sl, n), self.t)
        return (mk_str(head, self.kind), mk_str(mid, self.kind), mk_str(tail, self.kind))

    def split(self, sep: Any = None, maxsplit: Any = -1) -> Any:
        """str.split on a symbolic string: only through a model installed by the contract (Explorer.split_handler)."""
        h = getattr(cur().ex, 'split_handler', None)
        if h is None:
            raise Unreached('split on a symbolic string without a split model')
        return h(cur(), self, sep, maxsplit)

    def replace(self, old: Any, new: Any) -> Any:
        r = self._hook('replace', old, new)
        if r is not NotImplemented:
            return r
        if hasattr(z3, 'ReplaceAll'):
            return mk_str(z3.ReplaceAll(self.t, _s(old), _s(new)), self.kind)
        if hasattr(z3, 'Z3_mk_seq_replace_all'):  # z3py without the wrapper: build str.replace_all through the C API
            o, n = _s(old), _s(new)
            return mk_str(z3.SeqRef(z3.Z3_mk_seq_replace_all(self.t.ctx_ref(), self.t.as_ast(), o.as_ast(), n.as_ast()), self.t.ctx), self.kind)
        return _unreached('replace')

    def encode(self, enc: str = 'utf-8', errors: str = 'strict') -> Any:
        return cur().codec('encode', self, enc, errors)

    def decode(self, enc: str = 'utf-8', errors: str = 'strict') -> Any:
        return cur().codec('decode', self, enc, errors)

    def _uf(self, name: str) -> Any:
        f = z3.Function('str.%s' % name, z3.StringSort(), z3.StringSort())
        return mk_str(f(self.t), self.kind)

    def lower(self) -> Any:
        return cur().str_fn('lower', self)

    def upper(self) -> Any:
        return cur().str_fn('upper', self)

    def strip(self, chars: Any = None) -> Any:
        if chars is not None:
            raise Unreached('strip(chars) on symbolic string')
        return cur().str_fn('strip', self)

    def rstrip(self, chars: Any = None) -> Any:
        return cur().str_fn('rstrip' if chars is None else 'rstrip:%r' % (chars,), self)

    def lstrip(self, chars: Any = None) -> Any:
        return cur().str_fn('lstrip' if chars is None else 'lstrip:%r' % (chars,), self)

    def capitalize(self) -> Any:
        return cur().str_fn('capitalize', self)

    def isascii(self) -> Any:
        """str.isascii(): every code point is below 128 (true for the empty string)."""
        return mk_bool(z3.InRe(self.t, z3.Star(z3.Range(z3.StringVal(chr(0)), z3.StringVal(chr(127))))))


def _unreached(what: str) -> Any:
    raise Unreached(what)


def Len(x: Any) -> Any:
    if isinstance(x, (SStr, SSeq)):
        return x.length()
    if hasattr(x, '__pyvc_len__'):
        return x.__pyvc_len__()
    return len(x)


# --- sequences of opaque elements -------------------------------------------


class SSeq(Sym):
    """Immutable symbolic sequence (z3 Seq) of elements wrapped by `wrap`/`unwrap`."""

    __slots__ = ('wrap', 'unwrap')

    def __init__(self, t: Any, wrap: Callable[[Any], Any], unwrap: Callable[[Any], Any]) -> None:
        self.t = t
        self.wrap = wrap  # z3 element term -> value
        self.unwrap = unwrap  # value -> z3 element term

    __hash__ = Sym.__hash__

    def length(self) -> Any:
        return mk_int(z3.Length(self.t))

    def __bool__(self) -> bool:
        return cur().branch(z3.Length(self.t) > 0)

    def _mk(self, t: Any) -> 'SSeq':
        return SSeq(z3.simplify(t), self.wrap, self.unwrap)

    def __getitem__(self, k: Any) -> Any:
        n = z3.Length(self.t)
        if isinstance(k, slice):
            if k.step is not None and k.step != 1:
                raise Unreached('extended slice on symbolic sequence')
            a, ln = _slice_bounds(n, k.start, k.stop)
            return self._mk(z3.SubSeq(self.t, a, ln))
        i = _i(k)
        c = cur()
        if c.branch(z3.Or(i >= n, i < -n), label='index-oob'):
            c.raise_py(IndexError, 'index out of range')
        idx = z3.If(i < 0, n + i, i)
        return self.wrap(z3.simplify(self.t[idx]))

    def __add__(self, o: Any) -> Any:
        return self._mk(z3.Concat(self.t, self.lift(o)))

    def __radd__(self, o: Any) -> Any:
        return self._mk(z3.Concat(self.lift(o), self.t))

    def lift(self, o: Any) -> Any:
        if isinstance(o, SSeq):
            return o.t
        if isinstance(o, (list, tuple)):
            if not o:
                return z3.Empty(self.t.sort())
            units = [z3.Unit(self.unwrap(e)) for e in o]
            return units[0] if len(units) == 1 else z3.Concat(*units)
        raise TypeError('cannot lift %r to a sequence' % (o,))

    def __eq__(self, o: Any) -> Any:  # type: ignore[override]
        try:
            return mk_bool(self.t == self.lift(o))
        except TypeError:
            return False

    def __ne__(self, o: Any) -> Any:  # type: ignore[override]
        return Not(self.__eq__(o))


# ---------------------------------------------------------------------------
# objects and exceptions of the interpreted program


class Obj:
    """A heap object of the interpreted program: class + mutable field record."""

    def __init__(self, cls: Any, fields: Optional[Dict[str, Any]] = None, lazy: Optional[Callable[[str], Any]] = None) -> None:
        self.__dict__['_cls'] = cls
        self.__dict__['_fields'] = dict(fields or {})
        self.__dict__['_lazy'] = lazy

    def __repr__(self) -> str:
        c = self._cls
        return '<Obj %s %s>' % (getattr(c, '__name__', c), sorted(self._fields))

    # native (contract-side) access to the field record
    def __getattr__(self, name: str) -> Any:
        f = self.__dict__['_fields']
        if name in f:
            return f[name]
        lazy = self.__dict__.get('_lazy')
        if lazy is not None and not name.startswith('__'):
            v = lazy(name)
            if v is not NotImplemented:
                f[name] = v
                return v
        raise AttributeError(name)

    def __setattr__(self, name: str, v: Any) -> None:
        self.__dict__['_fields'][name] = v


class ExcVal:
    """An exception value of the interpreted program."""

    def __init__(self, cls: type, args: tuple = (), kwargs: Optional[dict] = None, real: Optional[BaseException] = None) -> None:
        self.cls = cls
        self.args = args
        self.kwargs = kwargs or {}
        self.real = real
        self.fields: Dict[str, Any] = {}
        self.tag: Any = None  # free slot for contracts (identity of an opaque raise)

    def isa(self, cls: Any) -> bool:
        if isinstance(cls, tuple):
            return any(self.isa(c) for c in cls)
        return isinstance(self.cls, type) and issubclass(self.cls, cls)

    def __repr__(self) -> str:
        return '<ExcVal %s%r>' % (getattr(self.cls, '__name__', self.cls), self.args)


class PyRaise(Exception):
    """Carrier of an interpreted-program exception through the interpreter."""

    def __init__(self, exc: ExcVal) -> None:
        Exception.__init__(self, repr(exc))
        self.exc = exc


class Outcome:
    """Result of running a subject: normal value or raised exception."""

    def __init__(self, value: Any = None, exc: Optional[ExcVal] = None) -> None:
        self.value = value
        self.exc = exc

    @property
    def returned(self) -> bool:
        return self.exc is None

    def raised(self, cls: Any = BaseException) -> bool:
        return self.exc is not None and self.exc.isa(cls)

    def __repr__(self) -> str:
        return '<Outcome %s>' % ('value=%r' % (self.value,) if self.exc is None else 'raised=%r' % (self.exc,))


# ---------------------------------------------------------------------------
# obligations


class Obligation:
    __slots__ = ('name', 'path', 'status', 'backend', 'seconds', 'model', 'decisions', 'smt2', 'meta', 'detail')

    def __init__(self, name: str, path: str) -> None:
        self.name = name
        self.path = path
        self.status = 'pending'  # discharged | refuted | unknown | trivial
        self.backend = ''
        self.seconds = 0.0
        self.model: Dict[str, Any] = {}
        self.decisions: List[Any] = []
        self.smt2: Optional[str] = None
        self.meta: Dict[str, Any] = {}
        self.detail = ''

    def to_json(self) -> Dict[str, Any]:
        return {
            'obligation': self.name,
            'path': self.path,
            'status': self.status,
            'backend': self.backend,
            'seconds': round(self.seconds, 4),
        }


def path_sig(labels: List[str]) -> str:
    return hashlib.sha1('|'.join(labels).encode()).hexdigest()[:10]


# ---------------------------------------------------------------------------
# the per-path context


class Ctx:
    def __init__(self, explorer: 'Explorer', prefix: List[int]) -> None:
        self.ex = explorer
        self.prefix = prefix
        self.pos = 0
        self.decisions: List[int] = []
        self.labels: List[str] = []
        self.solver = z3.Solver()
        self.solver.set('timeout', explorer.incremental_timeout_ms)
        self.pc: List[Any] = []
        self.counters: Dict[str, int] = {}
        self.inputs: Dict[str, Any] = {}  # name -> z3 const (for models)
        self.ghost: Dict[str, Any] = {}
        self.stubs: List[Any] = []
        self.concrete = False
        self.codec_fn: Dict[str, Any] = {}
        self.trace: List[str] = []
        self.choices: List[int] = []

    # --- naming -------------------------------------------------------------
    def _name(self, base: str) -> str:
        k = self.counters.get(base, 0)
        self.counters[base] = k + 1
        return base if k == 0 else '%s!%d' % (base, k)

    def fresh_int(self, base: str = 'i') -> Any:
        n = self._name(base)
        c = z3.Int(n)
        self.inputs[n] = c
        return SInt(c)

    def fresh_bool(self, base: str = 'b') -> Any:
        n = self._name(base)
        c = z3.Bool(n)
        self.inputs[n] = c
        return SBool(c)

    def fresh_str(self, base: str = 's', kind: str = 'str') -> Any:
        n = self._name(base)
        c = z3.String(n)
        self.inputs[n] = c
        return SStr(c, kind)

    def fresh_bytes(self, base: str = 'bs') -> Any:
        return self.fresh_str(base, 'bytes')

    def fresh_like(self, v: Any, base: str = 'h') -> Any:
        """A fresh unconstrained value of the same kind as v (for havoc)."""
        if isinstance(v, (SBool, bool)):
            return self.fresh_bool(base)
        if isinstance(v, (SInt, int)):
            return self.fresh_int(base)
        if isinstance(v, SStr):
            return self.fresh_str(base, v.kind)
        if isinstance(v, str):
            return self.fresh_str(base, 'str')
        if isinstance(v, (bytes, bytearray)):
            return self.fresh_str(base, 'bytes')
        if isinstance(v, SSeq):
            n = self._name(base)
            c = z3.Const(n, v.t.sort())
            self.inputs[n] = c
            return SSeq(c, v.wrap, v.unwrap)
        if hasattr(v, '__pyvc_havoc__'):
            return v.__pyvc_havoc__(self, base)
        raise Unreached('cannot havoc value %r' % (v,))

    def fresh_const(self, base: str, sort: Any) -> Any:
        n = self._name(base)
        c = z3.Const(n, sort)
        self.inputs[n] = c
        return c

    # --- path condition -----------------------------------------------------
    def assume(self, c: Any) -> None:
        t = z3.simplify(_b(c))
        if z3.is_true(t):
            return
        if z3.is_false(t):
            raise PathCut()
        self.solver.add(t)
        self.pc.append(t)

    def _record(self, choice: int, label: str) -> None:
        self.decisions.append(choice)
        self.labels.append('%s=%d' % (label, choice))
        self.pos += 1

    def in_new_territory(self) -> bool:
        return self.pos >= len(self.prefix)

    def branch(self, t: Any, label: str = 'br') -> bool:
        t = z3.simplify(t)
        if z3.is_true(t):
            return True
        if z3.is_false(t):
            return False
        if self.pos < len(self.prefix):
            ch = self.prefix[self.pos]
            self._record(ch, label)
            cond = t if ch == 1 else z3.Not(t)
            self.solver.add(cond)
            self.pc.append(cond)
            return ch == 1
        t0 = time.time()
        r_true = self._safe_check(t)
        if r_true == z3.unknown:
            r_true = self._fresh_check(t, self.ex.branch_timeout_ms)[0]
        r_false = self._safe_check(z3.Not(t))
        if r_false == z3.unknown:
            r_false = self._fresh_check(z3.Not(t), self.ex.branch_timeout_ms)[0]
        self.ex.branch_seconds += time.time() - t0
        can_t = r_true != z3.unsat
        can_f = r_false != z3.unsat
        if not can_t and not can_f:
            raise PathCut()
        if can_t and can_f:
            self.ex.push(self.decisions + [0])
            ch = 1
        else:
            ch = 1 if can_t else 0
        self._record(ch, label)
        cond = t if ch == 1 else z3.Not(t)
        self.solver.add(cond)
        self.pc.append(cond)
        return ch == 1

    def _fresh_check(self, extra: Any, timeout_ms: int) -> Any:
        """Non-incremental query: z3's one-shot string solver decides much more than the incremental core."""
        s2 = z3.Solver()
        s2.set('timeout', timeout_ms)
        s2.add(*self.pc)
        if extra is not None:
            s2.add(extra)
        try:
            r = s2.check()
        except z3.Z3Exception as e:
            self.ex.solver_exceptions.append(str(e))
            return z3.unknown, None
        if r == z3.sat:
            m = s2.model()
            if extra is not None and not self._model_satisfies(m, extra):
                # a `sat` whose own model falsifies the query or a path-condition conjunct is not a verdict
                self.ex.solver_exceptions.append('one-shot sat answer with a falsifying model: treated as unknown')
                return z3.unknown, None
            return r, m
        return r, None

    def _safe_check(self, *assumptions: Any) -> Any:
        try:
            return self.solver.check(*assumptions)
        except z3.Z3Exception as e:
            # e.g. "reached max unfolding" of the sequence solver: not a verdict
            self.ex.solver_exceptions.append(str(e))
            s2 = z3.Solver()
            s2.set('timeout', self.ex.incremental_timeout_ms)
            s2.add(*self.pc)
            self.solver = s2
            return z3.unknown

    def choose(self, n: int, label: str = 'ch') -> int:
        """Non-deterministic choice among n alternatives, all explored."""
        if n <= 1:
            return 0
        if self.pos < len(self.prefix):
            ch = self.prefix[self.pos]
            self._record(ch, label)
            self.choices.append(ch)
            return ch
        for alt in range(n - 1, 0, -1):
            self.ex.push(self.decisions + [alt])
        self._record(0, label)
        self.choices.append(0)
        return 0

    def cut(self) -> None:
        raise PathCut()

    def done(self) -> None:
        raise PathDone()

    def raise_py(self, cls: type, *args: Any) -> None:
        raise PyRaise(ExcVal(cls, args))

    # --- uninterpreted helpers ------------------------------------------------
    def str_fn(self, name: str, s: SStr) -> Any:
        f = z3.Function('str.%s' % name, z3.StringSort(), z3.StringSort())
        r = f(s.t)
        ax = self.ex.str_axioms.get(name.split(':')[0])
        out = SStr(r, s.kind)
        if ax is not None:
            for a in ax(s.t, r, f):
                self.assume(a)
        return out

    def codec(self, direction: str, s: SStr, enc: str, errors: str) -> Any:
        h = self.ex.codec_handler
        if h is None:
            raise Unreached('%s(%r) on a symbolic string without a codec model' % (direction, enc))
        return h(self, direction, s, enc, errors)

    # --- obligations ----------------------------------------------------------
    def check(self, name: str, cond: Any, **meta: Any) -> None:
        if not self.in_new_territory():
            # already checked by the run that spawned this prefix
            if not meta.get('no_assume'):
                self.assume(cond)
            return
        ob = Obligation(name, path_sig(self.labels))
        ob.decisions = list(self.decisions)
        ob.meta = dict(meta)
        ob.meta['labels'] = list(self.labels)
        ob.meta['choices'] = list(self.choices)
        self.ex.obligations.append(ob)
        t = z3.simplify(_b(cond))
        if z3.is_true(t):
            ob.status = 'discharged'
            ob.backend = 'simplifier'
            return
        t0 = time.time()
        r = self._safe_check(z3.Not(t))
        model = self.solver.model() if r == z3.sat else None
        backend = 'z3-inproc-incremental'
        if model is not None and not self._model_satisfies(model, z3.Not(t)):
            # the incremental sequence solver sometimes answers sat with an assignment that falsifies the query: not a verdict
            r, model = z3.unknown, None
        if r == z3.unknown:
            r, model = self._fresh_check(z3.Not(t), self.ex.check_timeout_ms)
            backend = 'z3-inproc-oneshot'
        ob.seconds = time.time() - t0
        if r == z3.unsat:
            ob.status = 'discharged'
            ob.backend = backend
        elif r == z3.sat:
            ob.status = 'refuted'
            ob.backend = backend
            ob.model = self._model_dict(model)
        else:
            ob.status = 'unknown'
            ob.backend = 'z3-inproc'
            s2 = z3.Solver()
            s2.add(*self.pc)
            s2.add(z3.Not(t))
            ob.smt2 = '(set-logic ALL)\n' + s2.to_smt2()
        if not meta.get('no_assume'):
            self.assume(cond)

    def _model_satisfies(self, m: Any, query: Any) -> bool:
        """A `sat` answer is kept only if its model does not evaluate the query (or a path-condition conjunct) to false."""
        try:
            for c in [query] + list(self.pc):
                if z3.is_false(m.eval(c, model_completion=True)):
                    return False
        except z3.Z3Exception:
            pass
        return True

    def cover(self, name: str) -> None:
        """Reachability canary: this point must be reachable on some path."""
        self.ex.covers.setdefault(name, 0)
        if self._safe_check() != z3.unsat:
            self.ex.covers[name] += 1

    def _model_dict(self, m: Any) -> Dict[str, Any]:
        out: Dict[str, Any] = {}
        for n, c in self.inputs.items():
            try:
                v = m.eval(c, model_completion=True)
            except z3.Z3Exception:
                continue
            if z3.is_int_value(v):
                out[n] = v.as_long()
            elif z3.is_true(v):
                out[n] = True
            elif z3.is_false(v):
                out[n] = False
            elif z3.is_string_value(v):
                out[n] = _unescape_z3(v.as_string())
            else:
                out[n] = str(v)
        return out


# ---------------------------------------------------------------------------
# explorer


class Explorer:
    def __init__(self, branch_timeout_ms: int = 3000, check_timeout_ms: int = 10000, max_paths: int = 20000) -> None:
        self.pending: List[List[int]] = []
        self.obligations: List[Obligation] = []
        self.covers: Dict[str, int] = {}
        self.paths = 0
        self.cut_paths = 0
        self.branch_timeout_ms = branch_timeout_ms
        self.check_timeout_ms = check_timeout_ms
        self.max_paths = max_paths
        self.branch_seconds = 0.0
        self.str_axioms: Dict[str, Any] = {}
        self.codec_handler: Any = None
        self.path_log: List[Dict[str, Any]] = []
        self.solver_exceptions: List[str] = []
        self.incremental_timeout_ms = 1000
        self.stmt_cov: Dict[str, set] = {}  # function key -> line numbers of statements executed on some path
        self.stmt_all: Dict[str, List[int]] = {}  # function key -> line numbers of all its statements

    def push(self, prefix: List[int]) -> None:
        self.pending.append(prefix)

    def explore(self, harness: Callable[[Ctx], None]) -> None:
        import os

        self.pending.append([])
        t_start = time.time()
        budget_s = float(os.environ.get('PYVC_HARNESS_BUDGET_S', '900'))
        while self.pending:
            prefix = self.pending.pop()
            if self.paths >= self.max_paths:
                raise EngineError('path budget exhausted (%d)' % self.max_paths)
            if time.time() - t_start > budget_s:
                # never hang: an exploding path space (e.g. an unmodelled construct that forks per element) is a checker
                # problem (exit 3), not a verdict
                raise EngineError('time budget of %.0f s exhausted after %d paths' % (budget_s, self.paths))
            ctx = Ctx(self, prefix)
            _CUR.append(ctx)
            try:
                harness(ctx)
                self.paths += 1
            except PathDone:
                self.paths += 1
            except PathCut:
                self.cut_paths += 1
            finally:
                _CUR.pop()


def run_replay(harness: Callable[[Ctx], None], decisions: List[int]) -> Ctx:
    """Re-run one recorded path symbolically (for diagnostics)."""
    ex = Explorer()
    ctx = Ctx(ex, list(decisions))
    _CUR.append(ctx)
    try:
        harness(ctx)
    except PathCut:
        pass
    finally:
        _CUR.pop()
    return ctx


def veq(a: Any, b: Any) -> Any:
    """Value equality without an interpreter (symbolic or concrete scalars, tuples)."""
    if isinstance(a, Sym):
        return a == b
    if isinstance(b, Sym):
        return b == a
    if isinstance(a, tuple) and isinstance(b, tuple):
        if len(a) != len(b):
            return False
        return And(*[veq(x, y) for x, y in zip(a, b)])
    return a == b


cur_interp_equals = veq


# ---------------------------------------------------------------------------
# mutable symbolic list (used when a list's length is not statically known,
# e.g. a list appended to inside a loop that is cut by an invariant)


class SList:
    """Mutable list of str / bytes elements of symbolic length, kept as a summary.

    The summary is (n, joined, first, last): the length, the concatenation of all
    elements (a ghost that contracts use for "the bytes collected so far"), and
    the first / last element when n >= 1.  Only operations that the summary
    determines are supported (append, insert(0, x), extend, len, truth, [0], [-1],
    ''.join); anything else makes the function unreached.
    """

    __pyvc_symbolic__ = True
    __pyvc_stub__ = True

    def __init__(self, kind: str, n: Any = 0, joined: Any = None, first: Any = None, last: Any = None) -> None:
        self.kind = kind
        empty = '' if kind == 'str' else b''
        self.n = n
        self.joined = joined if joined is not None else empty
        self.first = first if first is not None else empty
        self.last = last if last is not None else empty

    @staticmethod
    def from_list(kind: str, items: Any) -> 'SList':
        sl = SList(kind)
        for x in items:
            sl.append(x)
        return sl

    def _cat(self, a: Any, b: Any) -> Any:
        return mk_str(z3.Concat(_s(a), _s(b)), self.kind)

    def append(self, x: Any) -> None:
        was_empty = veq(self.n, 0)
        self.first = Ite(was_empty, x, self.first)
        self.last = x
        self.joined = self._cat(self.joined, x)
        self.n = self.n + 1

    def insert(self, i: Any, x: Any) -> None:
        if not (isinstance(i, int) and i == 0):
            raise Unreached('SList.insert at a position other than 0')
        was_empty = veq(self.n, 0)
        self.last = Ite(was_empty, x, self.last)
        self.first = x
        self.joined = self._cat(x, self.joined)
        self.n = self.n + 1

    def extend(self, xs: Any) -> None:
        if isinstance(xs, SList):
            a_empty = veq(self.n, 0)
            b_empty = veq(xs.n, 0)
            self.first = Ite(a_empty, xs.first, self.first)
            self.last = Ite(b_empty, self.last, xs.last)
            self.joined = self._cat(self.joined, xs.joined)
            self.n = self.n + xs.n
            return
        for x in xs:
            self.append(x)

    def __pyvc_len__(self) -> Any:
        return self.n

    def __pyvc_truth__(self) -> Any:
        return self.n > 0 if is_sym(self.n) else self.n > 0

    def __pyvc_getitem__(self, k: Any) -> Any:
        if isinstance(k, int) and k in (0, -1):
            c = cur()
            if c.branch(_b(veq(self.n, 0)), label='index-oob'):
                c.raise_py(IndexError, 'list index out of range')
            return self.first if k == 0 else self.last
        raise Unreached('SList index other than 0 / -1')

    def __pyvc_havoc__(self, ctx: 'Ctx', base: str) -> 'SList':
        n = ctx.fresh_int(base + '_n')
        joined = ctx.fresh_str(base + '_joined', self.kind)
        first = ctx.fresh_str(base + '_first', self.kind)
        last = ctx.fresh_str(base + '_last', self.kind)
        # facts that hold for every list and its summary
        ctx.assume(n >= 0)
        ctx.assume(z3.Implies(n.t == 0, z3.Length(joined.t) == 0))
        ctx.assume(z3.Implies(n.t == 1, z3.And(joined.t == first.t, joined.t == last.t)))
        ctx.assume(z3.Implies(n.t >= 1, z3.And(z3.PrefixOf(first.t, joined.t), z3.SuffixOf(last.t, joined.t))))
        return SList(self.kind, n, joined, first, last)

    def __pyvc_iter__(self) -> Any:
        raise Unreached('iteration over a list of symbolic length without an invariant')

    def __repr__(self) -> str:
        return '<SList %s n=%s>' % (self.kind, self.n)


def Joined(xs: Any, empty: Any = b'') -> Any:
    """Concatenation of a list of str/bytes values (python list or SList)."""
    if isinstance(xs, SList):
        return xs.joined
    out = empty
    for x in xs:
        out = out + x if not isinstance(x, SStr) or isinstance(out, SStr) else x.__radd__(out)
    return out


# ---------------------------------------------------------------------------
# symbolic dict  str -> str   (header maps)

_OPT = None


def opt_sort() -> Any:
    global _OPT
    if _OPT is None:
        d = z3.Datatype('OptStr')
        d.declare('none')
        d.declare('some', ('val', z3.StringSort()))
        _OPT = d.create()
    return _OPT


class SDict:
    """Mutable dict from str keys to str values as an SMT array String -> Option String."""

    __pyvc_symbolic__ = True
    __pyvc_stub__ = True

    def __init__(self, arr: Any = None) -> None:
        O = opt_sort()
        self.arr = arr if arr is not None else z3.K(z3.StringSort(), O.none)

    @staticmethod
    def fresh(ctx: Any, base: str = 'map') -> 'SDict':
        if getattr(ctx, 'concrete', False):
            return {}  # type: ignore[return-value]
        return SDict(ctx.fresh_const(base, z3.ArraySort(z3.StringSort(), opt_sort())))

    @staticmethod
    def of(d: Dict[Any, Any]) -> 'SDict':
        sd = SDict()
        for k, v in d.items():
            sd.__pyvc_setitem__(k, v)
        return sd

    def snapshot(self) -> Any:
        return self.arr

    def has(self, k: Any) -> Any:
        O = opt_sort()
        return mk_bool(O.is_some(z3.Select(self.arr, _s(k))))

    def value(self, k: Any) -> Any:
        """The stored value (meaningful only where has(k))."""
        O = opt_sort()
        return mk_str(O.val(z3.Select(self.arr, _s(k))), 'str')

    def lookup(self, k: Any) -> Any:
        """Non-forking Option view: (present, value)."""
        return self.has(k), self.value(k)

    def get(self, k: Any, default: Any = None) -> Any:
        if bool(self.has(k)):
            return self.value(k)
        return default

    def __pyvc_getitem__(self, k: Any) -> Any:
        if bool(self.has(k)):
            return self.value(k)
        cur().raise_py(KeyError, k)

    def __pyvc_setitem__(self, k: Any, v: Any) -> None:
        O = opt_sort()
        if _kind(v) != 'str':
            raise Unreached('SDict value that is not a str: %r' % (v,))
        self.arr = z3.simplify(z3.Store(self.arr, _s(k), O.some(_s(v))))

    def __pyvc_delitem__(self, k: Any) -> None:
        O = opt_sort()
        if not bool(self.has(k)):
            cur().raise_py(KeyError, k)
        self.arr = z3.simplify(z3.Store(self.arr, _s(k), O.none))

    def pop(self, k: Any, *default: Any) -> Any:
        O = opt_sort()
        if bool(self.has(k)):
            v = self.value(k)
            self.arr = z3.simplify(z3.Store(self.arr, _s(k), O.none))
            return v
        if default:
            return default[0]
        cur().raise_py(KeyError, k)

    def setdefault(self, k: Any, v: Any) -> Any:
        if bool(self.has(k)):
            return self.value(k)
        self.__pyvc_setitem__(k, v)
        return v

    def __pyvc_contains__(self, k: Any) -> Any:
        return self.has(k)

    def copy(self) -> 'SDict':
        return SDict(self.arr)

    def items(self) -> 'SDictItems':
        return SDictItems(self.arr)

    def __pyvc_items__(self) -> Any:
        raise Unreached('enumeration of a symbolic dict')

    def __pyvc_havoc__(self, ctx: 'Ctx', base: str) -> 'SDict':
        return SDict.fresh(ctx, base)

    def __pyvc_eq__(self, o: Any) -> Any:
        if isinstance(o, SDict):
            return mk_bool(self.arr == o.arr)
        if isinstance(o, dict):
            return mk_bool(self.arr == SDict.of(o).arr)
        return False

    def __pyvc_truth__(self) -> Any:
        O = opt_sort()
        return mk_bool(self.arr != z3.K(z3.StringSort(), O.none))

    def __repr__(self) -> str:
        return '<SDict %s>' % (str(self.arr)[:60],)


class SDictItems:
    """dict.items() of a symbolic dict at one moment: each key exactly once (dict semantics)."""

    __pyvc_symbolic__ = True

    def __init__(self, arr: Any) -> None:
        self.arr = arr

    def __pyvc_iter__(self) -> Any:
        raise Unreached('iteration over the items of a symbolic dict')

    def __pyvc_copy_list__(self) -> 'SegList':
        return SegList([self])


class SegList:
    """list(d.items()) of a symbolic dict, possibly extended with python lists: a concatenation of segments.

    A segment is either an `SDictItems` (every key of that map exactly once, in dict order)
    or a plain python list.  Only concatenation is supported; contracts inspect `.segments`.
    """

    __pyvc_symbolic__ = True

    def __init__(self, segments: Any) -> None:
        self.segments = list(segments)

    def _lift(self, o: Any) -> Any:
        if isinstance(o, SegList):
            return list(o.segments)
        if isinstance(o, list):
            return [list(o)] if o else []
        raise Unreached('concatenation of a symbolic item list with %r' % (o,))

    def __pyvc_add__(self, o: Any) -> 'SegList':
        return SegList(self.segments + self._lift(o))

    def __pyvc_radd__(self, o: Any) -> 'SegList':
        return SegList(self._lift(o) + self.segments)

    def __pyvc_copy_list__(self) -> 'SegList':
        return SegList(self.segments)

    def __pyvc_iter__(self) -> Any:
        raise Unreached('iteration over a list that contains the items of a symbolic dict')

    def __pyvc_truth__(self) -> Any:
        raise Unreached('truth value of a list that contains the items of a symbolic dict')


def Store(arr: Any, k: Any, v: Any) -> Any:
    """Spec-side: the map `arr` with k := v (v None deletes)."""
    O = opt_sort()
    return z3.simplify(z3.Store(arr, _s(k), O.none if v is None else O.some(_s(v))))


def MapEq(a: Any, b: Any) -> Any:
    return mk_bool(a == b)


# ---------------------------------------------------------------------------
# sequences of opaque references


class FnSeq:
    """An immutable sequence given by its (symbolic) length and an element function of the index."""

    __pyvc_symbolic__ = True
    __pyvc_stub__ = True

    def __init__(self, n: Any, fn: Callable[[Any], Any]) -> None:
        self.n = n
        self.fn = fn

    def __pyvc_seq__(self) -> 'FnSeq':
        return self

    def length(self) -> Any:
        return self.n

    def __pyvc_len__(self) -> Any:
        return self.n

    def __getitem__(self, i: Any) -> Any:
        return self.fn(i)

    def __pyvc_getitem__(self, i: Any) -> Any:
        return self.fn(i)

    def __pyvc_truth__(self) -> Any:
        return self.n > 0

    def __pyvc_reversed__(self) -> 'FnSeq':
        n, fn = self.n, self.fn
        return FnSeq(n, lambda i: fn(n - 1 - i))

    def __pyvc_iter__(self) -> Any:
        if isinstance(self.n, int):
            return [self.fn(i) for i in range(self.n)]
        raise Unreached('iteration over a sequence of symbolic length without an invariant')

    def __iter__(self) -> Any:
        return iter(self.__pyvc_iter__())

    def __len__(self) -> int:
        if isinstance(self.n, int):
            return self.n
        raise Unreached('len() of a sequence of symbolic length in native code')

    def __bool__(self) -> bool:
        return bool(self.n > 0)


class SeqList:
    """Mutable list whose elements are opaque references identified by an Int (SMT Seq Int)."""

    __pyvc_symbolic__ = True
    __pyvc_stub__ = True

    def __init__(self, wrap: Callable[[Any], Any], unwrap: Callable[[Any], Any], seq: Any = None) -> None:
        self.wrap = wrap
        self.unwrap = unwrap
        self.seq = seq if seq is not None else z3.Empty(z3.SeqSort(z3.IntSort()))

    def insert(self, i: Any, x: Any) -> None:
        if not (isinstance(i, int) and i == 0):
            raise Unreached('SeqList.insert at a position other than 0')
        self.seq = z3.simplify(z3.Concat(z3.Unit(_i(self.unwrap(x))), self.seq))

    def append(self, x: Any) -> None:
        self.seq = z3.simplify(z3.Concat(self.seq, z3.Unit(_i(self.unwrap(x)))))

    def length(self) -> Any:
        return mk_int(z3.Length(self.seq))

    def __pyvc_len__(self) -> Any:
        return self.length()

    def __pyvc_truth__(self) -> Any:
        return mk_bool(z3.Length(self.seq) > 0)

    def __pyvc_seq__(self) -> 'SeqList':
        return self

    def __getitem__(self, i: Any) -> Any:
        return self.wrap(mk_int(self.seq[_i(i)]))

    def __pyvc_getitem__(self, i: Any) -> Any:
        n = z3.Length(self.seq)
        ii = _i(i)
        c = cur()
        if c.branch(z3.Or(ii >= n, ii < -n), label='index-oob'):
            c.raise_py(IndexError, 'list index out of range')
        return self.wrap(mk_int(self.seq[z3.If(ii < 0, n + ii, ii)]))

    def __pyvc_havoc__(self, ctx: 'Ctx', base: str) -> 'SeqList':
        return SeqList(self.wrap, self.unwrap, ctx.fresh_const(base + '_seq', z3.SeqSort(z3.IntSort())))

    def __pyvc_iter__(self) -> Any:
        t = z3.simplify(z3.Length(self.seq))
        if z3.is_int_value(t):
            return [self.wrap(mk_int(z3.simplify(self.seq[k]))) for k in range(t.as_long())]
        raise Unreached('iteration over a list of symbolic length without an invariant')

    def __repr__(self) -> str:
        return '<SeqList %s>' % (self.seq,)
