"""AST interpreter over symbolic values (the symbolic executor proper)."""
from __future__ import annotations

import ast
import re
import json
import os
import builtins
import sys
import types
from typing import Any, Callable, Dict, List, Optional, Tuple

import z3

from . import core
from .core import (
    And,
    Ctx,
    ExcVal,
    Not,
    Obj,
    Or,
    Outcome,
    PathCut,
    PyRaise,
    SBool,
    SInt,
    SSeq,
    SStr,
    Sym,
    Unreached,
    is_sym,
)
from .extract import SourceIndex, branch_ordinals, loop_ordinals


class ReturnSig(Exception):
    def __init__(self, value: Any) -> None:
        self.value = value


class BreakSig(Exception):
    pass


class ContinueSig(Exception):
    pass


class Closure:
    """A function of the interpreted program (AST + defining environment)."""

    def __init__(self, node: Any, module: Any, qualname: str, parent: Optional['Frame'], defcls: Any = None, modname: str = '') -> None:
        self.node = node
        self.module = module  # real module object (globals)
        self.qualname = qualname
        self.parent = parent
        self.defcls = defcls
        self.modname = modname or getattr(module, '__name__', '')
        self.defaults: Optional[Tuple[List[Any], Dict[str, Any]]] = None
        self.is_async = isinstance(node, ast.AsyncFunctionDef)
        self.is_gen = False if isinstance(node, ast.Lambda) else _has_yield(node)

    @property
    def key(self) -> str:
        return '%s:%s' % (self.modname, self.qualname)

    def __repr__(self) -> str:
        return '<Closure %s>' % self.key


class BoundMethod:
    def __init__(self, func: Any, self_obj: Any) -> None:
        self.func = func
        self.self_obj = self_obj

    def __repr__(self) -> str:
        return '<BoundMethod %r of %r>' % (self.func, self.self_obj)

    def __eq__(self, o: Any) -> bool:
        if not isinstance(o, BoundMethod) or o.self_obj is not self.self_obj:
            return False
        a, b = self.func, o.func
        if a is b:
            return True
        # the same method looked up twice yields two Closure objects over the same definition
        return isinstance(a, Closure) and isinstance(b, Closure) and a.node is b.node and a.parent is b.parent

    def __hash__(self) -> int:
        f = self.func
        return hash((id(f.node) if isinstance(f, Closure) else id(f), id(self.self_obj)))


class SuperProxy:
    def __init__(self, obj: Any, after: Any) -> None:
        self.obj = obj
        self.after = after


class Frame:
    def __init__(self, closure: Optional[Closure], module: Any, parent: Optional['Frame']) -> None:
        self.closure = closure
        self.module = module
        self.parent = parent
        self.locals: Dict[str, Any] = {}
        self.loop_labels: Dict[int, str] = {}
        self.br_labels: Dict[int, str] = {}

    def lookup(self, name: str) -> Any:
        f: Optional[Frame] = self
        while f is not None:
            if name in f.locals:
                return f.locals[name]
            f = f.parent
        raise KeyError(name)


_LOOP_HEADERS: Optional[Dict[str, Dict[str, str]]] = None


def _loop_headers() -> Dict[str, Dict[str, str]]:
    global _LOOP_HEADERS
    if _LOOP_HEADERS is None:
        p = os.path.join(os.path.dirname(os.path.dirname(os.path.abspath(__file__))), 'contracts', 'loop_headers.json')
        try:
            with open(p) as fh:
                _LOOP_HEADERS = json.load(fh)
        except (OSError, ValueError):
            _LOOP_HEADERS = {}
    return _LOOP_HEADERS


def _current_loop_headers(fn_node: Any) -> Dict[int, Tuple[str, str]]:
    r = getattr(fn_node, '_pyvc_loop_headers', None)
    if r is None:
        from .extract import loop_ordinals

        r = {}
        labels = loop_ordinals(fn_node)
        for n in _walk_no_nested(fn_node):
            if id(n) in labels:
                try:
                    h = ('while ' + ast.unparse(n.test)) if isinstance(n, ast.While) else ('for ' + ast.unparse(n.target) + ' in ' + ast.unparse(n.iter))
                except Exception:
                    h = '?'
                r[id(n)] = (labels[id(n)], h)
        try:
            fn_node._pyvc_loop_headers = r
        except AttributeError:
            pass
    return r


def _has_yield(node: Any) -> bool:
    # memoised on the AST node itself (the node, hence the answer, lives as long as the source index of this run)
    r = getattr(node, '_pyvc_has_yield', None)
    if r is None:
        r = any(isinstance(n, (ast.Yield, ast.YieldFrom)) for n in _walk_no_nested(node))
        try:
            node._pyvc_has_yield = r
        except AttributeError:
            pass
    return r


def _walk_no_nested(node: Any) -> Any:
    stack = list(ast.iter_child_nodes(node))
    while stack:
        n = stack.pop()
        yield n
        if isinstance(n, (ast.FunctionDef, ast.AsyncFunctionDef, ast.Lambda, ast.ClassDef)):
            continue
        stack.extend(ast.iter_child_nodes(n))


class LoopSpec:
    """Invariant of one loop: inv(L) -> bool-ish; optional havoc(ctx, L) for extra state."""

    def __init__(self, inv: Callable[[Any], Any], havoc: Optional[Callable[[Ctx, Any], None]] = None, no_auto: Tuple[str, ...] = (),
                 lists: Optional[Dict[str, str]] = None, name: Optional[str] = None) -> None:
        self.inv = inv
        self.havoc = havoc
        self.no_auto = no_auto
        self.lists = lists or {}
        # a loop contract registered under the loop's HEADER TEXT ('for x in xs' / 'while cond') instead of its ordinal survives reordering of
        # loops; `name` is then the stable label used in obligation ids, and the index of a for loop is L['_i_loop']
        self.name = name


class Locals:
    """Attribute/str-key view of a frame's locals for invariants and havoc callbacks."""

    def __init__(self, frame: Frame) -> None:
        object.__setattr__(self, '_f', frame)

    def __getitem__(self, k: str) -> Any:
        return self._f.lookup(k)

    def __getattr__(self, k: str) -> Any:
        try:
            return self._f.lookup(k)
        except KeyError:
            raise AttributeError(k)

    def __setitem__(self, k: str, v: Any) -> None:
        self._f.locals[k] = v

    def __setattr__(self, k: str, v: Any) -> None:
        self._f.locals[k] = v

    def __contains__(self, k: str) -> bool:
        try:
            self._f.lookup(k)
            return True
        except KeyError:
            return False


def deep_concrete(x: Any, depth: int = 0) -> bool:
    if isinstance(x, (Sym, Obj, ExcVal, Closure, BoundMethod)):
        return False
    if getattr(x, '__pyvc_symbolic__', False):
        return False
    if depth > 4:
        return True
    if isinstance(x, (list, tuple, set, frozenset)):
        return all(deep_concrete(e, depth + 1) for e in x)
    if isinstance(x, dict):
        return all(deep_concrete(k, depth + 1) and deep_concrete(v, depth + 1) for k, v in x.items())
    return True


class Interp:
    def __init__(self, ctx: Ctx, index: SourceIndex, registry: Any = None) -> None:
        self.ctx = ctx
        self.index = index
        self.registry = registry  # provides stubs / loop specs / inline policy / models
        self.depth = 0
        self.max_depth = 40
        self.max_unroll = 200
        self.active: List[str] = []
        self.havoc_log: List[str] = []
        self.tainted: Dict[int, Tuple[Any, str]] = {}  # python dicts whose content is unknown after a loop cut (see havoc_loop)
        self.frames: List[Frame] = []  # frames of the interpreted calls in progress (innermost last); stubs may inspect them
        try:
            ctx.interp = self
        except Exception:
            pass
        # default-argument values of module-/class-level functions, evaluated once per run (= per explored path), as python
        # evaluates them once at definition time: a mutable default (`def f(x, _cache={})`) is state shared between calls
        self.def_defaults: Dict[Any, Tuple[List[Any], Dict[str, Any]]] = {}

    # ------------------------------------------------------------------ resolve
    def closure_for(self, module: str, qualname: str, defcls: Any = None, accessor: Optional[str] = None) -> Closure:
        info = self.index.find(module, qualname, accessor)
        mod = sys.modules.get(module)
        if mod is None:
            __import__(module)
            mod = sys.modules[module]
        return Closure(info.node, mod, qualname, None, defcls, module)

    def closure_of_real(self, fn: Any, accessor: Optional[str] = None) -> Optional[Closure]:
        """Closure for a real function object of a repo module (by module+qualname; accessor: 'setter'/'deleter' of a property)."""
        fn = getattr(fn, '__wrapped__', fn) if not isinstance(fn, types.FunctionType) else fn
        mod = getattr(fn, '__module__', None)
        qn = getattr(fn, '__qualname__', None)
        if not mod or not qn or not self.is_repo_module(mod):
            return None
        if '<locals>' in qn:
            return None
        try:
            return self.closure_for(mod, qn, accessor=accessor)
        except KeyError:
            return None

    def is_repo_module(self, mod: str) -> bool:
        top = mod.split('.')[0]
        return top == 'falcon' and self.index.has_module(mod)

    # ------------------------------------------------------------------ calls
    def run(self, closure: Closure, args: Tuple[Any, ...], kwargs: Optional[Dict[str, Any]] = None) -> Outcome:
        """Top-level: run a subject, turning a raise into an Outcome."""
        try:
            v = self.invoke(closure, list(args), dict(kwargs or {}))
            return Outcome(value=v)
        except PyRaise as e:
            return Outcome(exc=e.exc)

    def call(self, fn: Any, args: List[Any], kwargs: Dict[str, Any], node: Any = None) -> Any:
        reg = self.registry
        if self.tainted:
            recv_t = getattr(fn, '__self__', None)
            if isinstance(recv_t, dict) and id(recv_t) in self.tainted and self.tainted[id(recv_t)][0] is recv_t:
                nm = getattr(fn, '__name__', '')
                if nm == 'clear':
                    del self.tainted[id(recv_t)]  # known again: empty
                elif nm not in ('update', '__setitem__'):
                    self.check_known(recv_t, 'call of .%s()' % nm)
            for a_ in list(args) + list(kwargs.values()):
                if isinstance(a_, dict):
                    self.check_known(a_, 'passing it to a call')
        if isinstance(fn, BoundMethod):
            return self.call(fn.func, [fn.self_obj] + args, kwargs, node)
        if isinstance(fn, Closure):
            if reg is not None:
                stub = reg.stub_for(fn.key)
                if stub is not None and fn.key not in self.active[:1]:
                    return stub(self, *args, **kwargs)
                if not reg.may_inline(fn.key, self):
                    raise Unreached('call to %s: no contract and not marked inline' % fn.key)
            return self.invoke(fn, args, kwargs)
        if reg is not None:
            m = reg.model_for(fn)
            if m is not None:
                return m(self, *args, **kwargs)
        if isinstance(fn, type):
            return self.instantiate(fn, args, kwargs)
        if type(fn).__name__ == 'partial' and type(fn).__module__ == 'functools' and not (deep_concrete(args) and deep_concrete(kwargs)):
            # functools.partial(f, *a, **k)(*b, **l) == f(*a, *b, **{**k, **l})
            return self.call(fn.func, list(fn.args) + args, {**fn.keywords, **kwargs}, node)
        if isinstance(fn, (types.FunctionType, types.MethodType)):
            if isinstance(fn, types.MethodType) and not getattr(fn.__func__, '__pyvc_native__', False):
                target = fn.__func__
                c = self.closure_of_real(target)
                if c is not None:
                    return self.call(c, [fn.__self__] + args, kwargs, node)
            elif isinstance(fn, types.FunctionType) and not getattr(fn, '__pyvc_native__', False):
                c = self.closure_of_real(fn)
                if c is not None:
                    return self.call(c, args, kwargs, node)
        recv0 = getattr(fn, '__self__', None)
        if isinstance(recv0, dict) and not isinstance(fn, type) and getattr(fn, '__name__', '') in ('get', 'pop', 'setdefault') and args and is_sym(args[0]) \
                and not hasattr(recv0, '__pyvc_getitem__'):
            # d.get(k) / d.pop(k) / d.setdefault(k) with a SYMBOLIC key on a python dict (also a contract-side dict subclass): a native call would
            # hash the symbolic key by identity and report "absent" whatever the key equals.  Decide the key first (one fork per existing key).
            for kk in list(recv0):
                eq = args[0] == kk
                if eq is not False and self.truth(eq):
                    return self._native_container_call(fn, [kk] + list(args[1:]), kwargs)
            if fn.__name__ == 'get':
                return args[1] if len(args) > 1 else kwargs.get('default')
            if fn.__name__ == 'pop':
                if len(args) > 1:
                    return args[1]
                self.ctx.raise_py(KeyError, 'key')
            return self._native_container_call(fn, args, kwargs)  # setdefault of a key that differs from every existing one: a new entry
        if getattr(fn, '__pyvc_native__', False) or _is_proxy_method(fn) or getattr(type(fn), '__pyvc_stub__', False):
            return fn(*args, **kwargs)
        if isinstance(getattr(fn, '__self__', None), list) and not isinstance(fn, type) and fn.__name__ in _LIST_NATIVE:
            return self._native_container_call(fn, args, kwargs)
        if isinstance(getattr(fn, '__self__', None), dict) and not isinstance(fn, type) and fn.__name__ in _DICT_NATIVE and deep_concrete(args[:1]):
            return self._native_container_call(fn, args, kwargs)
        if deep_concrete(args) and deep_concrete(kwargs):
            try:
                return fn(*args, **kwargs)
            except PathCut:
                raise
            except Exception as e:  # a real exception of the interpreted program
                raise PyRaise(ExcVal(type(e), e.args, real=e))
        # method of a concrete str/bytes receiver with symbolic args: lift receiver
        recv = getattr(fn, '__self__', None)
        if isinstance(recv, (str, bytes)) and not isinstance(fn, type):
            lifted = SStr(core._s(recv), 'str' if isinstance(recv, str) else 'bytes')
            name = fn.__name__
            if name == 'join':
                return self.str_join(recv, args[0])
            if name == 'format' and isinstance(recv, str):
                return self.str_format(recv, args, kwargs)
            if hasattr(lifted, name):
                return getattr(lifted, name)(*args, **kwargs)
        raise Unreached('call of %r with symbolic arguments has no model' % (fn,))

    @staticmethod
    def _native_container_call(fn: Any, args: List[Any], kwargs: Dict[str, Any]) -> Any:
        """A list / dict method run natively: its lookup errors (d.pop(absent), l.remove(absent), [].pop() ...) are
        exceptions of the interpreted program, not crashes of the checker."""
        try:
            return fn(*args, **kwargs)
        except (KeyError, IndexError, ValueError, TypeError) as e:
            raise PyRaise(ExcVal(type(e), e.args, real=e))

    def str_format(self, fmt: str, args: List[Any], kwargs: Dict[str, Any]) -> Any:
        """'...{}...{0}...{name}...'.format(*args, **kwargs) with plain replacement fields (no conversion, no format spec)."""
        import string

        out: Any = ''
        auto = 0
        for lit, field, spec, conv in string.Formatter().parse(fmt):
            if lit:
                out = self.binop(ast.Add(), out, lit)
            if field is None:
                continue
            if spec or conv:
                raise Unreached('str.format with a conversion or format spec on symbolic arguments')
            if field == '':
                val, auto = args[auto], auto + 1
            elif field.isdigit():
                val = args[int(field)]
            elif field.isidentifier() and field in kwargs:
                val = kwargs[field]
            else:
                raise Unreached('str.format replacement field %r with symbolic arguments' % field)
            out = self.binop(ast.Add(), out, self.to_str(val))
        return out

    def str_join(self, sep: Any, items: Any) -> Any:
        if isinstance(items, core.SList) and isinstance(sep, (str, bytes)) and len(sep) == 0:
            return items.joined
        if hasattr(items, '__pyvc_join__'):
            return items.__pyvc_join__(self, sep)  # contract-side summary of a lazily mapped symbolic sequence
        items = list(self.iterate(items))
        if not items:
            return '' if isinstance(sep, (str, SStr)) and core._kind(sep) == 'str' else b''
        out = items[0]
        for it in items[1:]:
            out = self.binop(ast.Add(), self.binop(ast.Add(), out, sep), it)
        return out

    def instantiate(self, cls: type, args: List[Any], kwargs: Dict[str, Any]) -> Any:
        if issubclass(cls, BaseException):
            if deep_concrete(args) and deep_concrete(kwargs):
                try:
                    real = cls(*args, **kwargs)
                    return ExcVal(cls, tuple(args), kwargs, real=real)
                except Exception:
                    pass
            ev = ExcVal(cls, tuple(args), kwargs)
            hook = self.registry.exc_init_hook if self.registry is not None else None
            if hook is not None:
                hook(self, ev)
            return ev
        if self.is_repo_module(getattr(cls, '__module__', '')):
            obj = Obj(cls)
            new_hook = getattr(self.registry, 'obj_new_hook', None)
            if new_hook is not None:
                new_hook(self, obj)  # contracts attach ghost state to objects the subject creates
            init = self.class_attr(cls, '__init__')
            if init is not None and init[0] == 'function':
                self.call(init[1], [obj] + args, kwargs)
            return obj
        if deep_concrete(args) and deep_concrete(kwargs):
            try:
                return cls(*args, **kwargs)
            except Exception as e:
                raise PyRaise(ExcVal(type(e), e.args, real=e))
        if cls in (list, tuple):
            return cls(self.iterate(args[0]))
        raise Unreached('instantiating %r with symbolic arguments' % (cls,))

    def class_attr(self, cls: type, name: str, after: Any = None) -> Any:
        """Look `name` up the MRO of a real class; repo functions come back as Closures."""
        mro = list(cls.__mro__)
        if after is not None:
            mro = mro[mro.index(after) + 1 :]
        for k in mro:
            if name not in k.__dict__:
                continue
            raw = k.__dict__[name]
            if self.is_repo_module(k.__module__):
                cd = self.index.find_class(k.__module__, k.__qualname__)
                if cd is not None:
                    fnode = None
                    for n in _class_body_defs(cd):
                        if isinstance(n, (ast.FunctionDef, ast.AsyncFunctionDef)) and n.name == name:
                            fnode = n
                    if fnode is not None:
                        decos = [ast.unparse(d) for d in fnode.decorator_list]
                        mod = sys.modules[k.__module__]
                        c = Closure(fnode, mod, '%s.%s' % (k.__qualname__, name), None, k, k.__module__)
                        kind = 'function'
                        for d in decos:
                            base = d.split('(')[0]
                            if base in ('property', 'functools.cached_property', 'cached_property'):
                                kind = 'property'
                            elif base == 'staticmethod':
                                kind = 'static'
                            elif base == 'classmethod':
                                kind = 'classmethod'
                            elif base.endswith('.setter') or base.endswith('.deleter'):
                                kind = 'skip'
                            elif base in ('deprecated', 'deprecation.deprecated', 'overload', '_lru_cache_for_simple_logic', 'functools.lru_cache', 'functools.wraps'):
                                pass
                            else:
                                raise Unreached('decorator %s on %s' % (d, c.key))
                        if kind == 'skip':
                            # property with setter: find the getter
                            for n in _class_body_defs(cd):
                                if isinstance(n, ast.FunctionDef) and n.name == name and any(ast.unparse(d) == 'property' for d in n.decorator_list):
                                    c = Closure(n, mod, '%s.%s' % (k.__qualname__, name), None, k, k.__module__)
                                    return ('property', c)
                        return (kind, c)
            if isinstance(raw, property):
                return ('property-native', raw)
            if isinstance(raw, staticmethod):
                return ('static', raw.__func__)
            if isinstance(raw, classmethod):
                return ('classmethod', raw.__func__)
            if isinstance(raw, types.FunctionType):
                return ('function', raw)
            return ('value', raw)
        return None

    def invoke(self, c: Closure, args: List[Any], kwargs: Dict[str, Any]) -> Any:
        if self.depth > self.max_depth:
            raise Unreached('call depth exceeded at %s' % c.key)
        frame = Frame(c, c.module, c.parent)
        node = c.node
        if hasattr(self.ctx, 'ex') and not isinstance(node, ast.Lambda) and c.key not in self.ctx.ex.stmt_all and '<locals>' not in c.key:
            self.ctx.ex.stmt_all[c.key] = sorted({getattr(n, 'lineno', 0) for n in _walk_no_nested(node) if isinstance(n, ast.stmt)
                                                  and not (isinstance(n, ast.Expr) and isinstance(n.value, ast.Constant))})
        if not isinstance(node, ast.Lambda):
            lab = getattr(node, '_pyvc_labels', None)
            if lab is None:
                lab = (loop_ordinals(node), branch_ordinals(node))
                node._pyvc_labels = lab  # keyed by id() of child nodes, which the function node keeps alive
            frame.loop_labels, frame.br_labels = lab
        self.bind_args(c, frame, args, kwargs)
        self.depth += 1
        self.active.append(c.key)
        self.frames.append(frame)
        try:
            if isinstance(node, ast.Lambda):
                return self.eval(node.body, frame)
            if c.is_gen:
                frame.locals['$yields'] = []
            try:
                self.exec_block(node.body, frame)
            except ReturnSig as r:
                if c.is_gen:
                    return GenResult(frame.locals['$yields'], r.value)
                return r.value
            if c.is_gen:
                return GenResult(frame.locals['$yields'], None)
            return None
        finally:
            self.depth -= 1
            self.active.pop()
            self.frames.pop()

    def bind_args(self, c: Closure, frame: Frame, args: List[Any], kwargs: Dict[str, Any]) -> None:
        a = c.node.args
        pos = [x.arg for x in a.posonlyargs + a.args]
        defaults = a.defaults
        if c.defaults is None:
            # (a Closure for a repo function is re-created at every resolution, so its defaults must be remembered here;
            #  nested defs / lambdas get a new Closure -- and new defaults -- each time the `def` executes, as in python)
            dkey = (c.key, getattr(c.node, 'lineno', 0)) if c.parent is None and not isinstance(c.node, ast.Lambda) else None
            if dkey is not None and dkey in self.def_defaults:
                c.defaults = self.def_defaults[dkey]
            else:
                dframe = Frame(None, c.module, c.parent)
                dvals = [self.eval(d, dframe) for d in defaults]
                kwd = {}
                for k, d in zip(a.kwonlyargs, a.kw_defaults):
                    if d is not None:
                        kwd[k.arg] = self.eval(d, dframe)
                c.defaults = (dvals, kwd)
                if dkey is not None:
                    self.def_defaults[dkey] = c.defaults
        dvals, kwd = c.defaults
        loc = frame.locals
        n = len(pos)
        if len(args) > n and a.vararg is None:
            self.ctx.raise_py(TypeError, '%s() takes %d positional arguments but %d were given' % (c.qualname, n, len(args)))
        for i, name in enumerate(pos):
            if i < len(args):
                loc[name] = args[i]
        if a.vararg is not None:
            loc[a.vararg.arg] = tuple(args[n:])
        extra = {}
        for k, v in kwargs.items():
            if k in pos or k in [x.arg for x in a.kwonlyargs]:
                if k in loc:
                    self.ctx.raise_py(TypeError, '%s() got multiple values for argument %r' % (c.qualname, k))
                loc[k] = v
            elif a.kwarg is not None:
                extra[k] = v
            else:
                self.ctx.raise_py(TypeError, '%s() got an unexpected keyword argument %r' % (c.qualname, k))
        if a.kwarg is not None:
            loc[a.kwarg.arg] = extra
        first_default = n - len(dvals)
        for i, name in enumerate(pos):
            if name not in loc:
                if i >= first_default:
                    loc[name] = dvals[i - first_default]
                else:
                    self.ctx.raise_py(TypeError, '%s() missing required argument %r' % (c.qualname, name))
        for k in a.kwonlyargs:
            if k.arg not in loc:
                if k.arg in kwd:
                    loc[k.arg] = kwd[k.arg]
                else:
                    self.ctx.raise_py(TypeError, '%s() missing keyword-only argument %r' % (c.qualname, k.arg))

    # ------------------------------------------------------------------ statements
    def exec_block(self, body: List[ast.stmt], frame: Frame) -> None:
        for s in body:
            self.exec(s, frame)

    def exec(self, s: ast.stmt, frame: Frame) -> None:
        cov = self.ctx.ex.stmt_cov if hasattr(self.ctx, 'ex') else None
        if cov is not None and frame.closure is not None:
            cov.setdefault(frame.closure.key, set()).add(getattr(s, 'lineno', 0))
        m = getattr(self, 'x_' + type(s).__name__, None)
        if m is None:
            raise Unreached('statement %s at line %d' % (type(s).__name__, getattr(s, 'lineno', 0)))
        m(s, frame)

    def x_Expr(self, s: ast.Expr, f: Frame) -> None:
        if isinstance(s.value, ast.Constant):
            return  # docstring / bare constant
        self.eval(s.value, f)

    def x_Pass(self, s: ast.Pass, f: Frame) -> None:
        pass

    def x_Return(self, s: ast.Return, f: Frame) -> None:
        raise ReturnSig(self.eval(s.value, f) if s.value is not None else None)

    def x_Break(self, s: ast.Break, f: Frame) -> None:
        raise BreakSig()

    def x_Continue(self, s: ast.Continue, f: Frame) -> None:
        raise ContinueSig()

    def x_Assign(self, s: ast.Assign, f: Frame) -> None:
        v = self.eval(s.value, f)
        for t in s.targets:
            self.assign(t, v, f)

    def x_AnnAssign(self, s: ast.AnnAssign, f: Frame) -> None:
        if s.value is not None:
            self.assign(s.target, self.eval(s.value, f), f)

    def x_AugAssign(self, s: ast.AugAssign, f: Frame) -> None:
        t = s.target
        if isinstance(t, ast.Name):
            cur_v = self.load_name(t.id, f)
            self.store_name(t.id, self.binop(s.op, cur_v, self.eval(s.value, f), inplace=True), f)
        elif isinstance(t, ast.Attribute):
            o = self.eval(t.value, f)
            cur_v = self.getattr(o, t.attr)
            self.setattr(o, t.attr, self.binop(s.op, cur_v, self.eval(s.value, f), inplace=True))
        elif isinstance(t, ast.Subscript):
            o = self.eval(t.value, f)
            k = self.eval_slice(t.slice, f)
            cur_v = self.getitem(o, k)
            self.setitem(o, k, self.binop(s.op, cur_v, self.eval(s.value, f), inplace=True))
        else:
            raise Unreached('augmented assignment target')

    def x_Delete(self, s: ast.Delete, f: Frame) -> None:
        for t in s.targets:
            if isinstance(t, ast.Subscript):
                o = self.eval(t.value, f)
                k = self.eval_slice(t.slice, f)
                self.delitem(o, k)
            elif isinstance(t, ast.Name):
                f.locals.pop(t.id, None)
            elif isinstance(t, ast.Attribute):
                o = self.eval(t.value, f)
                self.delattr(o, t.attr)
            else:
                raise Unreached('del target')

    def x_If(self, s: ast.If, f: Frame) -> None:
        if _is_type_checking(s.test):
            self.exec_block(s.orelse, f)
            return
        if self.truth(self.eval(s.test, f), f.br_labels.get(id(s), 'If')):
            self.exec_block(s.body, f)
        else:
            self.exec_block(s.orelse, f)

    def x_Assert(self, s: ast.Assert, f: Frame) -> None:
        if not self.truth(self.eval(s.test, f), f.br_labels.get(id(s), 'Assert')):
            self.ctx.raise_py(AssertionError)

    def x_Raise(self, s: ast.Raise, f: Frame) -> None:
        if s.exc is None:
            cur_exc = f.locals.get('$exc')
            ff: Optional[Frame] = f
            while cur_exc is None and ff is not None:
                cur_exc = ff.locals.get('$exc')
                ff = ff.parent
            if cur_exc is None:
                self.ctx.raise_py(RuntimeError, 'No active exception to reraise')
            raise PyRaise(cur_exc)
        v = self.eval(s.exc, f)
        if isinstance(v, type) and issubclass(v, BaseException):
            v = self.instantiate(v, [], {})
        if isinstance(v, BaseException):
            v = ExcVal(type(v), v.args, real=v)
        if not isinstance(v, ExcVal):
            raise Unreached('raise of non-exception %r' % (v,))
        if s.cause is not None:
            v.fields['__cause__'] = self.eval(s.cause, f)
        raise PyRaise(v)

    def x_Try(self, s: ast.Try, f: Frame) -> None:
        try:
            try:
                self.exec_block(s.body, f)
            except PyRaise as pr:
                handled = False
                for h in s.handlers:
                    if h.type is None:
                        match = True
                    else:
                        hc = self.eval(h.type, f)
                        match = self.exc_matches(pr.exc, hc)
                    if match:
                        handled = True
                        saved = f.locals.get('$exc')
                        f.locals['$exc'] = pr.exc
                        if h.name:
                            f.locals[h.name] = pr.exc
                        try:
                            self.exec_block(h.body, f)
                        finally:
                            f.locals['$exc'] = saved
                            if h.name:
                                f.locals.pop(h.name, None)
                        break
                if not handled:
                    raise
            else:
                self.exec_block(s.orelse, f)
        except (PyRaise, ReturnSig, BreakSig, ContinueSig):
            if s.finalbody:
                self.exec_block(s.finalbody, f)
            raise
        else:
            if s.finalbody:
                self.exec_block(s.finalbody, f)

    def exc_matches(self, exc: ExcVal, hc: Any) -> bool:
        if isinstance(hc, tuple):
            return any(self.exc_matches(exc, c) for c in hc)
        m = getattr(exc, 'matches', None)
        if m is not None:
            return m(hc)
        return exc.isa(hc)

    def x_With(self, s: Any, f: Frame) -> None:
        if len(s.items) != 1:
            raise Unreached('with: multiple items')
        it = s.items[0]
        mgr = self.eval(it.context_expr, f)
        enter = self.getattr(mgr, '__aenter__' if isinstance(s, ast.AsyncWith) else '__enter__')
        exit_ = self.getattr(mgr, '__aexit__' if isinstance(s, ast.AsyncWith) else '__exit__')
        v = self.call(enter, [], {})
        if it.optional_vars is not None:
            self.assign(it.optional_vars, v, f)
        try:
            self.exec_block(s.body, f)
        except PyRaise as pr:
            sup = self.call(exit_, [pr.exc.cls, pr.exc, None], {})
            if not self.truth(sup):
                raise
        except (ReturnSig, BreakSig, ContinueSig):
            self.call(exit_, [None, None, None], {})
            raise
        else:
            self.call(exit_, [None, None, None], {})

    x_AsyncWith = x_With

    def x_FunctionDef(self, s: Any, f: Frame) -> None:
        qn = (f.closure.qualname + '.<locals>.' if f.closure else '') + s.name
        c = Closure(s, f.module, qn, f, None, f.closure.modname if f.closure else '')
        v: Any = c
        for d in reversed(s.decorator_list):
            dv = self.eval(d, f)
            v = self.apply_decorator(dv, v, d)
        f.locals[s.name] = v

    x_AsyncFunctionDef = x_FunctionDef

    def apply_decorator(self, dv: Any, fn: Any, node: Any) -> Any:
        if self.registry is not None:
            r = self.registry.decorator(self, dv, fn, node)
            if r is not NotImplemented:
                return r
        raise Unreached('decorator %s' % ast.unparse(node))

    def x_Import(self, s: ast.Import, f: Frame) -> None:
        for a in s.names:
            mod = __import__(a.name)
            f.locals[(a.asname or a.name).split('.')[0]] = mod if a.asname is None else sys.modules[a.name]

    def x_ImportFrom(self, s: ast.ImportFrom, f: Frame) -> None:
        import importlib

        pkg = f.module.__package__ if s.level else None
        mod = importlib.import_module('.' * s.level + (s.module or ''), pkg)
        for a in s.names:
            f.locals[a.asname or a.name] = getattr(mod, a.name)

    def x_Global(self, s: ast.Global, f: Frame) -> None:
        raise Unreached('global statement')

    def x_Nonlocal(self, s: ast.Nonlocal, f: Frame) -> None:
        f.locals.setdefault('$nonlocal', set()).update(s.names)

    # --- loops ---------------------------------------------------------------
    def loop_spec(self, f: Frame, node: Any) -> Tuple[Optional[LoopSpec], str]:
        """The contract of this loop.  Contracts are keyed (function, header text) or (function, ordinal 'for#k').  For ordinal keys the
        header the loop had when the contract was written is recorded in contracts/loop_headers.json (generated on the unchanged tree):
        if the loops of the function have since been reordered, the contract follows its loop instead of its position."""
        label = f.loop_labels.get(id(node), '?')
        if self.registry is None or f.closure is None:
            return None, label
        key = f.closure.key
        try:
            if isinstance(node, ast.While):
                header = 'while ' + ast.unparse(node.test)
            else:
                header = 'for ' + ast.unparse(node.target) + ' in ' + ast.unparse(node.iter)
        except Exception:
            header = None
        if header is not None:
            spec = self.registry.loop_spec(key, header)
            if spec is not None:
                return spec, (spec.name or label)
        rf = os.environ.get('PYVC_RECORD_LOOPS')
        rec = {} if rf else _loop_headers().get(key, {})  # recording mode (unchanged tree): plain ordinal lookup, the table is being rebuilt
        if header is not None and rec:
            # Positive evidence only: a contract follows its loop when the header it was written for occurs at exactly ONE loop of the current
            # function.  A header that no longer occurs anywhere (renamed loop variable, rewritten condition) says nothing: ordinal stays.
            cur = _current_loop_headers(f.closure.node)          # id(node) -> (ordinal label, header)
            count = {}
            for _lb, _h in cur.values():
                count[_h] = count.get(_h, 0) + 1
            kind = label.split('#')[0]
            claimed = [lb for lb, h in rec.items() if h == header and count.get(h) == 1 and lb.split('#')[0] == kind
                       and self.registry.loop_spec(key, lb) is not None]
            if len(claimed) == 1:
                return self.registry.loop_spec(key, claimed[0]), claimed[0]
            h_own = rec.get(label)
            if h_own is not None and h_own != header and count.get(h_own) == 1:
                # the contract registered under this ordinal has demonstrably moved to another loop of this function
                return None, label
        spec = self.registry.loop_spec(key, label)
        if spec is not None and rf and header is not None:
            with open(rf, 'a') as fh:
                fh.write(json.dumps([key, label, header]) + '\n')
        return spec, label

    def x_While(self, s: ast.While, f: Frame) -> None:
        spec, label = self.loop_spec(f, s)
        if spec is not None:
            self.while_with_invariant(s, f, spec, label)
            return
        n = 0
        broke = False
        while self.truth(self.eval(s.test, f), f.br_labels.get(id(s), 'While')):
            n += 1
            if n > self.max_unroll:
                raise Unreached('loop %s of %s has no invariant and exceeds the unroll bound' % (label, f.closure.key if f.closure else '?'))
            try:
                self.exec_block(s.body, f)
            except BreakSig:
                broke = True
                break
            except ContinueSig:
                continue
        if not broke:
            self.exec_block(s.orelse, f)

    def havoc_loop(self, body: List[ast.stmt], f: Frame, spec: LoopSpec, label: str, extra_names: Tuple[str, ...] = ()) -> None:
        ctx = self.ctx
        names, attrs = assigned_in(body)
        names |= set(extra_names)
        key = f.closure.key if f.closure else '?'
        muts = mutated_lists(body)
        if any(isinstance(n, (ast.Yield, ast.YieldFrom)) for n in _walk_no_nested(ast.Module(body=list(body), type_ignores=[]))):
            muts.add('$yields')
        for n in sorted(muts):
            try:
                v = f.lookup(n)
            except KeyError:
                continue
            if isinstance(v, list):
                kind = spec.lists.get(n) or _infer_kind(v)
                if kind is None:
                    raise Unreached('list %r is mutated in loop %s of %s: the loop contract must name its element kind' % (n, label, key))
                if isinstance(kind, tuple):  # ('ref', wrap, unwrap): list of opaque references
                    sl = core.SeqList(kind[1], kind[2])
                    for x in v:
                        sl.append(x)
                    f.locals[n] = sl
                elif callable(kind):  # contract-supplied summary list: kind(items) -> object with append/__pyvc_havoc__/...
                    f.locals[n] = kind(v)
                else:
                    f.locals[n] = core.SList.from_list(kind, v)
                names.add(n)
            elif isinstance(v, (core.SList, core.SeqList)) or hasattr(v, '__pyvc_list_summary__'):
                names.add(n)
        for n in sorted(names):
            if n in spec.no_auto:
                continue
            try:
                v = f.lookup(n)
            except KeyError:
                continue
            f.locals[n] = ctx.fresh_like(v, 'hv_' + n) if _havocable(v) else v
            self.havoc_log.append('%s %s: local %s' % (key, label, n))
        for base, attr in sorted(attrs):
            if (base + '.' + attr) in spec.no_auto:
                continue
            try:
                o = self.eval(ast.parse(base, mode='eval').body, f)
            except (KeyError, PyRaise):
                continue
            try:
                v = self.getattr(o, attr)
            except PyRaise:
                continue
            if _havocable(v):
                self.setattr(o, attr, ctx.fresh_like(v, 'hv_%s_%s' % (base.replace('.', '_'), attr)))
            self.havoc_log.append('%s %s: field %s.%s' % (key, label, base, attr))
        # containers written through a subscript / a dict mutator inside the cut body: `d[k] = v` leaves no assigned NAME behind, so the
        # loop's exit state would otherwise still hold the entry-state mapping (unsound).  A symbolic dict gets a fresh array IN PLACE
        # (aliases follow); a concrete python dict cannot be summarised -> the loop is out of reach unless the contract takes charge of it.
        for base in sorted(subscript_mutated_in(body)):
            if base in spec.no_auto:
                continue
            try:
                o = self.eval(ast.parse(base, mode='eval').body, f)
            except (KeyError, PyRaise, SyntaxError):
                continue
            if isinstance(o, core.SDict):
                o.arr = core.SDict.fresh(ctx, 'hv_' + re.sub(r'\W', '_', base)).arr
                self.havoc_log.append('%s %s: mapping %s (in place)' % (key, label, base))
            elif isinstance(o, dict):
                # a concrete python dict cannot be summarised in place: its content is UNKNOWN from here on.  The object is kept (identity and
                # aliases matter to ownership clauses) but marked: the subject may write to it or clear() it (which makes it known again: empty);
                # any READ of it while marked makes the function unreached -- never a verdict drawn from stale content.
                self.tainted[id(o)] = (o, 'python dict %r written inside cut loop %s of %s' % (base, label, key))
                self.havoc_log.append('%s %s: python dict %s marked content-unknown' % (key, label, base))
        for st in list(ctx.stubs):
            h = getattr(st, 'havoc', None)
            if h is not None:
                h(ctx)
        if spec.havoc is not None:
            spec.havoc(ctx, Locals(f))

    def while_with_invariant(self, s: ast.While, f: Frame, spec: LoopSpec, label: str) -> None:
        ctx = self.ctx
        key = f.closure.key if f.closure else '?'
        L = Locals(f)
        ctx.check('%s#inv:%s:entry' % (key, label), spec.inv(L))
        mode = ctx.choose(2, 'loop:%s' % label)
        self.havoc_loop(s.body + [ast.Expr(s.test)], f, spec, label)
        ctx.assume(spec.inv(L))
        test = self.truth(self.eval(s.test, f), 'While:%s' % label)
        if mode == 0:
            if not test:
                ctx.cut()
            try:
                self.exec_block(s.body, f)
            except BreakSig:
                return  # leaves the loop: continue after it with this state
            except ContinueSig:
                pass
            ctx.check('%s#inv:%s:preserve' % (key, label), spec.inv(L))
            ctx.cut()
        else:
            if test:
                ctx.cut()
            self.exec_block(s.orelse, f)

    def x_For(self, s: Any, f: Frame) -> None:
        spec, label = self.loop_spec(f, s)
        it = self.eval(s.iter, f)
        if spec is not None and (isinstance(it, SSeq) or hasattr(it, '__pyvc_seq__')):
            self.for_with_invariant(s, f, spec, label, it)
            return
        broke = False
        n = 0
        for v in self.iterate(it):
            n += 1
            if n > self.max_unroll:
                raise Unreached('for loop %s exceeds the unroll bound' % label)
            self.assign(s.target, v, f)
            try:
                self.exec_block(s.body, f)
            except BreakSig:
                broke = True
                break
            except ContinueSig:
                continue
        if not broke:
            self.exec_block(s.orelse, f)

    x_AsyncFor = x_For

    def for_with_invariant(self, s: Any, f: Frame, spec: LoopSpec, label: str, it: Any) -> None:
        ctx = self.ctx
        key = f.closure.key if f.closure else '?'
        seq = it.__pyvc_seq__() if hasattr(it, '__pyvc_seq__') else it
        L = Locals(f)
        f.locals['_i_' + label.replace('#', '')] = f.locals['_i_loop'] = 0
        ctx.check('%s#inv:%s:entry' % (key, label), spec.inv(L))
        mode = ctx.choose(2, 'loop:%s' % label)
        i = ctx.fresh_int('i_' + label)
        n = seq.length()
        ctx.assume(And(i >= 0, i <= n))
        f.locals['_i_' + label.replace('#', '')] = f.locals['_i_loop'] = i
        self.havoc_loop(s.body, f, spec, label)
        ctx.assume(spec.inv(L))
        if mode == 0:
            ctx.assume(i < n)
            self.assign(s.target, seq[i], f)
            try:
                self.exec_block(s.body, f)
            except BreakSig:
                return
            except ContinueSig:
                pass
            f.locals['_i_' + label.replace('#', '')] = f.locals['_i_loop'] = i + 1
            ctx.check('%s#inv:%s:preserve' % (key, label), spec.inv(L))
            ctx.cut()
        else:
            ctx.assume(i == n)
            end_hook = getattr(it, '__pyvc_for_end__', None)
            if end_hook is not None:
                end_hook()  # stub iterables with side effects at exhaustion (e.g. a generator's code after its last yield)
            self.exec_block(s.orelse, f)

    def check_known(self, o: Any, what: str) -> None:
        """Refuse to read a python dict whose content became unknown at a loop cut."""
        t = self.tainted.get(id(o)) if self.tainted else None
        if t is not None and t[0] is o:
            raise Unreached('%s of a %s (content unknown after the cut; the loop contract must summarise it, or it must be a symbolic mapping)' % (what, t[1]))

    def iterate(self, it: Any) -> Any:
        self.check_known(it, 'iteration')
        if isinstance(it, GenResult):
            return list(it.items)
        if isinstance(it, (list, tuple, set, frozenset, dict, range, str, bytes)) or isinstance(it, (types.GeneratorType, map, zip, enumerate, reversed)):
            return it
        if hasattr(it, '__pyvc_iter__'):
            return it.__pyvc_iter__()
        if hasattr(it, '__pyvc_seq__'):
            # a sequence of symbolic length can only be traversed under a loop contract; python's fallback protocols (iter() via __getitem__)
            # would silently traverse something else (seen: an EMPTY traversal, hence a wrong verdict, when a loop lost its contract)
            raise Unreached('iteration over a symbolic-length sequence %r without a loop contract' % type(it).__name__)
        if isinstance(it, Sym):
            raise Unreached('iteration over symbolic %r without invariant' % (it,))
        if it is None or isinstance(it, (bool, int, float)):
            self.ctx.raise_py(TypeError, '%r object is not iterable' % type(it).__name__)  # as Python does (e.g. unpacking None)
        try:
            return iter(it)
        except TypeError:
            raise Unreached('iteration over %r' % (it,))

    # ------------------------------------------------------------------ assignment
    def assign(self, t: ast.expr, v: Any, f: Frame) -> None:
        if isinstance(t, ast.Name):
            self.store_name(t.id, v, f)
        elif isinstance(t, ast.Attribute):
            self.setattr(self.eval(t.value, f), t.attr, v)
        elif isinstance(t, ast.Subscript):
            self.setitem(self.eval(t.value, f), self.eval_slice(t.slice, f), v)
        elif isinstance(t, (ast.Tuple, ast.List)):
            vals = list(self.iterate(v))
            star = [i for i, e in enumerate(t.elts) if isinstance(e, ast.Starred)]
            if star:
                i = star[0]
                after = len(t.elts) - i - 1
                if len(vals) < len(t.elts) - 1:
                    self.ctx.raise_py(ValueError, 'not enough values to unpack')
                for e, x in zip(t.elts[:i], vals[:i]):
                    self.assign(e, x, f)
                self.assign(t.elts[i].value, list(vals[i : len(vals) - after]), f)  # type: ignore[attr-defined]
                for e, x in zip(t.elts[i + 1 :], vals[len(vals) - after :]):
                    self.assign(e, x, f)
                return
            if len(vals) != len(t.elts):
                self.ctx.raise_py(ValueError, 'wrong number of values to unpack')
            for e, x in zip(t.elts, vals):
                self.assign(e, x, f)
        else:
            raise Unreached('assignment target %s' % type(t).__name__)

    def store_name(self, name: str, v: Any, f: Frame) -> None:
        nl = f.locals.get('$nonlocal')
        if nl and name in nl:
            p = f.parent
            while p is not None:
                if name in p.locals:
                    p.locals[name] = v
                    return
                p = p.parent
        f.locals[name] = v

    def load_name(self, name: str, f: Frame) -> Any:
        try:
            return f.lookup(name)
        except KeyError:
            pass
        g = f.module.__dict__ if f.module is not None else {}
        if name in g:
            return g[name]
        if hasattr(builtins, name):
            return getattr(builtins, name)
        self.ctx.raise_py(NameError, 'name %r is not defined' % name)

    # ------------------------------------------------------------------ attributes / items
    def getattr(self, o: Any, name: str) -> Any:
        if isinstance(o, Obj):
            flds = o._fields
            if name in flds:
                return flds[name]
            cls = o._cls
            if isinstance(cls, type):
                if name == '__class__':
                    return cls
                r = self.class_attr(cls, name)
                if r is not None:
                    return self.bind(r, o, cls)
            if o._lazy is not None:
                v = o._lazy(name)
                if v is not NotImplemented:
                    flds[name] = v
                    return v
            self.ctx.raise_py(AttributeError, '%r object has no attribute %r' % (getattr(cls, '__name__', cls), name))
        if isinstance(o, SuperProxy):
            r = self.class_attr(o.obj._cls if isinstance(o.obj, Obj) else type(o.obj), name, after=o.after)
            if r is None:
                self.ctx.raise_py(AttributeError, 'super object has no attribute %r' % name)
            return self.bind(r, o.obj, o.after)
        if isinstance(o, ExcVal):
            if name in o.fields:
                return o.fields[name]
            if name == 'args':
                return o.args
            if name == '__class__':
                return o.cls
            if o.real is not None:
                try:
                    return getattr(o.real, name)
                except AttributeError:
                    self.ctx.raise_py(AttributeError, name)
            r = self.class_attr(o.cls, name)
            if r is not None:
                return self.bind(r, o, o.cls)
            self.ctx.raise_py(AttributeError, '%s has no attribute %r' % (o.cls.__name__, name))
        if isinstance(o, type) and self.is_repo_module(getattr(o, '__module__', '')):
            r = self.class_attr(o, name)
            if r is not None:
                kind, v = r
                if kind == 'classmethod':
                    return BoundMethod(v, o)
                if kind in ('function', 'static', 'value'):
                    return v
                if kind.startswith('property'):
                    return v
        try:
            return getattr(o, name)
        except AttributeError as e:
            raise PyRaise(ExcVal(AttributeError, e.args))

    def bind(self, r: Tuple[str, Any], o: Any, cls: Any) -> Any:
        kind, v = r
        if kind == 'function':
            return BoundMethod(v, o)
        if kind == 'property':
            return self.call(v, [o], {})
        if kind == 'property-native':
            if v.fget is None:
                self.ctx.raise_py(AttributeError, 'unreadable attribute')
            c = self.closure_of_real(v.fget) or self.nested_prop_closure(v.fget)
            if c is not None:
                return self.call(c, [o], {})
            raise Unreached('native property on interpreted object')
        if kind == 'static':
            return v
        if kind == 'classmethod':
            return BoundMethod(v, cls)
        return v

    def setattr(self, o: Any, name: str, v: Any) -> None:
        if isinstance(o, Obj):
            cls = o._cls
            if isinstance(cls, type) and name not in o._fields:
                raw = None
                for k in cls.__mro__:
                    if name in k.__dict__:
                        raw = k.__dict__[name]
                        break
                if isinstance(raw, property):
                    if raw.fset is None:
                        self.ctx.raise_py(AttributeError, "can't set attribute %r" % name)
                    c = self.closure_of_real(raw.fset, 'setter')
                    if c is None:
                        c = self.nested_prop_closure(raw.fset)
                    if c is None:
                        raise Unreached('property setter %s.%s has no source' % (cls.__name__, name))
                    self.call(c, [o, v], {})
                    return
            o._fields[name] = v
            return
        if isinstance(o, ExcVal):
            o.fields[name] = v
            return
        if isinstance(o, Sym) or isinstance(o, (int, str, bytes, tuple, type(None))):
            self.ctx.raise_py(AttributeError, 'cannot set attribute %r' % name)
        setattr(o, name, v)

    def nested_prop_closure(self, fn: Any) -> Optional[Closure]:
        if self.registry is not None:
            return self.registry.closure_for_nested(self, fn)
        return None

    def delattr(self, o: Any, name: str) -> None:
        if isinstance(o, Obj):
            cls = o._cls
            if isinstance(cls, type):
                raw = None
                for k in cls.__mro__:
                    if name in k.__dict__:
                        raw = k.__dict__[name]
                        break
                if isinstance(raw, property) and raw.fdel is not None:
                    c = self.closure_of_real(raw.fdel, 'deleter') or self.nested_prop_closure(raw.fdel)
                    if c is None:
                        raise Unreached('property deleter without source')
                    self.call(c, [o], {})
                    return
            if name not in o._fields:
                self.ctx.raise_py(AttributeError, name)
            del o._fields[name]
            return
        delattr(o, name)

    def getitem(self, o: Any, k: Any) -> Any:
        self.check_known(o, 'item read')
        if hasattr(o, '__pyvc_getitem__'):
            return o.__pyvc_getitem__(k)
        if isinstance(o, Sym):
            return o[k]
        if isinstance(o, (str, bytes)) and (is_sym(k) or (isinstance(k, slice) and not deep_concrete((k.start, k.stop)))):
            return SStr(core._s(o), 'str' if isinstance(o, str) else 'bytes')[k]
        if isinstance(o, (list, tuple)) and is_sym(k):
            # symbolic index into a concrete sequence: fork over positions
            n = len(o)
            for i in range(n):
                if self.truth(k == i) or self.truth(k == i - n):
                    return o[i]
            self.ctx.raise_py(IndexError, 'index out of range')
        if isinstance(o, dict) and is_sym(k):
            for kk in o:
                if type(kk) is type(k) or isinstance(kk, (str, bytes, int)):
                    eq = k == kk
                    if eq is not False and self.truth(eq):
                        return o[kk]
            self.ctx.raise_py(KeyError, k)
        if isinstance(o, Obj):
            m = self.getattr(o, '__getitem__')
            return self.call(m, [k], {})
        try:
            return o[k]
        except PathCut:
            raise
        except PyRaise:
            raise
        except Exception as e:
            raise PyRaise(ExcVal(type(e), e.args, real=e))

    def setitem(self, o: Any, k: Any, v: Any) -> None:
        if hasattr(o, '__pyvc_setitem__'):
            o.__pyvc_setitem__(k, v)
            return
        if isinstance(o, Obj):
            m = self.getattr(o, '__setitem__')
            self.call(m, [k, v], {})
            return
        if isinstance(o, dict) and is_sym(k):
            for kk in list(o):
                eq = k == kk
                if eq is not False and self.truth(eq):
                    o[kk] = v
                    return
            # the path condition now says k differs from every existing key: a new entry
            # (symbolic keys hash by identity, lookups go through the comparisons above / in getitem / contains)
            o[k] = v
            return
        try:
            o[k] = v
        except PyRaise:
            raise  # raised into the subject by a stub's __setitem__
        except Exception as e:
            raise PyRaise(ExcVal(type(e), e.args, real=e))

    def delitem(self, o: Any, k: Any) -> None:
        if hasattr(o, '__pyvc_delitem__'):
            o.__pyvc_delitem__(k)
            return
        if isinstance(o, Obj):
            m = self.getattr(o, '__delitem__')
            self.call(m, [k], {})
            return
        try:
            del o[k]
        except Exception as e:
            raise PyRaise(ExcVal(type(e), e.args, real=e))

    # ------------------------------------------------------------------ expressions
    def truth(self, v: Any, label: str = 'br') -> bool:
        if self.tainted:
            self.check_known(v, 'truth test')
        if isinstance(v, SBool):
            return self.ctx.branch(v.t, label)
        if isinstance(v, SInt):
            return self.ctx.branch(v.t != 0, label)
        if isinstance(v, (SStr, SSeq)):
            return self.ctx.branch(z3.Length(v.t) > 0, label)
        if isinstance(v, (Obj, ExcVal, Closure, BoundMethod)):
            if isinstance(v, Obj) and isinstance(v._cls, type):
                for nm in ('__bool__', '__len__'):
                    r = self.class_attr(v._cls, nm)
                    if r is not None and r[0] == 'function' and isinstance(r[1], Closure):
                        res = self.call(r[1], [v], {})
                        return self.truth(res if nm == '__bool__' else (res != 0), label)
            return True
        if hasattr(v, '__pyvc_truth__'):
            return self.truth(v.__pyvc_truth__(), label)
        if getattr(v, '__pyvc_symbolic__', False) and not isinstance(v, type):
            # a contract-side stub standing for a program value: python's default "every object is true" would silently
            # decide `if x:` / `not x` in the subject.  The stub must say what its truth value is.
            t = type(v)
            if '__bool__' not in t.__dict__ and '__len__' not in t.__dict__ and not any('__bool__' in k.__dict__ or '__len__' in k.__dict__ for k in t.__mro__[1:-1]):
                raise Unreached('truth value of stub %s is tested by the subject but the stub defines no __pyvc_truth__' % t.__name__)
        return bool(v)

    def eval(self, e: ast.expr, f: Frame) -> Any:
        m = getattr(self, 'e_' + type(e).__name__, None)
        if m is None:
            raise Unreached('expression %s at line %d' % (type(e).__name__, getattr(e, 'lineno', 0)))
        return m(e, f)

    def e_Constant(self, e: ast.Constant, f: Frame) -> Any:
        return e.value

    def e_Name(self, e: ast.Name, f: Frame) -> Any:
        return self.load_name(e.id, f)

    def e_Attribute(self, e: ast.Attribute, f: Frame) -> Any:
        return self.getattr(self.eval(e.value, f), e.attr)

    def e_Tuple(self, e: ast.Tuple, f: Frame) -> Any:
        return tuple(self.eval_elts(e.elts, f))

    def e_List(self, e: ast.List, f: Frame) -> Any:
        return list(self.eval_elts(e.elts, f))

    def e_Set(self, e: ast.Set, f: Frame) -> Any:
        return set(self.eval_elts(e.elts, f))

    def eval_elts(self, elts: List[ast.expr], f: Frame) -> List[Any]:
        out: List[Any] = []
        for x in elts:
            if isinstance(x, ast.Starred):
                out.extend(self.iterate(self.eval(x.value, f)))
            else:
                out.append(self.eval(x, f))
        return out

    def e_Dict(self, e: ast.Dict, f: Frame) -> Any:
        d: Dict[Any, Any] = {}
        for k, v in zip(e.keys, e.values):
            if k is None:
                src = self.eval(v, f)
                if hasattr(src, '__pyvc_items__'):
                    src = dict(src.__pyvc_items__())
                d.update(src)
            else:
                d[self.eval(k, f)] = self.eval(v, f)
        return d

    def e_JoinedStr(self, e: ast.JoinedStr, f: Frame) -> Any:
        out: Any = ''
        for v in e.values:
            if isinstance(v, ast.Constant):
                out = self.binop(ast.Add(), out, v.value)
            else:
                assert isinstance(v, ast.FormattedValue)
                x = self.eval(v.value, f)
                if v.format_spec is not None or v.conversion not in (-1, 115):
                    if deep_concrete(x):
                        spec = self.eval(v.format_spec, f) if v.format_spec is not None else ''
                        conv = {-1: '', 115: '!s', 114: '!r', 97: '!a'}[v.conversion]
                        x = ('{' + conv + ':' + spec + '}').format(x) if spec or conv else format(x)
                    else:
                        raise Unreached('format spec on symbolic value')
                out = self.binop(ast.Add(), out, self.to_str(x))
        return out

    def to_str(self, x: Any) -> Any:
        if isinstance(x, SStr) and x.kind == 'str':
            return x
        if isinstance(x, SInt):
            t = x.t
            return core.mk_str(z3.If(t >= 0, z3.IntToStr(t), z3.Concat(z3.StringVal('-'), z3.IntToStr(-t))), 'str')
        if isinstance(x, SBool):
            return core.mk_str(z3.If(x.t, z3.StringVal('True'), z3.StringVal('False')), 'str')
        if deep_concrete(x):
            return str(x)
        if hasattr(x, '__pyvc_str__'):
            return x.__pyvc_str__(self)
        if isinstance(x, Obj) and isinstance(x._cls, type):
            r = self.class_attr(x._cls, '__str__')
            if r is not None and isinstance(r[1], Closure):
                return self.call(r[1], [x], {})
        if isinstance(x, ExcVal):
            # str(exception): the real object's text; BaseException.__str__ otherwise ('' / str(args[0]))
            if x.real is not None:
                return str(x.real)
            if isinstance(x.cls, type) and x.cls.__str__ is BaseException.__str__ and not x.kwargs and len(x.args) <= 1:
                return self.to_str(x.args[0]) if x.args else ''
        raise Unreached('str() of %r' % (x,))

    def e_BoolOp(self, e: ast.BoolOp, f: Frame) -> Any:
        is_and = isinstance(e.op, ast.And)
        label = f.br_labels.get(id(e), 'BoolOp')
        v: Any = None
        for i, sub in enumerate(e.values):
            v = self.eval(sub, f)
            if i == len(e.values) - 1:
                return v
            t = self.truth(v, '%s.%d' % (label, i))
            if is_and and not t:
                return v
            if not is_and and t:
                return v
        return v

    def e_UnaryOp(self, e: ast.UnaryOp, f: Frame) -> Any:
        v = self.eval(e.operand, f)
        if isinstance(e.op, ast.Not):
            if isinstance(v, (SBool, SInt, SStr, SSeq)):
                return Not(v)
            return not self.truth(v, f.br_labels.get(id(e), 'Not'))
        if isinstance(e.op, ast.USub):
            return -v
        if isinstance(e.op, ast.UAdd):
            return +v
        if isinstance(e.op, ast.Invert):
            if is_sym(v):
                return -v - 1
            return ~v
        raise Unreached('unary op')

    def e_BinOp(self, e: ast.BinOp, f: Frame) -> Any:
        return self.binop(e.op, self.eval(e.left, f), self.eval(e.right, f))

    def binop(self, op: ast.operator, a: Any, b: Any, inplace: bool = False) -> Any:
        try:
            if isinstance(op, ast.Add):
                if inplace and isinstance(a, list):
                    a.extend(self.iterate(b))
                    return a
                if hasattr(a, '__pyvc_add__'):
                    return a.__pyvc_add__(b)
                if hasattr(b, '__pyvc_radd__'):
                    return b.__pyvc_radd__(a)
                return a + b
            if isinstance(op, ast.Sub):
                return a - b
            if isinstance(op, ast.Mult):
                return a * b
            if isinstance(op, ast.FloorDiv):
                return a // b
            if isinstance(op, ast.Mod):
                if isinstance(a, (str, bytes)) and not deep_concrete(b):
                    return self.percent_format(a, b)
                return a % b
            if isinstance(op, ast.Div):
                if is_sym(a) or is_sym(b):
                    raise Unreached('true division on symbolic ints')
                return a / b
            if isinstance(op, ast.Pow):
                if is_sym(a) or is_sym(b):
                    raise Unreached('** on symbolic values')
                return a**b
            if isinstance(op, ast.BitOr):
                if inplace and isinstance(a, (set, dict)):
                    a |= b
                    return a
                return a | b
            if isinstance(op, ast.BitAnd):
                return a & b
            if isinstance(op, ast.BitXor):
                return a ^ b
            if isinstance(op, ast.LShift):
                return a << b
            if isinstance(op, ast.RShift):
                return a >> b
        except (PyRaise, PathCut, Unreached):
            raise
        except TypeError as ex:
            if is_sym(a) or is_sym(b) or isinstance(a, (Obj, ExcVal)) or isinstance(b, (Obj, ExcVal)):
                # may be a genuine TypeError of the subject (e.g. None + int)
                if a is None or b is None:
                    raise PyRaise(ExcVal(TypeError, ex.args))
                raise Unreached('binary op %s on %r, %r: %s' % (type(op).__name__, a, b, ex))
            raise PyRaise(ExcVal(TypeError, ex.args))
        except Exception as ex:
            raise PyRaise(ExcVal(type(ex), ex.args, real=ex))
        raise Unreached('binary operator %s' % type(op).__name__)

    def percent_format(self, fmt: Any, arg: Any) -> Any:
        args = list(arg) if isinstance(arg, tuple) else [arg]
        import re

        parts = re.split(r'(%[sdr])', fmt if isinstance(fmt, str) else fmt.decode('latin-1'))
        out: Any = ''
        for p in parts:
            if p in ('%s', '%d'):
                out = self.binop(ast.Add(), out, self.to_str(args.pop(0)))
            elif p == '%r':
                a = args.pop(0)  # repr of a symbolic value only ever feeds messages: an arbitrary str
                out = self.binop(ast.Add(), out, repr(a) if deep_concrete(a) else self.ctx.fresh_str('repr'))
            else:
                if '%' in p.replace('%%', ''):
                    raise Unreached('%%-format %r with symbolic arguments' % (fmt,))
                out = self.binop(ast.Add(), out, p.replace('%%', '%'))
        return out

    def e_Compare(self, e: ast.Compare, f: Frame) -> Any:
        left = self.eval(e.left, f)
        result: Any = True
        label = f.br_labels.get(id(e), 'Compare')
        for i, (op, rnode) in enumerate(zip(e.ops, e.comparators)):
            right = self.eval(rnode, f)
            r = self.compare(op, left, right)
            if i == len(e.ops) - 1:
                if result is True:
                    return r
                return And(result, r)
            # chained: short-circuit
            if isinstance(r, bool):
                if not r:
                    return False
            else:
                result = And(result, r)
            left = right
        return result

    def compare(self, op: ast.cmpop, a: Any, b: Any) -> Any:
        if isinstance(op, ast.Is):
            return self.is_(a, b)
        if isinstance(op, ast.IsNot):
            return Not(self.is_(a, b))
        if isinstance(op, ast.In):
            return self.contains(b, a)
        if isinstance(op, ast.NotIn):
            return Not(self.contains(b, a))
        try:
            if isinstance(op, ast.Eq):
                return self.equals(a, b)
            if isinstance(op, ast.NotEq):
                return Not(self.equals(a, b))
            if isinstance(a, (str, bytes)) and isinstance(b, SStr):
                a = SStr(core._s(a), b.kind) if core._kind(a) == b.kind else a
            if isinstance(op, ast.Lt):
                return a < b
            if isinstance(op, ast.LtE):
                return a <= b
            if isinstance(op, ast.Gt):
                return a > b
            if isinstance(op, ast.GtE):
                return a >= b
        except (PyRaise, PathCut, Unreached):
            raise
        except TypeError as ex:
            if (is_sym(a) or is_sym(b) or isinstance(a, (Obj, ExcVal)) or isinstance(b, (Obj, ExcVal))) and a is not None and b is not None:
                # an operation the encoding does not support is not a TypeError of the subject
                raise Unreached('ordering comparison %s on %r, %r: %s' % (type(op).__name__, a, b, ex))
            raise PyRaise(ExcVal(TypeError, ex.args))
        raise Unreached('comparison %s' % type(op).__name__)

    def equals(self, a: Any, b: Any) -> Any:
        if isinstance(a, Sym):
            return a == b
        if isinstance(b, Sym):
            return b == a
        if hasattr(a, '__pyvc_eq__'):
            return a.__pyvc_eq__(b)
        if hasattr(b, '__pyvc_eq__'):
            return b.__pyvc_eq__(a)
        if isinstance(a, (tuple, list)) and isinstance(b, (tuple, list)) and type(a) is type(b) and not (deep_concrete(a) and deep_concrete(b)):
            if len(a) != len(b):
                return False
            return And(*[self.equals(x, y) for x, y in zip(a, b)])
        if isinstance(a, (Obj, ExcVal, Closure)) or isinstance(b, (Obj, ExcVal, Closure)):
            if isinstance(a, Obj) and isinstance(a._cls, type):
                r = self.class_attr(a._cls, '__eq__')
                if r is not None and isinstance(r[1], Closure):
                    return self.call(r[1], [a, b], {})
            return a is b
        return a == b

    def is_(self, a: Any, b: Any) -> Any:
        if a is None or b is None:
            other = b if a is None else a
            if hasattr(other, '__pyvc_is_none__'):
                return other.__pyvc_is_none__()
            return other is None
        if isinstance(a, (SBool, bool)) and isinstance(b, (SBool, bool)):
            return self.equals(a, b)
        if isinstance(a, Sym) or isinstance(b, Sym):
            if isinstance(a, (bool, type(None))) or isinstance(b, (bool, type(None))):
                return False  # a symbolic int/str is never the singleton True/False/None
            other = b if isinstance(a, Sym) else a
            if not isinstance(other, (Sym, str, bytes, bytearray, int, float)):
                return False  # a symbolic int/str/bytes denotes a value of that type: never identical to an object of another type (sentinels)
            raise Unreached('identity comparison on symbolic values')
        if isinstance(a, BoundMethod) and isinstance(b, BoundMethod):
            return a == b
        return a is b

    def contains(self, container: Any, item: Any) -> Any:
        self.check_known(container, 'membership test')
        if hasattr(container, '__pyvc_contains__'):
            return container.__pyvc_contains__(item)
        if isinstance(container, range) and isinstance(item, SInt):
            # x in range(a, b, step)  <=>  a <= x < b (or b < x <= a) and (x - a) % step == 0
            a, b, st = container.start, container.stop, container.step
            inside = And(item >= a, item < b) if st > 0 else And(item <= a, item > b)
            return inside if abs(st) == 1 else And(inside, core.mk_bool((item.t - a) % abs(st) == 0))
        if isinstance(container, SStr):
            return container.contains(item)
        if isinstance(container, (str, bytes)) and isinstance(item, SStr):
            return SStr(core._s(container), item.kind).contains(item)
        if isinstance(container, (list, tuple, set, frozenset, dict)) and not (deep_concrete(item) and deep_concrete(list(container))):
            return Or(*[self.equals(item, x) for x in container])
        if isinstance(container, Obj):
            m = self.getattr(container, '__contains__')
            return self.call(m, [item], {})
        if isinstance(container, SSeq):
            return core.mk_bool(z3.Contains(container.t, z3.Unit(container.unwrap(item))))
        try:
            return item in container
        except TypeError as ex:
            raise PyRaise(ExcVal(TypeError, ex.args))

    def e_IfExp(self, e: ast.IfExp, f: Frame) -> Any:
        if self.truth(self.eval(e.test, f), f.br_labels.get(id(e), 'IfExp')):
            return self.eval(e.body, f)
        return self.eval(e.orelse, f)

    def e_Subscript(self, e: ast.Subscript, f: Frame) -> Any:
        o = self.eval(e.value, f)
        k = self.eval_slice(e.slice, f)
        return self.getitem(o, k)

    def eval_slice(self, s: Any, f: Frame) -> Any:
        if isinstance(s, ast.Slice):
            return slice(
                self.eval(s.lower, f) if s.lower is not None else None,
                self.eval(s.upper, f) if s.upper is not None else None,
                self.eval(s.step, f) if s.step is not None else None,
            )
        return self.eval(s, f)

    def e_Slice(self, e: ast.Slice, f: Frame) -> Any:
        return self.eval_slice(e, f)

    def e_Lambda(self, e: ast.Lambda, f: Frame) -> Any:
        qn = (f.closure.qualname + '.<locals>.' if f.closure else '') + '<lambda>'
        return Closure(e, f.module, qn, f, None, f.closure.modname if f.closure else '')

    def e_Await(self, e: ast.Await, f: Frame) -> Any:
        v = self.eval(e.value, f)
        if hasattr(v, '__pyvc_await__'):
            return v.__pyvc_await__(self)
        return v

    def e_Yield(self, e: ast.Yield, f: Frame) -> Any:
        v = self.eval(e.value, f) if e.value is not None else None
        f.lookup('$yields').append(v)
        if self.registry is not None:
            self.registry.on_yield(self, f, v)
        return None

    def e_YieldFrom(self, e: ast.YieldFrom, f: Frame) -> Any:
        v = self.eval(e.value, f)
        items = list(self.iterate(v))
        f.lookup('$yields').extend(items)
        return v.retval if isinstance(v, GenResult) else None

    def e_NamedExpr(self, e: ast.NamedExpr, f: Frame) -> Any:
        v = self.eval(e.value, f)
        self.assign(e.target, v, f)
        return v

    def e_Starred(self, e: ast.Starred, f: Frame) -> Any:
        raise Unreached('starred expression outside call/display')

    def comp_iter(self, gens: List[ast.comprehension], f: Frame, emit: Callable[[Frame], None]) -> None:
        def rec(i: int, fr: Frame) -> None:
            if i == len(gens):
                emit(fr)
                return
            g = gens[i]
            for v in self.iterate(self.eval(g.iter, fr)):
                self.assign(g.target, v, fr)
                if all(self.truth(self.eval(c, fr)) for c in g.ifs):
                    rec(i + 1, fr)

        inner = Frame(f.closure, f.module, f)
        inner.br_labels = f.br_labels
        rec(0, inner)

    def e_ListComp(self, e: ast.ListComp, f: Frame) -> Any:
        out: List[Any] = []
        self.comp_iter(e.generators, f, lambda fr: out.append(self.eval(e.elt, fr)))
        return out

    def e_GeneratorExp(self, e: ast.GeneratorExp, f: Frame) -> Any:
        out: List[Any] = []
        self.comp_iter(e.generators, f, lambda fr: out.append(self.eval(e.elt, fr)))
        return out

    def e_SetComp(self, e: ast.SetComp, f: Frame) -> Any:
        out: List[Any] = []
        self.comp_iter(e.generators, f, lambda fr: out.append(self.eval(e.elt, fr)))
        return set(out)

    def e_DictComp(self, e: ast.DictComp, f: Frame) -> Any:
        out: Dict[Any, Any] = {}

        def emit(fr: Frame) -> None:
            out[self.eval(e.key, fr)] = self.eval(e.value, fr)

        self.comp_iter(e.generators, f, emit)
        return out

    def e_Call(self, e: ast.Call, f: Frame) -> Any:
        # super() needs the frame
        if isinstance(e.func, ast.Name) and e.func.id == 'super' and not e.args:
            c = f.closure
            while c is not None and c.defcls is None and c.parent is not None:
                c = c.parent.closure
            if c is None or c.defcls is None:
                raise Unreached('super() outside a method')
            fr: Optional[Frame] = f
            selfname = None
            while fr is not None:
                if fr.closure is c:
                    selfname = c.node.args.args[0].arg
                    return SuperProxy(fr.locals[selfname], c.defcls)
                fr = fr.parent
            raise Unreached('super(): self not found')
        fn = self.eval(e.func, f)
        args: List[Any] = []
        for a in e.args:
            if isinstance(a, ast.Starred):
                args.extend(self.iterate(self.eval(a.value, f)))
            else:
                args.append(self.eval(a, f))
        kwargs: Dict[str, Any] = {}
        for k in e.keywords:
            if k.arg is None:
                d = self.eval(k.value, f)
                if hasattr(d, '__pyvc_items__'):
                    d = dict(d.__pyvc_items__())
                kwargs.update(d)
            else:
                kwargs[k.arg] = self.eval(k.value, f)
        return self.call(fn, args, kwargs, e)


class GenResult:
    """Eager result of a generator function: everything it yielded, in order."""

    def __init__(self, items: List[Any], retval: Any) -> None:
        self.items = items
        self.retval = retval

    def __pyvc_iter__(self) -> List[Any]:
        if isinstance(self.items, core.SList):
            return self.items.__pyvc_iter__()
        return list(self.items)


_LIST_NATIVE = {'append', 'extend', 'insert', 'pop', 'clear', 'reverse', 'copy'}
_DICT_NATIVE = {'get', 'setdefault', 'pop', 'items', 'keys', 'values', 'update', 'copy', 'clear'}
_LIST_MUTATORS = {'append', 'extend', 'insert', 'pop', 'clear', 'remove', 'sort', 'reverse'}


def mutated_lists(body: List[ast.stmt]) -> set:
    out: set = set()
    mod = ast.Module(body=list(body), type_ignores=[])
    for n in _walk_no_nested(mod):
        if isinstance(n, ast.Call) and isinstance(n.func, ast.Attribute) and n.func.attr in _LIST_MUTATORS and isinstance(n.func.value, ast.Name):
            out.add(n.func.value.id)
    return out


_DICT_MUTATORS = ('pop', 'popitem', 'update', 'setdefault', 'clear')


def subscript_mutated_in(body: List[ast.stmt]) -> set:
    """Source text of every expression X such that the body contains `X[k] = v`, `X[k] op= v`, `del X[k]` or `X.<dict mutator>(...)`."""
    out: set = set()

    def sub(t: ast.expr) -> None:
        if isinstance(t, ast.Subscript):
            try:
                out.add(ast.unparse(t.value))
            except Exception:
                pass
        elif isinstance(t, (ast.Tuple, ast.List)):
            for e in t.elts:
                sub(e)

    mod = ast.Module(body=list(body), type_ignores=[])
    for n in _walk_no_nested(mod):
        if isinstance(n, ast.Assign):
            for t in n.targets:
                sub(t)
        elif isinstance(n, (ast.AugAssign, ast.AnnAssign)):
            sub(n.target)
        elif isinstance(n, ast.Delete):
            for t in n.targets:
                sub(t)
        elif isinstance(n, ast.Call) and isinstance(n.func, ast.Attribute) and n.func.attr in _DICT_MUTATORS:
            try:
                out.add(ast.unparse(n.func.value))
            except Exception:
                pass
    return out


def _is_proxy_method(fn: Any) -> bool:
    s = getattr(fn, '__self__', None)
    return s is not None and (isinstance(s, Sym) or getattr(s, '__pyvc_stub__', False))


def _infer_kind(items: List[Any]) -> Optional[str]:
    for x in items:
        k = core._kind(x)
        if k:
            return k
        if isinstance(x, (int, SInt)) and not isinstance(x, bool):
            return 'int'
    return None


def _havocable(v: Any) -> bool:
    return isinstance(v, (Sym, int, str, bytes)) and not isinstance(v, type) or hasattr(v, '__pyvc_havoc__')


def _is_type_checking(t: ast.expr) -> bool:
    return (isinstance(t, ast.Name) and t.id == 'TYPE_CHECKING') or (isinstance(t, ast.Attribute) and t.attr == 'TYPE_CHECKING')


def _class_body_defs(cd: ast.ClassDef) -> List[ast.AST]:
    out: List[ast.AST] = []
    stack = list(cd.body)
    while stack:
        n = stack.pop(0)
        if isinstance(n, (ast.FunctionDef, ast.AsyncFunctionDef)):
            out.append(n)
        elif isinstance(n, ast.If):
            if _is_type_checking(n.test):
                stack = list(n.orelse) + stack
            else:
                stack = list(n.body) + list(n.orelse) + stack
    return out


def assigned_in(body: List[ast.stmt]) -> Tuple[set, set]:
    """Names and (base-expression, attribute) pairs stored to inside `body` (not in nested defs)."""
    names: set = set()
    attrs: set = set()

    def target(t: ast.expr) -> None:
        if isinstance(t, ast.Name):
            names.add(t.id)
        elif isinstance(t, ast.Attribute):
            try:
                attrs.add((ast.unparse(t.value), t.attr))
            except Exception:
                pass
        elif isinstance(t, (ast.Tuple, ast.List)):
            for e in t.elts:
                target(e)
        elif isinstance(t, ast.Starred):
            target(t.value)
        elif isinstance(t, ast.Subscript):
            pass

    mod = ast.Module(body=list(body), type_ignores=[])
    for n in _walk_no_nested(mod):
        if isinstance(n, ast.Assign):
            for t in n.targets:
                target(t)
        elif isinstance(n, (ast.AugAssign, ast.AnnAssign)):
            target(n.target)
        elif isinstance(n, (ast.For, ast.AsyncFor)):
            target(n.target)
        elif isinstance(n, (ast.With, ast.AsyncWith)):
            for it in n.items:
                if it.optional_vars is not None:
                    target(it.optional_vars)
        elif isinstance(n, ast.NamedExpr):
            target(n.target)
        elif isinstance(n, ast.ExceptHandler) and n.name:
            names.add(n.name)
    return names, attrs
