"""./check <property-id> [--tier quick|thorough] [--replay file]

Exit codes: 0 held (known findings listed) / 1 violation / 2 undecided / 3 checker
problem (crash, zero obligations, unreached subject, vacuity).  See DESIGN.md 3.
"""
from __future__ import annotations

import argparse
import hashlib
import importlib
import json
import multiprocessing as mp
import os
import sys
import time
import traceback
from typing import Any, Dict, List, Optional, Tuple

VERIF = os.path.dirname(os.path.dirname(os.path.abspath(__file__)))
if VERIF not in sys.path:
    sys.path.insert(0, VERIF)

from pyvc import extract, harness as H, models, overlay, solvers  # noqa: E402

_STATE: Dict[str, Any] = {}


def _load(prop: str, ov: str) -> List[Any]:
    from contracts import index as cindex

    entry = cindex.PROPS[prop]
    mods = []
    for m in entry['modules']:
        mods.append(importlib.import_module(m))
    return mods


def _worker(args: Tuple[int, int, int]) -> Dict[str, Any]:
    i, check_ms, branch_ms = args
    hdef, make_reg = _STATE['harnesses'][i]
    idx = extract.SourceIndex(_STATE['overlay'])
    try:
        r = H.run_harness(hdef, idx, make_reg, check_timeout_ms=check_ms, branch_timeout_ms=branch_ms)
    except BaseException:
        return {'i': i, 'error': 'crash: ' + traceback.format_exc(), 'error_kind': 'crash', 'obligations': [], 'paths': 0, 'cut': 0, 'seconds': 0.0,
                'functions': {}, 'stubs': [], 'inlined': [], 'havoc': [], 'covers': {}, 'models': [], 'uncovered': {}, 'stmt_total': {}}
    obs = []
    for ob in r.obligations:
        obs.append({
            'name': ob.name, 'path': ob.path, 'status': ob.status, 'backend': ob.backend, 'seconds': ob.seconds,
            'model': ob.model, 'smt2': ob.smt2, 'labels': ob.meta.get('labels', []), 'choices': ob.meta.get('choices', []),
            'harness': i,
        })
    return {'i': i, 'error': r.error, 'error_kind': r.error_kind, 'obligations': obs, 'paths': r.paths, 'cut': r.cut_paths,
            'seconds': r.seconds, 'functions': r.functions, 'stubs': r.stubs_used, 'inlined': r.inlined, 'havoc': r.havoc,
            'covers': r.covers, 'models': r.models_used, 'uncovered': r.uncovered, 'stmt_total': getattr(r, 'stmt_total', {})}


def _solve_worker(args: Tuple[int, str, float]) -> Tuple[int, str, str, float, str]:
    k, smt2, timeout = args
    st, be, secs, raw = solvers.solve(smt2, timeout)
    return k, st, be, secs, raw


def run_kills(prop: str, mods: List[Any], tier: str) -> List[Dict[str, Any]]:
    """Kill matrix: apply each catalogued breaking edit to a scratch copy; the check must name the expected obligation."""
    import shutil
    import subprocess
    import tempfile

    kills: List[Tuple[str, str, str, str]] = []
    harmless: List[Tuple[str, str, str]] = []
    for m in mods:
        if getattr(m, 'PROP', prop) != prop:
            continue  # a module loaded for the harnesses it contributes to this property (dependency): its kill matrix belongs to its own check
        kills.extend(getattr(m, 'KILLS', []))
        harmless.extend(getattr(m, 'HARMLESS', []))
    if tier != 'thorough':
        kills = kills[: int(os.environ.get('VERIF_QUICK_KILLS', '1'))]
        harmless = harmless[:0]
    out: List[Dict[str, Any]] = []
    jobs = [('kill',) + tuple(k) for k in kills] + [('harmless',) + tuple(h) + ('',) for h in harmless]
    def one(job: Tuple[str, str, str, str, str]) -> Dict[str, Any]:
        kind, relpath, old, new, expect = job
        base = os.environ.get('TMPDIR') or '/var/tmp'
        d = tempfile.mkdtemp(prefix='verif.kill.', dir=base)
        rec: Dict[str, Any] = {'kind': kind, 'file': relpath, 'old': old[:120], 'new': new[:120], 'expect': expect}
        try:
            subprocess.run(['rsync', '-a', '--exclude=*.so', '--exclude=*.c', '--exclude=__pycache__', os.path.join(overlay.REPO, 'falcon'), d + '/'], check=True)
            fp = os.path.join(d, relpath)
            with open(fp, encoding='utf-8') as f:
                src = f.read()
            if src.count(old) != 1:
                rec['result'] = 'not-applicable'
                rec['detail'] = 'anchor text occurs %d times in the current source' % src.count(old)
                return rec
            with open(fp, 'w', encoding='utf-8') as f:
                f.write(src.replace(old, new))
            env = dict(os.environ, PYVC_REPO=d, PYVC_EVIDENCE_DIR=os.path.join(d, 'ev'), PYVC_REPLAY_DIR=os.path.join(d, 'rp'), PYVC_NO_KILLS='1', PYVC_NO_DEPS='1')
            p = subprocess.run([sys.executable, '-B', '-m', 'pyvc.cli', prop, '--tier', 'quick'], cwd=VERIF, env=env, capture_output=True, text=True, timeout=1800)
            viol = []
            for ln in p.stdout.splitlines():
                if ln.startswith('VIOLATION'):
                    rp = ln.split('replay=')[1].split()[0]
                    try:
                        with open(rp) as f:
                            viol.append(json.load(f).get('obligation', ''))
                    except Exception:
                        viol.append(ln)
            rec['exit'] = p.returncode
            rec['violated'] = sorted(set(viol))[:8]
            if kind == 'kill':
                rec['result'] = 'killed' if p.returncode == 1 and any(expect in o for o in viol) else ('killed-other-obligation' if p.returncode == 1 else 'SURVIVED')
            else:
                rec['result'] = 'green' if p.returncode == 0 else 'FALSE-ALARM'
            if rec['result'] in ('SURVIVED', 'FALSE-ALARM'):
                rec['detail'] = p.stdout[-1500:]
        except Exception:
            rec['result'] = 'error'
            rec['detail'] = traceback.format_exc()[-1500:]
        finally:
            shutil.rmtree(d, ignore_errors=True)
        return rec

    from concurrent.futures import ThreadPoolExecutor

    with ThreadPoolExecutor(max_workers=int(os.environ.get('VERIF_KILL_JOBS', '3'))) as tp:
        out = list(tp.map(one, jobs))
    return out


def load_known() -> Dict[str, Any]:
    p = os.path.join(VERIF, 'known_findings.json')
    if not os.path.exists(p):
        return {'findings': [], 'fixed': []}
    with open(p) as f:
        return json.load(f)


def match_known(known: Dict[str, Any], prop: str, ob: Dict[str, Any]) -> Optional[Dict[str, Any]]:
    for k in known.get('findings', []):
        if k.get('property') != prop or k.get('obligation') != ob['name']:
            continue
        need = k.get('path_labels', [])
        if all(any(lbl == n or lbl.startswith(n) for lbl in ob['labels']) for n in need):
            return k
    return None


def write_replay(prop: str, ob: Dict[str, Any], hdef: Any, concrete: Tuple[str, List[Tuple[str, bool]], str], reproduced: bool, solver_out: str) -> str:
    d = os.environ.get('PYVC_REPLAY_DIR') or os.path.join(VERIF, 'replays')
    os.makedirs(d, exist_ok=True)
    tag = hashlib.sha1((ob['name'] + ob['path']).encode()).hexdigest()[:8]
    safe = ob['name'].replace(':', '.').replace('#', '-').replace('/', '_')
    p = os.path.join(d, '%s-%s-%s.json' % (prop, safe[-80:], tag))
    with open(p, 'w') as f:
        json.dump({
            'property': prop,
            'obligation': ob['name'],
            'harness': hdef.id,
            'harness_module': hdef.fn.__module__,
            'harness_name': hdef.name,
            'path': ob['path'],
            'path_labels': ob['labels'],
            'counter_model': ob['model'],
            'choices': ob['choices'],
            'replayed_on_real_code': {'status': concrete[0], 'clauses': [[n, ok] for n, ok in concrete[1]], 'detail': concrete[2][-2000:]},
            'reproduced': reproduced,
            'verifier_output': solver_out,
        }, f, indent=1, default=str)
    return p


def do_replay(path: str) -> int:
    with open(path) as f:
        rp = json.load(f)
    ov = overlay.make_overlay()
    overlay.activate(ov)
    if 'bounded_standin' in rp:
        # a failure of a labelled bounded stand-in: re-run the stand-ins of that property (quick tier) on the current tree
        from contracts import index as cindex

        want = rp.get('failure', {})
        print('bounded stand-in %s reported: %s' % (rp['bounded_standin'], json.dumps(want, default=str)[:1500]))
        again = []
        for mn in cindex.PROPS[rp['property']]['modules']:
            b = getattr(importlib.import_module(mn), 'bounded', None)
            if b is not None:
                for st in b('quick', int(os.environ.get('VERIF_SEED', '0') or 0), ov):
                    for fl in st.get('failures', []):
                        if st['name'] == rp['bounded_standin'] and (want.get('obligation') is None or fl.get('obligation') == want.get('obligation')):
                            again.append(fl)
        print('replay status: stand-in re-run, %d matching failure(s) on this tree' % len(again))
        if again:
            print('VIOLATION property=%s replay=%s' % (rp['property'], path))
            return 1
        return 0
    importlib.import_module(rp['harness_module'])
    hd = [h for h in H.HARNESSES if h.name == rp['harness_name'] and h.fn.__module__ == rp['harness_module']]
    if not hd:
        print('harness not found')
        return 3
    st, res, detail = H.replay_concrete(hd[0], rp['counter_model'], rp['choices'])
    print('replay status:', st)
    failed = [n for n, ok in res if not ok]
    for n, ok in res:
        print('  %-5s %s' % ('ok' if ok else 'FAIL', n))
    if detail:
        print(detail)
    if rp['obligation'] in failed:
        print('VIOLATION property=%s replay=%s' % (rp['property'], path))
        return 1
    return 0


def main(argv: Optional[List[str]] = None) -> int:
    ap = argparse.ArgumentParser()
    ap.add_argument('prop')
    ap.add_argument('--tier', default=os.environ.get('VERIF_TIER', 'quick'))
    ap.add_argument('--replay')
    ap.add_argument('--jobs', type=int, default=int(os.environ.get('VERIF_JOBS', '16')))
    ap.add_argument('--filter', default='')
    ap.add_argument('-v', action='store_true')
    a = ap.parse_args(argv)
    if a.replay:
        return do_replay(a.replay)
    t_start = time.time()
    prop = a.prop
    tier = 'thorough' if a.tier == 'thorough' else 'quick'
    seed = int(os.environ.get('VERIF_SEED', '0') or 0)
    os.environ['VERIF_TIER'] = tier  # contract modules that enumerate cases read the tier from here
    from contracts import index as cindex

    if prop not in cindex.PROPS:
        print('no contracts for %s' % prop)
        return 3
    entry = cindex.PROPS[prop]
    # encodings of Python semantics vs CPython, on every run: a disagreement aborts the check (no verdicts from a wrong model)
    from pyvc import selftest

    mism = selftest.run(seed)
    if mism:
        for mm in mism[:10]:
            print('MODEL-MISMATCH ' + mm)
        print('CHECKER-ERROR the encoding of Python semantics disagrees with CPython (%d cases): no verdict' % len(mism))
        return 3
    ov = overlay.make_overlay()
    overlay.activate(ov)
    try:
        import falcon  # noqa: F401
    except Exception:
        print('CHECKER-ERROR: the current tree does not import:\n' + traceback.format_exc())
        _write_evidence(prop, tier, seed, entry, None, [], [], [], time.time() - t_start, error='tree does not import')
        return 3
    H.HARNESSES.clear()
    mods = _load(prop, ov)
    hs = []
    for m in mods:
        mk = getattr(m, 'make_registry', H.Registry)
        for h in H.HARNESSES:
            if h.fn.__module__ == m.__name__ and h.prop == prop and (not a.filter or a.filter in h.id):
                if h.opts.get('tier') == 'thorough' and tier != 'thorough':
                    continue
                hs.append((h, mk))
    # dependencies: contracts of OTHER properties that this property's contracts assume at call sites (modular verification reports a broken
    # callee on the callee's obligation); they are re-checked here so that the verdict for this property does not rest on an unchecked assumption
    n_own = len(hs)
    for dep in entry.get('deps', []) if not (a.filter or os.environ.get('PYVC_NO_DEPS')) else []:
        dm = importlib.import_module(dep['module'])
        mk = getattr(dm, 'make_registry', H.Registry)
        flt = dep.get('filters')
        for h in H.HARNESSES:
            if h.fn.__module__ == dm.__name__ and h.prop == dep['prop'] and (not flt or any(x in h.id for x in flt)):
                if h.opts.get('tier') == 'thorough' and tier != 'thorough':
                    continue
                hs.append((h, mk))
    _STATE['harnesses'] = hs
    _STATE['overlay'] = ov
    check_ms = 60000 if tier == 'thorough' else 10000
    branch_ms = 5000 if tier == 'thorough' else 3000
    jobs = max(1, min(a.jobs, len(hs)))
    if jobs > 1:
        with mp.get_context('fork').Pool(jobs) as pool:
            results = pool.map(_worker, [(i, check_ms, branch_ms) for i in range(len(hs))], chunksize=1)
    else:
        results = [_worker((i, check_ms, branch_ms)) for i in range(len(hs))]

    # --- portfolio for unknowns ---------------------------------------------------
    allobs: List[Dict[str, Any]] = []
    for r in results:
        allobs.extend(r['obligations'])
    unk = [(k, ob) for k, ob in enumerate(allobs) if ob['status'] == 'unknown' and ob.get('smt2')]
    if unk:
        budget = 60.0 if tier == 'thorough' else 20.0
        # The portfolio phase has a wall-clock budget of its own (PYVC_PORTFOLIO_BUDGET_S; default 300 s quick / 1800 s thorough): a change to
        # the subject can turn hundreds of obligations `unknown` at once (seen: a refactored parse_host kept one check busy for over half an hour).
        # Obligations not reached within the budget STAY unknown -- never a verdict, the run then ends UNDECIDED unless something is refuted.
        import time as _time
        deadline = _time.time() + float(os.environ.get('PYVC_PORTFOLIO_BUDGET_S', '1800' if tier == 'thorough' else '300'))
        with mp.get_context('fork').Pool(min(16, len(unk))) as pool:
            it = pool.imap_unordered(_solve_worker, [(k, ob['smt2'], budget) for k, ob in unk])
            while True:
                try:
                    if _time.time() > deadline:
                        raise mp.TimeoutError()
                    k, st, be, secs, raw = it.next(timeout=max(0.5, deadline - _time.time()))
                except StopIteration:
                    break
                except mp.TimeoutError:
                    pool.terminate()
                    _STATE['portfolio_cut'] = True
                    break
                ob = allobs[k]
                ob['seconds'] += secs
                ob['solver_raw'] = raw
                if st == 'unsat':
                    ob['status'] = 'discharged'
                    ob['backend'] = be
                elif st == 'sat':
                    ob['status'] = 'refuted'
                    ob['backend'] = be

    # --- bounded stand-ins ------------------------------------------------------------
    bounded: List[Dict[str, Any]] = []
    for m in mods:
        b = getattr(m, 'bounded', None)
        if b is not None:
            try:
                bounded.extend(b(tier, seed, ov))
            except Exception:
                bounded.append({'name': m.__name__ + '.bounded', 'error': traceback.format_exc(), 'failures': [], 'cases': 0, 'bound': ''})

    # --- bounded fallback for harnesses that could not be executed symbolically on THIS tree ---------------------
    # (e.g. a change introduced a loop over a sequence of symbolic length: the function is then "unreached", which is
    #  not a verdict; the same harness is run natively on the real code with random inputs -- labelled bounded)
    for r in results:
        if r['error'] and r['error_kind'] == 'unreached':
            hdef = hs[r['i']][0]
            try:
                rc = H.random_concrete(hdef, 400 if tier == 'thorough' else 150, seed)
            except Exception:
                rc = {'runs': 0, 'rejected_inputs': 0, 'failures': []}
            bounded.append({'name': 'random-concrete-fallback:' + hdef.id, 'bound': '%d native runs of the harness with random inputs (symbolic execution was unreached: %s)' % (rc['runs'], r['error'][:160]),
                            'cases': rc['runs'], 'failures': rc['failures']})

    # --- verdicts ------------------------------------------------------------------------
    known = load_known()
    errors = [(hs[r['i']][0].id, r['error'], r['error_kind']) for r in results if r['error']]
    violations: List[str] = []
    known_lines: List[str] = []
    undecided: List[str] = []
    seen_known: set = set()
    seen_viol: set = set()
    for ob in allobs:
        if ob['status'] == 'refuted':
            k = match_known(known, hs[ob['harness']][0].prop, ob)  # (a dependency's recorded finding is matched under its own property)
            if k is not None:
                key = (k['obligation'], k.get('what'))
                if key not in seen_known:
                    seen_known.add(key)
                    known_lines.append('KNOWN-FINDING: property=%s %s %s' % (prop, k['obligation'], k.get('what', '')))
                ob['known'] = True
                continue
            if ob['name'] in seen_viol:
                continue
            seen_viol.add(ob['name'])
            hdef = hs[ob['harness']][0]
            conc = H.replay_concrete(hdef, ob['model'], ob['choices'])
            failed = [n for n, ok in conc[1] if not ok]
            reproduced = conc[0] == 'ran' and ob['name'] in failed
            out = 'solver=%s status=sat model=%s\n%s' % (ob['backend'], json.dumps(ob['model'], default=str), ob.get('solver_raw', ''))
            p = write_replay(prop, ob, hdef, conc, reproduced, out)
            line = 'VIOLATION property=%s replay=%s' % (prop, p)
            if not reproduced:
                line += ' obligation=%s no-failing-input-found' % ob['name']
            violations.append(line)
        elif ob['status'] == 'unknown':
            undecided.append(ob['name'])
    for b in bounded:
        for fl in b.get('failures', []):
            kk = None
            for k in known.get('findings', []):
                if k.get('property') == prop and k.get('obligation') == fl.get('obligation'):
                    kk = k
            if kk is not None:
                key = (kk['obligation'], kk.get('what'))
                if key not in seen_known:
                    seen_known.add(key)
                    known_lines.append('KNOWN-FINDING: property=%s %s %s' % (prop, kk['obligation'], kk.get('what', '')))
                continue
            d = os.environ.get('PYVC_REPLAY_DIR') or os.path.join(VERIF, 'replays')
            os.makedirs(d, exist_ok=True)
            p = os.path.join(d, '%s-bounded-%s.json' % (prop, hashlib.sha1(json.dumps(fl, default=str, sort_keys=True).encode()).hexdigest()[:8]))
            with open(p, 'w') as f:
                json.dump({'property': prop, 'bounded_standin': b['name'], 'failure': fl}, f, indent=1, default=str)
            violations.append('VIOLATION property=%s replay=%s' % (prop, p))
        if b.get('error'):
            errors.append((b['name'], b['error'], 'crash'))

    # --- vacuity guards ----------------------------------------------------------------------
    vac: List[str] = []
    for r in results:
        hid = hs[r['i']][0].id
        if not r['error'] and not r['obligations']:
            vac.append('%s: zero obligations' % hid)
        if not r['error'] and r['paths'] == 0 and not any(ob.get('known') for ob in r['obligations']):
            # (a harness that only demonstrates a recorded known finding ends every path at the refuted clause)
            vac.append('%s: no complete path (contradictory precondition?)' % hid)
        for cname, cnt in r['covers'].items():
            if cnt == 0:
                vac.append('cover never reached: %s' % cname)
    if not hs:
        vac.append('no harnesses')

    kill_results: List[Dict[str, Any]] = []
    if not os.environ.get('PYVC_NO_KILLS') and not a.filter and not violations:
        kill_results = run_kills(prop, mods, tier)
        for kr in kill_results:
            if kr['result'] in ('SURVIVED', 'FALSE-ALARM', 'error'):
                vac.append('kill matrix: %s %s -> %s (%s)' % (kr['kind'], kr['file'], kr['result'], kr.get('expect')))
    wall = time.time() - t_start
    _write_evidence(prop, tier, seed, entry, mods, results, allobs, bounded, wall, hs=hs, violations=violations, known_lines=known_lines,
                    undecided=undecided, errors=errors, vac=vac, kills=kill_results)
    for ln in known_lines:
        print(ln)
    nd = sum(1 for ob in allobs if ob['status'] == 'discharged')
    print('%s tier=%s harnesses=%d obligations=%d discharged=%d refuted=%d unknown=%d bounded_standins=%d wall=%.1fs' % (
        prop, tier, len(hs), len(allobs), nd, sum(1 for ob in allobs if ob['status'] == 'refuted'), len(undecided), len(bounded), wall))
    if violations:
        for ln in violations:
            print(ln)
        return 1
    if errors or vac:
        for hid, e, kind in errors:
            print('CHECKER-ERROR %s: %s' % (hid, e))
        for x in vac:
            print('VACUITY %s' % x)
        return 3
    if undecided:
        for u in sorted(set(undecided)):
            print('UNDECIDED %s' % u)
        return 2
    return 0


def _write_evidence(prop: str, tier: str, seed: int, entry: Dict[str, Any], mods: Any, results: List[Dict[str, Any]], allobs: List[Dict[str, Any]],
                    bounded: List[Dict[str, Any]], wall: float, hs: Any = None, violations: Any = None, known_lines: Any = None, undecided: Any = None,
                    errors: Any = None, vac: Any = None, error: Optional[str] = None, kills: Any = None) -> None:
    evdir = os.environ.get('PYVC_EVIDENCE_DIR') or os.path.join(VERIF, 'evidence')
    os.makedirs(evdir, exist_ok=True)
    functions: Dict[str, Any] = {}
    stubs: set = set()
    inlined: set = set()
    havoc: set = set()
    used_models: set = set()
    per_h = []
    for r in results:
        functions.update(r['functions'])
        stubs.update(r['stubs'])
        inlined.update(r['inlined'])
        havoc.update(r['havoc'])
        used_models.update(r['models'])
        st: Dict[str, int] = {}
        for ob in r['obligations']:
            st[ob['status']] = st.get(ob['status'], 0) + 1
        per_h.append({'harness': hs[r['i']][0].id if hs else '?', 'contract_of_property': hs[r['i']][0].prop if hs else '?', 'paths': r['paths'], 'cut_paths': r['cut'], 'obligations': len(r['obligations']),
                      'by_status': st, 'seconds': round(r['seconds'], 2), 'error': r['error']})
    # statement coverage of the functions executed symbolically (union over harnesses): statements never executed on any path
    # are unverified text inside a function under contract
    unc: Dict[str, set] = {}
    tot: Dict[str, int] = {}
    for r in results:
        for k, lines in r.get('uncovered', {}).items():
            unc[k] = set(lines) if k not in unc else (unc[k] & set(lines))
        tot.update(r.get('stmt_total', {}))
    stmt_cov_report = {k: {'statements': tot.get(k, 0), 'never_executed_lines': sorted(v)} for k, v in sorted(unc.items())}
    by_backend: Dict[str, Dict[str, Any]] = {}
    for ob in allobs:
        if ob['status'] == 'discharged':
            b = by_backend.setdefault(ob['backend'], {'count': 0, 'seconds': 0.0})
            b['count'] += 1
            b['seconds'] = round(b['seconds'] + ob['seconds'], 3)
    n_ob = len(allobs)
    n_known = sum(1 for ob in allobs if ob.get('known'))
    n_dis = sum(1 for ob in allobs if ob['status'] == 'discharged')
    samples = []
    seen = set()
    for ob in allobs:
        if ob['name'] not in seen and len(samples) < 12:
            seen.add(ob['name'])
            samples.append({'obligation': ob['name'], 'path': ob['path'], 'path_labels': ob['labels'][:12], 'status': ob['status'], 'backend': ob['backend'],
                            'seconds': round(ob['seconds'], 4)})
    assumptions = list(COMMON_ASSUMPTIONS)
    not_decided: List[str] = []
    trusted = ['pyvc symbolic executor (/verif/pyvc) and its encodings of Python semantics (cross-checked against CPython by pyvc/selftest.py on every run: int arithmetic incl. // and %, str/bytes slicing, find, partition, prefix/suffix, concatenation)', 'z3 %s (in-process)' % _z3v(), 'external solvers: ' + ', '.join(solvers.available())]
    for m in mods or []:
        assumptions.extend(getattr(m, 'ASSUMPTIONS', []))
        not_decided.extend(getattr(m, 'NOT_DECIDED', []))
        trusted.extend(getattr(m, 'TRUSTED', []))
    for name in sorted(used_models):
        trusted.append('model %s: %s' % (name, models.DOC.get(name, '')))
    for s in sorted(stubs):
        trusted.append('callee contract used at call sites (proved by its own harness where listed under functions_under_contract): %s' % s)
    level = entry.get('level', 'proof')
    cov: Dict[str, Any] = {
        # obligations that this run had to discharge = everything generated except the refutations that are recorded
        # known findings (those are listed one by one under known_findings_reported and counted in refuted_known_findings)
        'obligations': n_ob - n_known,
        'discharged': n_dis,
        'obligations_generated_total': n_ob,
        'refuted_known_findings': n_known,
        'refuted_new': sum(1 for ob in allobs if ob['status'] == 'refuted' and not ob.get('known')),
        'unknown': sum(1 for ob in allobs if ob['status'] == 'unknown'),
        'distinct_obligation_names': len({ob['name'] for ob in allobs}),
        'checker_cmd': './check %s --tier %s' % (prop, tier),
        'trusted_base': trusted,
        'functions_under_contract': sorted(functions.values(), key=lambda d: d['function']),
        'callee_contracts_assumed_at_call_sites': sorted(stubs),
        'inlined_helpers': sorted(inlined),
        'loop_havoc_sets': sorted(havoc),
        'harnesses': per_h,
        'discharged_by_backend': by_backend,
        'samples': samples,
        'bounded_standins': [{k: v for k, v in b.items() if k != 'failures'} | {'failures': len(b.get('failures', [])), 'label': 'bounded -- not counted as proved'} for b in bounded],
        'not_decided': not_decided,
        'extraction_drops': extract.DROPPED,
        'known_findings_reported': known_lines or [],
        'violations_reported': violations or [],
        'undecided': sorted(set(undecided or [])),
        'checker_errors': [list(e) for e in (errors or [])] + ([['setup', error, 'crash']] if error else []),
        'vacuity': vac or [],
        'kill_matrix': kills or [],
        'statement_coverage_of_executed_functions': stmt_cov_report,
        'statements_never_executed': sum(len(x['never_executed_lines']) for x in stmt_cov_report.values()),
        'explanation': entry.get('explanation', ''),
        # generic keys as well (accepted fallback of the schema)
        'evaluations': max(1, n_ob + sum(int(b.get('cases', 0)) for b in bounded)),
        'distinct_nontrivial': max(2, len({(ob['name'], ob['path']) for ob in allobs if ob['backend'] not in ('simplifier',)})) if n_ob else 0,
        'rule': 'one obligation per contract clause and explored path of the function under contract; distinct = distinct (clause, path) pairs that needed a solver call (not closed by the term simplifier)',
    }
    ev = {
        'property_id': prop,
        'tier': tier,
        'seed': seed,
        'level': level,
        'coverage': cov,
        'assumptions': assumptions,
        'wall_s': round(wall, 2),
        'violations': len(violations or []),
    }
    with open(os.path.join(evdir, '%s.json' % prop), 'w') as f:
        json.dump(ev, f, indent=1, default=str)


COMMON_ASSUMPTIONS = [
    'partial correctness only: termination is not proved',
    'the verified text is the .py source of the current working tree; compiled Cython twins (*.so) present in a deployment are assumed to behave like the .py they were built from',
    'Python int is unbounded, so integer arithmetic in the encoding is exact; str/bytes are SMT strings (bytes = code points 0..255)',
    'distinct symbolic parameters/fields denote distinct objects unless a harness aliases them explicitly',
    'opaque callees (user callables, server callables, file objects) behave as their stub in the contract file says; each stub is listed in trusted_base',
]


def _z3v() -> str:
    import z3

    return z3.get_version_string()


if __name__ == '__main__':
    sys.exit(main())
