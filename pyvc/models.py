"""Models of builtins and a few stdlib functions over symbolic values.

Each entry states the documentation sentence it encodes (DOC) -- the list is
copied into `trusted_base` of every evidence file that used the entry.
"""
from __future__ import annotations

import builtins
from typing import Any, Callable, Dict, List

import z3

from . import core
from .core import ExcVal, Not, Obj, PyRaise, SBool, SInt, SSeq, SStr, Sym, Unreached, is_sym

MODELS: Dict[int, Callable[..., Any]] = {}
DOC: Dict[str, str] = {}
USED: set = set()
_KEEP: List[Any] = []


def model(obj: Any, doc: str) -> Callable[[Callable[..., Any]], Callable[..., Any]]:
    def deco(fn: Callable[..., Any]) -> Callable[..., Any]:
        name = getattr(obj, '__qualname__', getattr(obj, '__name__', repr(obj)))
        mod = getattr(obj, '__module__', '') or ''
        full = (mod + '.' + name) if mod and mod != 'builtins' else name

        def wrapped(interp: Any, *a: Any, **k: Any) -> Any:
            USED.add(full)
            return fn(interp, *a, **k)

        DOC[full] = doc
        MODELS[id(obj)] = wrapped
        _KEEP.append(obj)
        return wrapped

    return deco


@model(builtins.len, 'len(s): number of items of a sequence or mapping')
def m_len(I: Any, x: Any) -> Any:
    from .interp import GenResult

    if isinstance(x, (SStr, SSeq)):
        return x.length()
    if hasattr(x, '__pyvc_len__'):
        return x.__pyvc_len__()
    if isinstance(x, Obj):
        return I.call(I.getattr(x, '__len__'), [], {})
    if isinstance(x, GenResult):
        return len(x.items)
    if isinstance(x, (SInt, SBool)) or x is None:
        I.ctx.raise_py(TypeError, 'object has no len()')
    return len(x)


@model(builtins.min, 'min(a, b, ...): smallest argument; the first one among equals')
def m_min(I: Any, *xs: Any, **kw: Any) -> Any:
    if kw:
        raise Unreached('min with keywords')
    if len(xs) == 1:
        xs = tuple(I.iterate(xs[0]))
    out = xs[0]
    for x in xs[1:]:
        out = core.Min(out, x)
    return out


@model(builtins.max, 'max(a, b, ...): largest argument; the first one among equals')
def m_max(I: Any, *xs: Any, **kw: Any) -> Any:
    key = kw.pop('key', None)
    default = kw.pop('default', NotImplemented)
    if kw:
        raise Unreached('max with keywords')
    if len(xs) == 1:
        xs = tuple(I.iterate(xs[0]))
    if not xs:
        if default is not NotImplemented:
            return default
        I.ctx.raise_py(ValueError, 'max() arg is an empty sequence')
    if key is not None:
        best = xs[0]
        bk = I.call(key, [best], {})
        for x in xs[1:]:
            k = I.call(key, [x], {})
            if I.truth(k > bk):
                best, bk = x, k
        return best
    out = xs[0]
    for x in xs[1:]:
        if is_sym(out) or is_sym(x):
            out = core.Max(out, x)
        else:
            out = max(out, x)
    return out


@model(builtins.abs, 'abs(x): absolute value')
def m_abs(I: Any, x: Any) -> Any:
    return abs(x)


def _isinst(I: Any, v: Any, cls: Any) -> Any:
    if isinstance(cls, tuple):
        return core.Or(*[_isinst(I, v, c) for c in cls])
    if hasattr(v, '__pyvc_isinstance__'):
        return v.__pyvc_isinstance__(cls)
    if isinstance(v, Obj):
        return isinstance(v._cls, type) and issubclass(v._cls, cls)
    if isinstance(v, ExcVal):
        return v.isa(cls)
    if isinstance(v, SBool):
        return cls in (bool, int, object)
    if isinstance(v, SInt):
        return cls in (int, object)
    if isinstance(v, SStr):
        return cls in ((str, object) if v.kind == 'str' else (bytes, object))
    if isinstance(v, SSeq):
        return cls in (list, object)
    from .interp import BoundMethod, Closure

    if isinstance(v, (Closure, BoundMethod)):
        import types

        return cls in (types.FunctionType, types.MethodType, object)
    return isinstance(v, cls)


@model(builtins.isinstance, 'isinstance(o, C): o is an instance of C or of a subclass (C may be a tuple)')
def m_isinstance(I: Any, v: Any, cls: Any) -> Any:
    return _isinst(I, v, cls)


@model(builtins.issubclass, 'issubclass(C, D)')
def m_issubclass(I: Any, c: Any, d: Any) -> Any:
    if hasattr(c, '__pyvc_issubclass__'):
        return c.__pyvc_issubclass__(d)
    return issubclass(c, d)


@model(builtins.bool, 'bool(x): truth value of x')
def m_bool(I: Any, x: Any = False) -> Any:
    if isinstance(x, (Sym,)):
        return core.mk_bool(core._b(x))
    return I.truth(x)


@model(builtins.str, 'str(x): x for a str; decimal digits (with sign) for an int')
def m_str(I: Any, x: Any = '', *rest: Any) -> Any:
    if rest:
        if isinstance(x, SStr):
            return x.decode(*rest)
        return str(x, *rest)
    return I.to_str(x)


@model(builtins.int, 'int(x): x for an int; for a str see the contract of the caller (ValueError when not a number)')
def m_int(I: Any, x: Any = 0, *rest: Any) -> Any:
    if isinstance(x, SInt):
        return x
    if isinstance(x, SBool):
        return core.mk_int(z3.If(x.t, 1, 0))
    if isinstance(x, SStr):
        h = I.registry.int_parser if I.registry is not None else None
        if h is None:
            raise Unreached('int(str) on a symbolic string without an int-parse model')
        return h(I, x, *rest)
    if x is None or isinstance(x, (Obj, ExcVal)):
        I.ctx.raise_py(TypeError, "int() argument must be a string, a bytes-like object or a real number")
    try:
        return int(x, *rest)
    except (ValueError, TypeError) as e:
        raise PyRaise(ExcVal(type(e), e.args, real=e))


@model(builtins.getattr, 'getattr(o, name[, default])')
def m_getattr(I: Any, o: Any, name: Any, *default: Any) -> Any:
    if not isinstance(name, str):
        raise Unreached('getattr with a symbolic name')
    try:
        return I.getattr(o, name)
    except PyRaise as pr:
        if default and pr.exc.isa(AttributeError):
            return default[0]
        raise


@model(builtins.hasattr, 'hasattr(o, name): getattr does not raise AttributeError')
def m_hasattr(I: Any, o: Any, name: str) -> Any:
    try:
        I.getattr(o, name)
        return True
    except PyRaise as pr:
        if pr.exc.isa(AttributeError):
            return False
        raise


@model(builtins.setattr, 'setattr(o, name, v)')
def m_setattr(I: Any, o: Any, name: str, v: Any) -> None:
    I.setattr(o, name, v)


@model(builtins.callable, 'callable(o)')
def m_callable(I: Any, o: Any) -> Any:
    from .interp import BoundMethod, Closure

    if isinstance(o, (Closure, BoundMethod)):
        return True
    if hasattr(o, '__pyvc_callable__'):
        return o.__pyvc_callable__()
    if isinstance(o, Obj):
        return isinstance(o._cls, type) and I.class_attr(o._cls, '__call__') is not None
    if isinstance(o, Sym):
        return False
    return callable(o)


@model(builtins.type, 'type(o): the class of o')
def m_type(I: Any, o: Any, *rest: Any) -> Any:
    if rest:
        raise Unreached('3-argument type()')
    if isinstance(o, Obj):
        return o._cls
    if isinstance(o, ExcVal):
        return o.cls
    if isinstance(o, SBool):
        return bool
    if isinstance(o, SInt):
        return int
    if isinstance(o, SStr):
        return str if o.kind == 'str' else bytes
    if hasattr(o, '__pyvc_type__'):
        return o.__pyvc_type__()
    return type(o)


@model(builtins.tuple, 'tuple(iterable)')
def m_tuple(I: Any, x: Any = ()) -> Any:
    return tuple(I.iterate(x))


@model(builtins.list, 'list(iterable)')
def m_list(I: Any, x: Any = ()) -> Any:
    if isinstance(x, SSeq) or hasattr(x, '__pyvc_copy_list__'):
        return x.__pyvc_copy_list__() if hasattr(x, '__pyvc_copy_list__') else x
    return list(I.iterate(x))


@model(builtins.reversed, 'reversed(seq)')
def m_reversed(I: Any, x: Any) -> Any:
    if hasattr(x, '__pyvc_reversed__'):
        return x.__pyvc_reversed__()
    return list(reversed(list(I.iterate(x))))


@model(builtins.enumerate, 'enumerate(iterable, start=0)')
def m_enumerate(I: Any, x: Any, start: int = 0) -> Any:
    return list(enumerate(I.iterate(x), start))


@model(builtins.zip, 'zip(*iterables)')
def m_zip(I: Any, *xs: Any) -> Any:
    return list(zip(*[list(I.iterate(x)) for x in xs]))


@model(builtins.any, 'any(iterable)')
def m_any(I: Any, x: Any) -> Any:
    for v in I.iterate(x):
        if I.truth(v):
            return True
    return False


@model(builtins.all, 'all(iterable)')
def m_all(I: Any, x: Any) -> Any:
    for v in I.iterate(x):
        if not I.truth(v):
            return False
    return True


@model(builtins.print, 'print: no effect on program state')
def m_print(I: Any, *a: Any, **k: Any) -> None:
    return None


@model(builtins.id, 'id(o): identity')
def m_id(I: Any, o: Any) -> Any:
    return id(o)


@model(builtins.iter, 'iter(o)')
def m_iter(I: Any, o: Any) -> Any:
    if isinstance(o, Obj):
        return I.call(I.getattr(o, '__iter__'), [], {})
    return iter(list(I.iterate(o)))


@model(builtins.next, 'next(it[, default])')
def m_next(I: Any, it: Any, *default: Any) -> Any:
    if isinstance(it, Obj) or hasattr(it, '__pyvc_next__'):
        m = it.__pyvc_next__ if hasattr(it, '__pyvc_next__') else I.getattr(it, '__next__')
        try:
            return I.call(m, [], {})
        except PyRaise as pr:
            if default and pr.exc.isa(StopIteration):
                return default[0]
            raise
    try:
        return next(it, *default)
    except StopIteration as e:
        raise PyRaise(ExcVal(StopIteration, e.args))


@model(builtins.sorted, 'sorted(iterable): ascending list')
def m_sorted(I: Any, x: Any, **kw: Any) -> Any:
    items = list(I.iterate(x))
    from .interp import deep_concrete

    if not deep_concrete(items) or kw.get('key') is not None and not callable(kw['key']):
        raise Unreached('sorted over symbolic items')
    return sorted(items, **kw)


@model(builtins.repr, 'repr(o)')
def m_repr(I: Any, o: Any) -> Any:
    from .interp import deep_concrete

    if deep_concrete(o):
        return repr(o)
    # repr of a symbolic value only ever feeds error messages
    return I.ctx.fresh_str('repr')


@model(builtins.dict, 'dict(mapping or pairs, **kw)')
def m_dict(I: Any, *a: Any, **kw: Any) -> Any:
    d: Dict[Any, Any] = {}
    if a:
        src = a[0]
        if hasattr(src, '__pyvc_items__'):
            src = list(src.__pyvc_items__())
        elif isinstance(src, dict):
            src = list(src.items())
        else:
            src = [tuple(I.iterate(p)) for p in I.iterate(src)]
        for k, v in src:
            d[k] = v
    d.update(kw)
    return d


@model(builtins.frozenset, 'frozenset(iterable)')
def m_frozenset(I: Any, x: Any = ()) -> Any:
    items = list(I.iterate(x))
    from .interp import deep_concrete

    if deep_concrete(items):
        return frozenset(items)
    return SymSetOf(items)


class SymSetOf:
    """A finite set given by an explicit list of (possibly symbolic) members."""

    __pyvc_symbolic__ = True

    def __init__(self, items: List[Any]) -> None:
        self.items = items

    def __pyvc_contains__(self, x: Any) -> Any:
        return core.Or(*[core.cur_interp_equals(x, e) for e in self.items])

    def __pyvc_iter__(self) -> Any:
        raise Unreached('iteration over a set with symbolic members')

    def __pyvc_truth__(self) -> Any:
        return len(self.items) > 0


import functools as _functools
import traceback as _traceback


@model(_functools.wraps, 'functools.wraps(f): decorator that copies metadata only; the decorated function is returned unchanged')
def m_wraps(I: Any, wrapped: Any, *a: Any, **k: Any) -> Any:
    return _IDENTITY_DECORATOR


class _IdentityDecorator:
    __pyvc_native__ = True

    def __call__(self, fn: Any) -> Any:
        return fn


_IDENTITY_DECORATOR = _IdentityDecorator()


@model(_traceback.format_exc, 'traceback.format_exc(): a str describing the exception being handled')
def m_format_exc(I: Any, *a: Any, **k: Any) -> Any:
    return I.ctx.fresh_str('traceback')

import typing as _typing


@model(_typing.cast, 'typing.cast(T, x): returns x unchanged')
def m_cast(I: Any, typ: Any, val: Any) -> Any:
    return val
