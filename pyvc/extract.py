"""Mechanical extraction of subject functions from the current /repo source.

Nothing is copied or rewritten: every run parses the ``.py`` text found under
the repository root *now* and hands the ``ast`` nodes to the executor.  What the
executor ignores (and therefore what the extraction drops) is fixed and
reported in every evidence file: docstrings, comments, type annotations,
``if TYPE_CHECKING:`` blocks and ``@overload`` stubs.
"""
from __future__ import annotations

import ast
import hashlib
import os
from typing import Any, Dict, List, Optional, Tuple

REPO = os.environ.get('PYVC_REPO', '/repo')

DROPPED = [
    'docstrings',
    'comments',
    'type annotations (parameters, returns, variable annotations without value)',
    'if TYPE_CHECKING: blocks',
    '@overload stubs',
]


class FuncInfo:
    def __init__(self, module: str, qualname: str, node: ast.AST, path: str, src: str, cls_chain: List[ast.ClassDef]) -> None:
        self.module = module
        self.qualname = qualname
        self.node = node
        self.path = path
        self.cls_chain = cls_chain
        seg = ast.get_source_segment(src, node) or ''
        self.sha256 = hashlib.sha256(seg.encode()).hexdigest()
        self.lineno = getattr(node, 'lineno', 0)
        self.end_lineno = getattr(node, 'end_lineno', 0)
        self.decorators = [ast.unparse(d) for d in getattr(node, 'decorator_list', [])]

    @property
    def key(self) -> str:
        return '%s:%s' % (self.module, self.qualname)

    def describe(self) -> Dict[str, Any]:
        return {
            'function': self.key,
            'file': os.path.relpath(self.path, REPO),
            'span': [self.lineno, self.end_lineno],
            'sha256': self.sha256,
            'decorators': self.decorators,
        }


class SourceIndex:
    def __init__(self, root: Optional[str] = None) -> None:
        self.root = root or REPO
        self._mods: Dict[str, Tuple[ast.Module, str, str]] = {}
        self._funcs: Dict[str, FuncInfo] = {}

    def module_path(self, module: str) -> str:
        rel = module.replace('.', '/')
        p = os.path.join(self.root, rel + '.py')
        if os.path.exists(p):
            return p
        p = os.path.join(self.root, rel, '__init__.py')
        if os.path.exists(p):
            return p
        raise KeyError('no source for module %s under %s' % (module, self.root))

    def has_module(self, module: str) -> bool:
        try:
            self.module_path(module)
            return True
        except KeyError:
            return False

    def module(self, module: str) -> Tuple[ast.Module, str, str]:
        if module not in self._mods:
            p = self.module_path(module)
            with open(p, encoding='utf-8') as f:
                src = f.read()
            self._mods[module] = (ast.parse(src, p), p, src)
        return self._mods[module]

    def find_accessor(self, module: str, qualname: str, accessor: str) -> FuncInfo:
        return self.find(module, qualname, accessor)

    def find(self, module: str, qualname: str, accessor: Optional[str] = None) -> FuncInfo:
        key = '%s:%s%s' % (module, qualname, '@' + accessor if accessor else '')
        if key in self._funcs:
            return self._funcs[key]
        tree, path, src = self.module(module)
        parts = [p for p in qualname.split('.') if p != '<locals>']
        node: Any = tree
        chain: List[ast.ClassDef] = []
        for i, part in enumerate(parts):
            found = None
            cands = [child for child in _defs(node) if getattr(child, 'name', None) == part]
            if cands:
                found = cands[-1]  # last definition wins, as at run time
                if i == len(parts) - 1 and len(cands) > 1:
                    # property getter / setter / deleter share a name
                    want = {'setter': '.setter', 'deleter': '.deleter'}.get(accessor or '')
                    for c in cands:
                        decos = [ast.unparse(d) for d in getattr(c, 'decorator_list', [])]
                        if want is None and any(d in ('property',) for d in decos):
                            found = c
                        if want is not None and any(d.endswith(want) for d in decos):
                            found = c
            if found is None:
                raise KeyError('%s not found in %s' % (qualname, module))
            if isinstance(found, ast.ClassDef) and i < len(parts) - 1:
                chain.append(found)
            node = found
        info = FuncInfo(module, qualname, node, path, src, chain)
        self._funcs[key] = info
        return info

    def find_class(self, module: str, qualname: str) -> Optional[ast.ClassDef]:
        try:
            tree, _, _ = self.module(module)
        except KeyError:
            return None
        node: Any = tree
        for part in qualname.split('.'):
            if part == '<locals>':
                continue
            found = None
            for child in _defs(node):
                if getattr(child, 'name', None) == part:
                    found = child
            if found is None:
                return None
            node = found
        return node if isinstance(node, ast.ClassDef) else None


def _defs(node: ast.AST) -> List[ast.AST]:
    """Definitions directly inside `node` (descending through if/try/with blocks)."""
    out: List[ast.AST] = []
    body = list(getattr(node, 'body', []))
    stack = body
    while stack:
        n = stack.pop(0)
        if isinstance(n, (ast.FunctionDef, ast.AsyncFunctionDef, ast.ClassDef)):
            out.append(n)
        elif isinstance(n, (ast.If, ast.Try, ast.With, ast.For, ast.While)):
            for fld in ('body', 'orelse', 'finalbody'):
                stack.extend(getattr(n, fld, []))
            for h in getattr(n, 'handlers', []):
                stack.extend(h.body)
    return out


def loop_ordinals(fn: ast.AST) -> Dict[int, str]:
    """Map id(loop node) -> 'while#k' / 'for#k' in source order, not descending into nested defs."""
    out: Dict[int, str] = {}
    counts = {'while': 0, 'for': 0}

    def visit(n: ast.AST, top: bool) -> None:
        for c in ast.iter_child_nodes(n):
            if isinstance(c, (ast.FunctionDef, ast.AsyncFunctionDef, ast.Lambda, ast.ClassDef)):
                continue
            if isinstance(c, ast.While):
                out[id(c)] = 'while#%d' % counts['while']
                counts['while'] += 1
            elif isinstance(c, (ast.For, ast.AsyncFor)):
                out[id(c)] = 'for#%d' % counts['for']
                counts['for'] += 1
            visit(c, False)

    visit(fn, True)
    return out


def branch_ordinals(fn: ast.AST) -> Dict[int, str]:
    """Stable labels for decision points: kind#ordinal within the function."""
    out: Dict[int, str] = {}
    counts: Dict[str, int] = {}

    def visit(n: ast.AST) -> None:
        for c in ast.iter_child_nodes(n):
            if isinstance(c, (ast.FunctionDef, ast.AsyncFunctionDef, ast.Lambda, ast.ClassDef)):
                continue
            k = type(c).__name__
            if isinstance(c, (ast.If, ast.IfExp, ast.While, ast.BoolOp, ast.Compare, ast.Assert, ast.Call, ast.Subscript, ast.UnaryOp)):
                i = counts.get(k, 0)
                counts[k] = i + 1
                out[id(c)] = '%s#%d' % (k, i)
            visit(c)

    visit(fn)
    return out
