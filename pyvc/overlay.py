"""Source-only overlay of the repository's package (see DESIGN.md 1.1).

/repo/falcon holds git-ignored Cython builds (*.so, *.c) that shadow the .py
sources.  Every check copies the *current working tree* .py files into a scratch
directory outside /repo and /verif, imports from there, and removes it at exit.
"""
from __future__ import annotations

import atexit
import os
import shutil
import subprocess
import sys
import tempfile

REPO = os.environ.get('PYVC_REPO', '/repo')
_made = []


def make_overlay(repo: str = REPO) -> str:
    base = os.environ.get('TMPDIR') or '/var/tmp'
    d = tempfile.mkdtemp(prefix='verif.%d.' % os.getpid(), dir=base)
    subprocess.run(
        ['rsync', '-a', '--exclude=*.so', '--exclude=*.c', '--exclude=__pycache__', '--exclude=*.pyc', os.path.join(repo, 'falcon'), d + '/'],
        check=True,
    )
    _made.append(d)
    return d


def activate(d: str) -> None:
    sys.dont_write_bytecode = True
    if d not in sys.path:
        sys.path.insert(0, d)
    for m in list(sys.modules):
        if m == 'falcon' or m.startswith('falcon.'):
            del sys.modules[m]


def cleanup() -> None:
    while _made:
        shutil.rmtree(_made.pop(), ignore_errors=True)


atexit.register(cleanup)
