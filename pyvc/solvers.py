"""Portfolio of external SMT solvers for obligations z3 in-process left `unknown`."""
from __future__ import annotations

import os
import shutil
import subprocess
import tempfile
import time
from typing import List, Optional, Tuple

SOLVERS: List[Tuple[str, List[str]]] = [
    ('cvc5', ['/usr/bin/cvc5', '--strings-exp', '--lang=smt2']),
    ('z3-4.8', ['/usr/bin/z3', '-smt2']),
    ('z3-new', ['z3-new', '-smt2']),
]


def available() -> List[str]:
    out = []
    for name, cmd in SOLVERS:
        if shutil.which(cmd[0]) or os.path.exists(cmd[0]):
            out.append(name)
    return out


def _fix_for_cvc5(text: str) -> str:
    # z3's to_smt2 prints (declare-fun x () String); cvc5 1.0 accepts that.  z3-only
    # operators are rewritten to the SMT-LIB 2.6 names.
    rep = {
        'str.from_code': 'str.from_code',
        'seq.len': 'str.len',
        'seq.++': 'str.++',
        'seq.extract': 'str.substr',
        'seq.prefixof': 'str.prefixof',
        'seq.suffixof': 'str.suffixof',
        'seq.contains': 'str.contains',
        'seq.indexof': 'str.indexof',
        'seq.at': 'str.at',
        'seq.replace': 'str.replace',
        'seq.nth_i': 'seq.nth',
        'seq.nth_u': 'seq.nth',
    }
    for a, b in rep.items():
        text = text.replace('(' + a + ' ', '(' + b + ' ')
    return text


def solve(smt2: str, timeout_s: float, workdir: Optional[str] = None) -> Tuple[str, str, float, str]:
    """Run the portfolio sequentially; first decisive answer wins.

    Returns (status, backend, seconds, raw) with status in unsat|sat|unknown.
    """
    t0 = time.time()
    raw_all = []
    if '(check-sat)' not in smt2:
        smt2 = smt2 + '\n(check-sat)\n'
    for name, cmd in SOLVERS:
        if not (shutil.which(cmd[0]) or os.path.exists(cmd[0])):
            continue
        text = _fix_for_cvc5(smt2) if name == 'cvc5' else smt2
        with tempfile.NamedTemporaryFile('w', suffix='.smt2', dir=workdir, delete=False) as f:
            f.write(text)
            path = f.name
        try:
            extra = ['--tlimit=%d' % int(timeout_s * 1000)] if name == 'cvc5' else ['-T:%d' % max(1, int(timeout_s))]
            p = subprocess.run(cmd + extra + [path], capture_output=True, text=True, timeout=timeout_s + 5)
            out = (p.stdout or '').strip()
            raw_all.append('%s: %s %s' % (name, out[:200], (p.stderr or '')[:200]))
            first = out.split('\n')[0].strip() if out else ''
            if first in ('unsat', 'sat'):
                return first, name, time.time() - t0, '\n'.join(raw_all)
        except subprocess.TimeoutExpired:
            raw_all.append('%s: timeout' % name)
        finally:
            try:
                os.unlink(path)
            except OSError:
                pass
    return 'unknown', '', time.time() - t0, '\n'.join(raw_all)
