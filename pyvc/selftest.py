"""Differential self-test of the encodings of Python semantics against CPython.

Each operation of the symbolic value classes is evaluated on CONSTANT z3 terms
(so the result folds to a constant by simplification, or is decided by a ground
solver query) and compared with what CPython computes for the same operands.
A disagreement means the encoding is wrong: the check aborts with exit 3 and
produces no verdicts.  Run on every ./check (seeded, a few hundred cases, < 2 s).
"""
from __future__ import annotations

import random
from typing import Any, List

import z3

from . import core
from .core import SBool, SInt, SStr


def _int(n: int) -> SInt:
    return SInt(z3.IntVal(n))


def _str(s: Any) -> SStr:
    if isinstance(s, bytes):
        return SStr(z3.StringVal(s.decode('latin-1')), 'bytes')
    return SStr(z3.StringVal(s), 'str')


def _val(x: Any) -> Any:
    """Fold a (constant) symbolic value to the python value it denotes."""
    if isinstance(x, SBool):
        t = z3.simplify(x.t)
        if z3.is_true(t):
            return True
        if z3.is_false(t):
            return False
        s = z3.Solver()
        s.add(t)
        return s.check() == z3.sat
    if isinstance(x, SInt):
        t = z3.simplify(x.t)
        if z3.is_int_value(t):
            return t.as_long()
        s = z3.Solver()
        v = z3.Int('__v')
        s.add(v == t)
        assert s.check() == z3.sat
        return s.model()[v].as_long()
    if isinstance(x, SStr):
        t = z3.simplify(x.t)
        if not z3.is_string_value(t):
            s = z3.Solver()
            v = z3.String('__s')
            s.add(v == t)
            assert s.check() == z3.sat
            t = s.model()[v]
        out = core._unescape_z3(t.as_string())
        return out if x.kind == 'str' else out.encode('latin-1')
    if isinstance(x, tuple):
        return tuple(_val(e) for e in x)
    return x


def run(seed: int = 0, cases: int = 300) -> List[str]:
    rnd = random.Random(seed)
    bad: List[str] = []

    def expect(what: str, got: Any, want: Any) -> None:
        if got != want:
            bad.append('%s: encoding gives %r, CPython gives %r' % (what, got, want))

    class _NoCtx:
        pass

    ints = [0, 1, -1, 2, -2, 3, 7, -7, 10, -10, 255, 256]
    for _ in range(cases):
        a, b = rnd.choice(ints), rnd.choice(ints)
        expect('%d + %d' % (a, b), _val(_int(a) + b), a + b)
        expect('%d - %d' % (a, b), _val(_int(a) - _int(b)), a - b)
        expect('%d * %d' % (a, b), _val(_int(a) * b), a * b)
        expect('%d < %d' % (a, b), _val(_int(a) < b), a < b)
        expect('%d <= %d' % (a, b), _val(_int(a) <= _int(b)), a <= b)
        expect('%d == %d' % (a, b), _val(_int(a) == b), a == b)
        expect('min(%d,%d)' % (a, b), _val(core.Min(_int(a), b)), min(a, b))
        expect('max(%d,%d)' % (a, b), _val(core.Max(_int(a), _int(b))), max(a, b))
        expect('abs(%d)' % a, _val(abs(_int(a))), abs(a))
        expect('-(%d)' % a, _val(-_int(a)), -a)
        if b != 0:
            # floor division / modulo follow the sign of the divisor in python
            q = core.mk_int(core.pydiv(z3.IntVal(a), z3.IntVal(b)))
            expect('%d // %d' % (a, b), _val(q), a // b)
            m = core.mk_int(z3.IntVal(a) - z3.IntVal(b) * core.pydiv(z3.IntVal(a), z3.IntVal(b)))
            expect('%d %% %d' % (a, b), _val(m), a % b)
    alphabet = 'ab/.-\x00\xe9 '
    subs = ['', 'a', 'b', '/', 'ab', 'a/', '..', '-']
    for _ in range(cases):
        s = ''.join(rnd.choice(alphabet) for _ in range(rnd.randint(0, 6)))
        t = rnd.choice(subs)
        lo = rnd.choice([None, 0, 1, 2, -1, -2, 5, -7, 9])
        hi = rnd.choice([None, 0, 1, 3, -1, -3, 6, -9, 11])
        for kind, conv in (('str', lambda x: x), ('bytes', lambda x: x.encode('latin-1'))):
            ps, pt = conv(s), conv(t)
            S = _str(ps)
            expect('len(%r)' % (ps,), _val(S.length()), len(ps))
            expect('%r[%r:%r]' % (ps, lo, hi), _val(S[lo:hi]), ps[lo:hi])
            expect('%r + %r' % (ps, pt), _val(S + pt), ps + pt)
            expect('%r + %r (r)' % (pt, ps), _val(pt + S), pt + ps)
            expect('%r.startswith(%r)' % (ps, pt), _val(S.startswith(pt)), ps.startswith(pt))
            expect('%r.endswith(%r)' % (ps, pt), _val(S.endswith(pt)), ps.endswith(pt))
            expect('%r in %r' % (pt, ps), _val(S.contains(pt)), pt in ps)
            expect('%r.find(%r)' % (ps, pt), _val(S.find(pt)), ps.find(pt))
            expect('%r == %r' % (ps, pt), _val(S == pt), ps == pt)
            expect('%r < %r' % (ps, pt), _val(S < pt), ps < pt)
            expect('%r <= %r' % (ps, pt), _val(S <= pt), ps <= pt)
            expect('%r > %r' % (ps, pt), _val(S > _str(pt)), ps > pt)
            expect('%r >= %r' % (ps, pt), _val(S >= _str(pt)), ps >= pt)
            if pt:
                expect('%r.partition(%r)' % (ps, pt), _val(S.partition(pt)), ps.partition(pt))
            if hasattr(S, 'rfind'):
                try:
                    expect('%r.rfind(%r)' % (ps, pt), _val(S.rfind(pt)), ps.rfind(pt))
                except Exception:
                    pass
    # slice bounds helper on sequences of every small length
    for n in range(0, 5):
        for lo in (None, -6, -2, -1, 0, 1, 3, 7):
            for hi in (None, -6, -2, -1, 0, 1, 3, 7):
                a, ln = core._slice_bounds(z3.IntVal(n), lo, hi)
                a, ln = z3.simplify(a).as_long(), z3.simplify(ln).as_long()
                want = list(range(n))[lo:hi]
                got = list(range(n))[a : a + ln]
                expect('range(%d)[%r:%r]' % (n, lo, hi), got, want)
    return bad


if __name__ == '__main__':
    import sys

    problems = run(int(sys.argv[1]) if len(sys.argv) > 1 else 0)
    for p in problems[:20]:
        print('MODEL-MISMATCH', p)
    print('pymodel self-test: %d mismatches' % len(problems))
    sys.exit(3 if problems else 0)
